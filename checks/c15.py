"""C15 - object-keypoint similarity and instance matching obey their contracts.

Three parts, all Hypothesis-sampled (class label drawn first, then an input of that class):

* ``oks``     - ``compute_oks`` / ``compute_instance_area`` on pose arrays
  (n_gt, n_pr 1..4, 1..8 nodes, NaN patterns, degenerate boxes, stddev scalar / per node,
  scale None / scalar / per GT, both normalisations).  Oracles: float64 reference written
  with ``math`` from the docstring formula (no shared code), range, identical -> 1,
  GT-missing nodes ignored, NaN prediction == prediction at +1e9, monotone along a ray,
  translation invariance, instance permutation equivariance.
* ``match``   - ``match_instances`` on frames built on the asset video (0..4 GT, 0..5
  predictions, tied scores, thresholds 0..0.9).  Oracles: identity-based partition /
  conservation laws, pair OKS == compute_oks of the pair == reference, > threshold.
* ``helpers`` - ``hungarian_matching`` (brute-force optimum over all injective maps),
  ``greedy_matching`` (one-to-one, every pick is the minimum of what is left),
  ``compute_iou`` (range, symmetry, self == 1, separated == 0, pixel counting on integer
  boxes), ``compute_cosine_sim`` / ``compute_euclidean_distance`` (fsum reference, symmetry).
"""

import itertools
import math

import numpy as np

from vlib import env, runner
from vlib.runner import Part, Result

PROPERTY = "C15"
LEVEL = "exploration"
RULE = (
    "cases are drawn class-first with Hypothesis: (oks) n_gt x n_pr x nodes pose arrays with NaN patterns, "
    "degenerate boxes, derived/duplicated/far predictions, stddev scalar|per-node, scale None|scalar|per-GT, "
    "both normalisations, plus the parameters of each metamorphic law (ray, shift, permutations, replacement "
    "values); (match) frames with 0..4 GT and 0..5 scored predictions, ties, thresholds; (helpers) cost "
    "matrices <=5x5, boxes, vectors. Non-trivial: oks - at least one similarity strictly inside (0,1); "
    "match - >=2 GT, >=2 predictions and >=1 matched pair; helpers - the optimal assignment is not the "
    "identity assignment / the boxes overlap partially / the vectors are not parallel. Distinct by hash of "
    "the serialised case."
)
ASSUMPTIONS = [
    "missing keypoints are whole-node NaNs (both coordinates), as sleap-io produces them; partially-NaN nodes are not generated",
    "a GT row with no visible node has undefined similarity (0/0): generated, must not raise, counted as class 'gt-row-all-nan', no range/reference assertion on that row",
    "reference formula: coco -> exp(-d^2 / ((2*stddev)^2 * 2*(scale+eps))), paper -> exp(-d^2 / (stddev^2 * 2*(scale+eps)^2)), scale = GT bounding-box area when None, eps = 2^-52 (cocoeval's np.spacing(1)); mean over GT-visible nodes",
    "translation invariance is asserted exactly (1e-12) on inputs built on a 1/128 grid (all sums/differences exact in float64) and at 1e-9 on free-float inputs only when the bounding-box area is >= 1 and the smallest normalisation factor is >= 1e-4 (below that the similarity falls from 1 to 0 within less than a rounding error of the shifted coordinates)",
    "float32 inputs: only 'does not raise', shape, range and identical->1 are asserted",
    "stddev in [0.01, 0.2], scale in [0, 1e5] (scalar / per GT as numpy arrays, as the docstring describes 'of the length n_gt')",
    "match_instances with 0 GT and >=1 prediction raises ValueError (np.stack of an empty list); find_frame_pairs never produces such a frame; counted as rejected input",
    "match_instances: 'pair OKS exceeds the threshold' is asserted strictly (oks > threshold), as the code comment 'oks <= threshold -> no match' and DESIGN.md state",
    "hungarian/greedy cost matrices are finite (NaN/inf costs belong to C09's stale-track finding)",
    "compute_iou boxes are valid (min <= max); the pixel-counting oracle applies to integer boxes only (pixel-inclusive convention of the implementation's +1)",
    "cosine similarity with a (near-)zero vector is undefined (0/0): counted, not asserted",
]

ASSET = "tests/assets/minimal_instance.pkg.slp"
INF = float("inf")
EPS = 2.0**-52

# ------------------------------------------------------------------------------------
# references (float64, python math; nothing imported from the code under test)


def arr(poses, ned, dtype=np.float64):
    """list of poses (each a list of [x,y,..] or None) -> (n, nodes, ned) array, None -> NaN."""
    out = np.full((len(poses), len(poses[0]) if poses else 0, ned), np.nan, dtype=np.float64)
    for i, p in enumerate(poses):
        for k, pt in enumerate(p):
            if pt is not None:
                out[i, k] = pt
    return out.astype(dtype)


def ref_area(pose):
    """Bounding-box area (volume) of the visible nodes; NaN when none is visible."""
    vis = [pt for pt in pose if not any(math.isnan(float(c)) for c in pt)]
    if not vis:
        return float("nan")
    a = 1.0
    for d in range(len(vis[0])):
        cs = [float(pt[d]) for pt in vis]
        a *= max(cs) - min(cs)
    return a


def ref_oks(gt, pr, stddev, scale, coco):
    """OKS matrix from the documented formula; NaN rows for GT rows without visible nodes."""
    n_gt, n_nodes, ned = gt.shape
    n_pr = pr.shape[0]
    sd = [float(stddev)] * n_nodes if np.isscalar(stddev) else [float(s) for s in stddev]
    out = np.full((n_gt, n_pr), np.nan)
    norm_min = math.inf
    for i in range(n_gt):
        vis = [k for k in range(n_nodes) if not any(math.isnan(float(c)) for c in gt[i, k])]
        if not vis:
            continue
        if scale is None:
            s = ref_area(gt[i])
        elif np.isscalar(scale):
            s = float(scale)
        else:
            s = float(scale[i])
        for j in range(n_pr):
            tot = 0.0
            for k in vis:
                if coco:
                    denom = (2.0 * sd[k]) ** 2 * (2.0 * (s + EPS))
                else:
                    denom = sd[k] ** 2 * (2.0 * (s + EPS) ** 2)
                norm_min = min(norm_min, denom)
                if any(math.isnan(float(c)) for c in pr[j, k]):
                    continue  # missing prediction = complete miss = 0
                d2 = sum((float(gt[i, k, d]) - float(pr[j, k, d])) ** 2 for d in range(ned))
                tot += math.exp(-(d2 / denom))
            out[i, j] = tot / len(vis)
    return out, norm_min


def brute_assignment(cost):
    """Minimum total cost over all maximal one-to-one assignments (sizes <= 5x5)."""
    n, m = len(cost), (len(cost[0]) if cost else 0)
    if n == 0 or m == 0:
        return 0.0
    best = math.inf
    if n <= m:
        for perm in itertools.permutations(range(m), n):
            best = min(best, math.fsum(cost[i][perm[i]] for i in range(n)))
    else:
        for perm in itertools.permutations(range(n), m):
            best = min(best, math.fsum(cost[perm[j]][j] for j in range(m)))
    return best


# ------------------------------------------------------------------------------------
# part: oks


class OksCaller:
    """compute_oks through runner.guarded.  A raise of a call with more than one predicted
    instance (defect D10: every such call raises IndexError on the unchanged tree) is
    reported once per case in its own bucket; afterwards (and only for such calls) the
    matrix is assembled from single-prediction calls so that the other laws keep running."""

    def __init__(self, res, coco):
        self.res = res
        self.coco = coco
        self.colwise = False
        self.n = 0
        self.shared = {}  # one array object per distinct per-node stddev / per-gt scale, reused by every call of the case

    def shared_array(self, values):
        """Callers hold per-node constants (e.g. the COCO sigmas) in ONE array and hand it to every
        call; the case does the same, so a call that modifies its argument shows up in the laws."""
        key = tuple(values)
        if key not in self.shared:
            self.shared[key] = np.array(values, dtype=np.float64)
        return self.shared[key]

    def check_arguments_untouched(self):
        for key, a in self.shared.items():
            if a.shape != (len(key),) or not (a == np.array(key, dtype=np.float64)).all():
                self.res.fail("oks:argument-modified", f"array passed as stddev/scale was {list(key)} and is {a.tolist()} after {self.n} calls")

    def __call__(self, gt, pr, stddev, scale):
        from sleap_nn.evaluation import compute_oks

        def kw():
            return dict(
                stddev=(stddev if np.isscalar(stddev) else self.shared_array(stddev)),
                scale=(scale if (scale is None or np.isscalar(scale)) else self.shared_array(scale)),
                use_cocoeval=self.coco,
            )

        self.n += 1
        n_gt, n_pr = gt.shape[0], pr.shape[0]
        multi = n_pr > 1
        if not (multi and self.colwise):
            prefix = "oks:multi-pred" if multi else "oks"
            out = runner.guarded(self.res, prefix, compute_oks, gt.copy(), pr.copy(), **kw())
            if out is not runner.FAILED:
                out = np.asarray(out)
                if out.shape != (n_gt, n_pr):
                    self.res.fail("oks:shape", f"shape {out.shape} != {(n_gt, n_pr)}")
                    return runner.FAILED
                return out
            if not multi:
                return runner.FAILED
            self.colwise = True
        cols = []
        for j in range(n_pr):
            c = runner.guarded(self.res, "oks-col", compute_oks, gt.copy(), pr[j : j + 1].copy(), **kw())
            if c is runner.FAILED:
                return runner.FAILED
            c = np.asarray(c)
            if c.shape != (n_gt, 1):
                self.res.fail("oks:shape", f"shape {c.shape} != {(n_gt, 1)}")
                return runner.FAILED
            cols.append(c[:, 0])
        return np.stack(cols, axis=1)


def same(a, b, tol):
    """Element-wise |a-b| <= tol, NaN == NaN (a NaN on a defined row is reported by the range clause)."""
    a, b = np.asarray(a, dtype=np.float64), np.asarray(b, dtype=np.float64)
    return bool(((np.abs(a - b) <= tol) | (np.isnan(a) & np.isnan(b))).all())


def evaluate_oks(case):
    from sleap_nn.evaluation import compute_instance_area

    res = Result()
    ned = case["ned"]
    f32 = case["dtype"] == "f32"
    dtype = np.float32 if f32 else np.float64
    gt = arr(case["gt"], ned, dtype)
    pr = arr(case["pr"], ned, dtype)
    n_gt, n_nodes = gt.shape[:2]
    n_pr = pr.shape[0]
    stddev, scale, coco = case["stddev"], case["scale"], case["coco"]
    miss_gt = np.isnan(gt).any(-1)
    miss_pr = np.isnan(pr).any(-1)
    valid = [i for i in range(n_gt) if not miss_gt[i].all()]
    call = OksCaller(res, coco)

    res.cls(
        f"oks:kind={case['kind']}",
        f"oks:n_gt={n_gt}",
        f"oks:n_pr={n_pr}",
        f"oks:nodes={'1' if n_nodes == 1 else '2-4' if n_nodes <= 4 else '5-8'}",
        "oks:norm=coco" if coco else "oks:norm=paper",
        "oks:stddev=scalar" if np.isscalar(stddev) else "oks:stddev=per-node",
        "oks:scale=None" if scale is None else "oks:scale=scalar" if np.isscalar(scale) else "oks:scale=per-gt",
        f"oks:dtype={case['dtype']}",
        f"oks:ned={ned}",
        "oks:grid" if case["exact"] else "oks:free-float",
    )
    if miss_gt.any():
        res.cls("oks:gt-has-missing")
    if miss_pr.any():
        res.cls("oks:pr-has-missing")
    if len(valid) < n_gt:
        res.cls("oks:gt-row-all-nan")
    if n_pr > 1 and miss_gt.any():
        res.cls("oks:multi-pred+missing-gt")
    if n_pr > 1 or n_gt > 1:
        res.cls("oks:multi-pred-call")  # at least one compute_oks call with n_pr > 1 (oks(gt, pr) or oks(gt, gt))

    def done():
        res.n_evals = max(1, call.n)
        call.check_arguments_untouched()
        return res

    M = call(gt, pr, stddev, scale)
    if M is runner.FAILED:
        return done()
    Mv = M[valid] if valid else np.zeros((0, n_pr))

    # (a) range.  sum of <= n_vis terms each in [0,1] divided by n_vis; 1e-12 absorbs the rounding of the sum.
    if valid and not (np.isfinite(Mv).all() and (Mv >= 0).all() and (Mv <= 1 + 1e-12).all()):
        res.fail("oks:range", f"values outside [0,1] or non-finite: {Mv.tolist()}")
    res.nontrivial = bool(valid) and bool(((Mv > 1e-12) & (Mv < 1 - 1e-12)).any())

    # (c) identical poses -> 1 (distance exactly 0 -> exp(0); 1e-9 as in DESIGN.md).
    for i in valid:
        sc_i = scale if (scale is None or np.isscalar(scale)) else [scale[i]]
        one = call(gt[i : i + 1], gt[i : i + 1], stddev, sc_i)
        if one is not runner.FAILED and not abs(float(one[0, 0]) - 1.0) <= 1e-9:
            res.fail("oks:identical-not-1", f"oks(gt[{i}], gt[{i}]) = {float(one[0, 0])!r}")
    if n_gt > 1:
        D = call(gt, gt, stddev, scale)
        if D is not runner.FAILED:
            bad = [i for i in valid if not abs(float(D[i, i]) - 1.0) <= 1e-9]
            if bad:
                res.fail("oks:identical-not-1:matrix-diagonal", f"diag of oks(gt, gt) = {np.diag(D).tolist()}")

    if f32:
        return done()

    # (b) agreement with the float64 reference.  Both sides evaluate the same expression in float64;
    # d exp(-x)/dx <= 1 and x carries a few ulps of relative error -> differences << 1e-9.
    R, norm_min = ref_oks(gt, pr, stddev, scale, coco)
    if valid:
        err = np.abs(Mv - R[valid])
        if not (err <= 1e-9).all():
            i, j = np.unravel_index(np.nanargmax(np.where(np.isnan(err), np.inf, err)), err.shape)
            res.fail(
                "oks:reference" + (":gt-missing" if miss_gt.any() else "") + (":pr-missing" if miss_pr.any() else ""),
                f"oks[{valid[i]},{j}]={Mv[i, j]!r} reference={R[valid][i, j]!r} (coco={coco}, stddev={stddev}, scale={scale})",
            )

    # (d) predicted coordinates at GT-missing nodes are irrelevant (row-wise, exact: those terms are zeroed).
    rows_with_missing = [i for i in valid if miss_gt[i].any()]
    if rows_with_missing:
        i = rows_with_missing[case["row"] % len(rows_with_missing)]
        alt = arr(case["alt"], ned)
        pr2 = pr.copy()
        pr2[:, miss_gt[i]] = alt[:, miss_gt[i]]
        M2 = call(gt, pr2, stddev, scale)
        if M2 is not runner.FAILED and not same(M2[i], M[i], 1e-12):
            res.fail("oks:gt-missing-not-ignored", f"row {i}: {M[i].tolist()} -> {M2[i].tolist()} after changing predictions at GT-missing nodes")
        res.cls("oks:law=gt-missing-ignored")

    # (e) a missing predicted node == the node moved to +1e9 (both must be complete misses: exp(-1e18/norm) == 0
    # for every norm in the generated domain, norm <= 0.16 * 2 * (1e5+eps)^2).
    if miss_pr.any():
        pr3 = pr.copy()
        pr3[miss_pr] = 1e9
        M3 = call(gt, pr3, stddev, scale)
        if M3 is not runner.FAILED and valid and not same(M3[valid], Mv, 1e-9):
            res.fail("oks:pr-missing-not-a-miss", f"NaN prediction {Mv.tolist()} vs far prediction {M3[valid].tolist()}")
        res.cls("oks:law=nan-equals-far")

    # (f) moving one predicted node away from its target along a ray never increases the value.
    # fl(g + fl(t*u)) is monotone in t for a fixed direction, so are |.|, squares, sums, division by a positive
    # constant and exp; 1e-12 covers a non-monotone last bit of libm's exp.
    if valid:
        ray = case["ray"]
        i = valid[ray["i"] % len(valid)]
        visk = [k for k in range(n_nodes) if not miss_gt[i, k]]
        k = visk[ray["k"] % len(visk)]
        j = ray["j"] % n_pr
        u = np.array(ray["u"], dtype=np.float64)
        t1, t2 = ray["t"]
        vals = []
        for t in (t1, t2):
            prt = pr.copy()
            prt[j, k] = gt[i, k] + t * u
            Mt = call(gt, prt, stddev, scale)
            vals.append(None if Mt is runner.FAILED else float(Mt[i, j]))
        if None not in vals and not vals[1] <= vals[0] + 1e-12:
            res.fail("oks:not-monotone-in-distance", f"node {k} of pred {j} at distance {t1}|u| -> {vals[0]!r}, at {t2}|u| -> {vals[1]!r} (gt {i})")
        res.cls("oks:law=ray")

    # (g) translation of both poses.
    shift = np.array(case["shift"], dtype=np.float64)
    area_ok = all((ref_area(gt[i]) >= 1.0) for i in valid) if scale is None else True
    if valid and (case["exact"] or (area_ok and norm_min >= 1e-4)):
        M4 = call(gt + shift, pr + shift, stddev, scale)
        tol = 1e-12 if case["exact"] else 1e-9
        if M4 is not runner.FAILED and not same(M4[valid], Mv, tol):
            res.fail("oks:translation", f"shift {shift.tolist()}: {Mv.tolist()} -> {M4[valid].tolist()}")
        res.cls("oks:law=translation" + (":exact" if case["exact"] else ":float"))

    # (h) permuting GT / predicted instances permutes the matrix (same arithmetic per entry -> exact).
    P, Q = case["perm_gt"], case["perm_pr"]
    if P != sorted(P) or Q != sorted(Q):
        sc_p = scale if (scale is None or np.isscalar(scale)) else [scale[p] for p in P]
        M5 = call(gt[P], pr[Q], stddev, sc_p)
        if M5 is not runner.FAILED:
            want = M[P][:, Q]
            if not same(M5, want, 1e-12):
                res.fail("oks:permutation", f"perm_gt={P} perm_pr={Q}: expected {want.tolist()} got {M5.tolist()}")
        res.cls("oks:law=permutation")

    # compute_instance_area against the reference (max-min and one product per axis: same operations, rel 1e-12).
    A = runner.guarded(res, "area", compute_instance_area, gt.copy())
    call.n += 1
    if A is not runner.FAILED:
        A = np.asarray(A)
        if A.shape != (n_gt,):
            res.fail("area:shape", f"shape {A.shape} != {(n_gt,)}")
        else:
            for i in valid:
                ra = ref_area(gt[i])
                if not (abs(float(A[i]) - ra) <= 1e-12 * max(1.0, abs(ra)) and A[i] >= 0):
                    res.fail("area:reference", f"area[{i}]={float(A[i])!r} reference={ra!r}")
    A1 = runner.guarded(res, "area", compute_instance_area, gt[0].copy())
    if A1 is not runner.FAILED and np.asarray(A1).shape != (1,):
        res.fail("area:shape", f"2-D input gives shape {np.asarray(A1).shape} != (1,)")
    return done()


def oks_strategy():
    from hypothesis import strategies as st

    KINDS = [
        "generic", "generic", "generic", "multi-pred+missing-gt", "single-visible", "collinear",
        "all-nan-gt", "identical", "far", "duplicates",
    ]
    SIZES = [0.5, 4.0, 32.0, 256.0]
    T_SPECIAL = [0.0, 2.0**-7, 0.5, 1.0, 4.0, 32.0, 1e3, 1e6]

    @st.composite
    def case(draw):
        kind = draw(st.sampled_from(KINDS))
        exact = draw(st.sampled_from([True, True, False]))
        ned = draw(st.sampled_from([2] * 9 + [3]))
        n_nodes = draw(st.sampled_from([1, 2, 2, 3, 3, 4, 5, 6, 8]))
        n_gt = draw(st.integers(1, 4))
        n_pr = draw(st.integers(1, 4))
        if kind == "multi-pred+missing-gt":
            n_pr = max(2, n_pr)
            n_nodes = max(2, n_nodes)
        if kind == "duplicates":
            n_pr = max(2, n_pr)
        if kind == "single-visible":
            n_nodes = max(2, n_nodes)

        def offsets(k):
            if exact:
                return [v / 64.0 for v in draw(st.lists(st.integers(-64, 64), min_size=k, max_size=k))]
            return draw(st.lists(st.floats(-1.0, 1.0, allow_nan=False, width=64), min_size=k, max_size=k))

        def coord(lo, hi):
            if exact:
                return draw(st.integers(int(lo * 64), int(hi * 64))) / 64.0
            return draw(st.floats(lo, hi, allow_nan=False, width=64))

        full, gt, sizes = [], [], []
        for i in range(n_gt):
            size = draw(st.sampled_from(SIZES))
            centre = [coord(-50 + size, 600 - size) for _ in range(ned)]
            off = offsets(n_nodes * ned)
            pose = [[centre[d] + off[k * ned + d] * size for d in range(ned)] for k in range(n_nodes)]
            if kind == "collinear" and draw(st.booleans()):
                ax = draw(st.integers(0, ned - 1))
                for p in pose:
                    p[ax] = centre[ax]
            full.append(pose)
            sizes.append(size)
            # visibility pattern of this GT instance
            if kind == "single-visible":
                keep = draw(st.integers(0, n_nodes - 1))
                mask = [k == keep for k in range(n_nodes)]
            elif kind == "all-nan-gt" and i == 0:
                mask = [False] * n_nodes
            elif kind == "multi-pred+missing-gt" and i == 0:
                drop = draw(st.integers(0, n_nodes - 1))
                mask = [k != drop for k in range(n_nodes)]
            else:
                pat = draw(st.sampled_from(["all", "all", "random", "one-missing"]))
                if pat == "all" or n_nodes == 1:
                    mask = [True] * n_nodes
                elif pat == "one-missing":
                    drop = draw(st.integers(0, n_nodes - 1))
                    mask = [k != drop for k in range(n_nodes)]
                else:
                    mask = draw(st.lists(st.booleans(), min_size=n_nodes, max_size=n_nodes))
                    if not any(mask):
                        mask[draw(st.integers(0, n_nodes - 1))] = True
            gt.append([p if m else None for p, m in zip(pose, mask)])

        pr = []
        for j in range(n_pr):
            if kind == "identical":
                mode = "copy"
            elif kind == "far":
                mode = "far"
            elif kind == "duplicates":
                mode = draw(st.sampled_from(["near", "copy", "mid"]))
            else:
                mode = draw(st.sampled_from(["copy", "near", "near", "mid", "mid", "wide", "far", "random"]))
            src = 0 if kind == "duplicates" else draw(st.integers(0, n_gt - 1))
            size = sizes[src]
            ns = {"copy": 0.0, "near": 2.0**-1, "mid": size / 16, "wide": size / 2, "far": 4 * size + 64, "random": size}[mode]
            noise = offsets(n_nodes * ned)
            if mode == "far":
                noise = [(1.0 if v >= 0 else -1.0) * (1.0 + abs(v)) for v in noise]
            pose = [[full[src][k][d] + noise[k * ned + d] * ns for d in range(ned)] for k in range(n_nodes)]
            pat = draw(st.sampled_from(["all", "all", "as-gt", "random", "none"]))
            if pat == "all":
                mask = [True] * n_nodes
            elif pat == "as-gt":
                mask = [p is not None for p in gt[src]]
            elif pat == "none":
                mask = [False] * n_nodes
            else:
                mask = draw(st.lists(st.booleans(), min_size=n_nodes, max_size=n_nodes))
            pr.append([p if m else None for p, m in zip(pose, mask)])

        # options
        if draw(st.booleans()):
            stddev = draw(st.sampled_from([0.025, 0.025, 0.01, 0.072, 0.107, 0.2]))
        else:
            stddev = draw(st.lists(st.floats(0.01, 0.2, allow_nan=False), min_size=n_nodes, max_size=n_nodes))
        sk = draw(st.sampled_from(["none", "none", "none", "scalar", "per-gt"]))
        sval = st.one_of(st.sampled_from([0.0, 1.0, 100.0, 1e5]), st.floats(0.01, 1e5, allow_nan=False))
        scale = None if sk == "none" else draw(sval) if sk == "scalar" else draw(st.lists(sval, min_size=n_gt, max_size=n_gt))
        coco = draw(st.sampled_from([True, True, False]))
        dtype = draw(st.sampled_from(["f64"] * 9 + ["f32"]))

        # law parameters
        altoff = offsets(n_pr * n_nodes * ned)
        altmask = draw(st.lists(st.booleans(), min_size=n_pr * n_nodes, max_size=n_pr * n_nodes))
        alt = [
            [
                ([300.0 + 256.0 * altoff[(j * n_nodes + k) * ned + d] for d in range(ned)] if altmask[j * n_nodes + k] or k % 2 == 0 else None)
                for k in range(n_nodes)
            ]
            for j in range(n_pr)
        ]
        u = draw(st.lists(st.integers(-8, 8), min_size=ned, max_size=ned).filter(lambda v: any(v)))
        tv = st.one_of(st.sampled_from(T_SPECIAL), st.floats(0.0, 1000.0, allow_nan=False))
        t = sorted([draw(tv), draw(tv)])
        if exact:
            shift = [v / 64.0 for v in draw(st.lists(st.integers(-500 * 64, 500 * 64), min_size=ned, max_size=ned))]
        else:
            shift = draw(st.lists(st.floats(-500.0, 500.0, allow_nan=False), min_size=ned, max_size=ned))
        return {
            "kind": kind,
            "ned": ned,
            "dtype": dtype,
            "exact": exact,
            "gt": gt,
            "pr": pr,
            "stddev": stddev,
            "scale": scale,
            "coco": coco,
            "alt": alt,
            "row": draw(st.integers(0, 3)),
            "ray": {"i": draw(st.integers(0, 3)), "j": draw(st.integers(0, 3)), "k": draw(st.integers(0, 7)), "u": u, "t": t},
            "shift": shift,
            "perm_gt": list(draw(st.permutations(list(range(n_gt))))),
            "perm_pr": list(draw(st.permutations(list(range(n_pr))))),
        }

    return case()


# ------------------------------------------------------------------------------------
# part: match

_ASSET = {}


def asset_video():
    """Video object of the asset file (Evaluator / get_instances need video.backend)."""
    if "video" not in _ASSET:
        import os

        import sleap_io as sio

        path = os.path.join(env.REPO, ASSET)
        if not os.path.exists(path):  # mutant copies contain the package only
            path = os.path.join("/repo", ASSET)
        _ASSET["video"] = sio.load_slp(path).videos[0]
    return _ASSET["video"]


def evaluate_match(case):
    import sleap_io as sio

    from sleap_nn.evaluation import compute_oks, match_instances

    res = Result()
    n_nodes = case["n_nodes"]
    video = asset_video()
    skel = sio.Skeleton(nodes=[f"n{i}" for i in range(n_nodes)])
    gts = arr(case["gt"], 2) if case["gt"] else np.zeros((0, n_nodes, 2))
    prs = arr([p["pts"] for p in case["pr"]], 2) if case["pr"] else np.zeros((0, n_nodes, 2))
    scores = [float(p["score"]) for p in case["pr"]]
    thr, stddev, scale = case["threshold"], case["stddev"], case["scale"]
    stddev_src = stddev
    if not np.isscalar(stddev):
        stddev = np.array(stddev_src, dtype=np.float64)  # ONE per-node array for every call of the case, as callers hold it
    inst_gt = [sio.Instance.from_numpy(points_data=g, skeleton=skel) for g in gts]
    inst_pr = [
        sio.PredictedInstance.from_numpy(points_data=p, skeleton=skel, score=s, point_scores=np.ones(n_nodes))
        for p, s in zip(prs, scores)
    ]
    frame_gt = sio.LabeledFrame(video=video, frame_idx=0, instances=list(inst_gt))
    frame_pr = sio.LabeledFrame(video=video, frame_idx=0, instances=list(inst_pr))
    n_gt, n_pr = len(inst_gt), len(inst_pr)
    res.cls(
        f"match:kind={case['kind']}",
        f"match:n_gt={n_gt}",
        f"match:n_pr={n_pr}",
        "match:thr=0" if thr == 0 else "match:thr>0",
        "match:tied-scores" if len(set(scores)) < len(scores) else "match:distinct-scores",
        "match:stddev=scalar" if np.isscalar(stddev) else "match:stddev=per-node",
    )
    if n_gt and np.isnan(gts).all(axis=(1, 2)).any():
        res.cls("match:gt-all-nan")
    if n_gt == 0 and n_pr >= 1:
        # documented exclusion: np.stack of an empty list; not reachable through find_frame_pairs
        try:
            out = match_instances(frame_gt, frame_pr, stddev=stddev, scale=scale, threshold=thr)
        except ValueError:
            res.rejected = True
            res.cls("match:rejected-0gt")
            return res
    else:
        out = runner.guarded(res, "match", match_instances, frame_gt, frame_pr, stddev=stddev, scale=scale, threshold=thr)
        if out is runner.FAILED:
            return res
    pairs, fns = out
    unwrap = lambda m: getattr(m, "instance", m)  # noqa: E731  (MatchInstance wrapper or bare instance)
    pg = [unwrap(p[0]) for p in pairs]
    pp = [unwrap(p[1]) for p in pairs]
    fn = [unwrap(f) for f in fns]
    gid = {id(x): i for i, x in enumerate(inst_gt)}
    pid = {id(x): i for i, x in enumerate(inst_pr)}
    res.n_evals = 1 + len(pairs)

    foreign = [x for x in pg + fn if id(x) not in gid] + [x for x in pp if id(x) not in pid]
    if foreign:
        res.fail("match:foreign-instance", f"{len(foreign)} returned instances are not instances of the input frames")
        return res
    gi = [gid[id(x)] for x in pg]
    pi = [pid[id(x)] for x in pp]
    fi = [gid[id(x)] for x in fn]
    if len(set(gi)) != len(gi):
        res.fail("match:gt-used-twice", f"GT indices of the pairs {gi}")
    if len(set(pi)) != len(pi):
        res.fail("match:pred-used-twice", f"prediction indices of the pairs {pi}")
    if sorted(gi + fi) != list(range(n_gt)):
        res.fail("match:not-a-partition", f"pairs use GT {gi}, false negatives are GT {fi}, frame has {n_gt} GT instances")
    for (g, p, o), a, b in zip(pairs, gi, pi):
        o = float(o)
        if not o > thr:
            res.fail("match:pair-not-above-threshold", f"pair (gt {a}, pred {b}) has oks {o!r} <= threshold {thr!r}")
        # same function, same float64 inputs -> identical value
        direct = runner.guarded(res, "match-oks", compute_oks, gts[a : a + 1].copy(), prs[b : b + 1].copy(), stddev=stddev, scale=scale)
        if direct is not runner.FAILED and not abs(float(np.asarray(direct)[0, 0]) - o) <= 1e-12:
            res.fail("match:pair-oks-mismatch", f"pair (gt {a}, pred {b}) reports {o!r}, compute_oks gives {float(np.asarray(direct)[0, 0])!r}")
        ref, _ = ref_oks(gts[a : a + 1], prs[b : b + 1], stddev_src, scale, True)
        if not abs(float(ref[0, 0]) - o) <= 1e-9:
            res.fail("match:pair-oks-reference", f"pair (gt {a}, pred {b}) reports {o!r}, reference {float(ref[0, 0])!r}")
    if not np.isscalar(stddev) and not (stddev == np.array(stddev_src, dtype=np.float64)).all():
        res.fail("match:argument-modified", f"per-node stddev array was {list(stddev_src)} and is {stddev.tolist()} after match_instances")
    res.nontrivial = n_gt >= 2 and n_pr >= 2 and len(pairs) >= 1
    res.cls(f"match:pairs={min(len(pairs), 3)}{'+' if len(pairs) >= 3 else ''}", "match:has-fn" if fn else "match:no-fn")
    return res


def match_strategy():
    from hypothesis import strategies as st

    KINDS = ["generic", "generic", "generic", "duplicates", "far", "no-gt", "no-pred", "gt-all-nan", "crowded"]

    @st.composite
    def case(draw):
        kind = draw(st.sampled_from(KINDS))
        n_nodes = draw(st.sampled_from([1, 2, 2, 3, 3, 4, 5]))
        n_gt = draw(st.integers(0, 4)) if kind != "no-gt" else 0
        n_pr = draw(st.integers(0, 5)) if kind != "no-pred" else 0
        if kind in ("duplicates", "crowded", "gt-all-nan", "far", "generic"):
            n_gt = max(1, n_gt)
        if kind in ("duplicates", "crowded"):
            n_pr = max(2, n_pr)
        size = draw(st.sampled_from([4.0, 32.0, 128.0]))

        def offs(k):
            return [v / 64.0 for v in draw(st.lists(st.integers(-64, 64), min_size=k, max_size=k))]

        full, gt = [], []
        for i in range(n_gt):
            if kind == "crowded":
                centre = [200.0, 200.0]  # animals on top of each other: every prediction competes for every GT
            else:
                centre = [draw(st.integers(0, 8)) * 64.0, draw(st.integers(0, 8)) * 64.0]
            off = offs(2 * n_nodes)
            pose = [[centre[0] + off[2 * k] * size, centre[1] + off[2 * k + 1] * size] for k in range(n_nodes)]
            full.append(pose)
            if kind == "gt-all-nan" and i == 0:
                mask = [False] * n_nodes
            else:
                mask = draw(st.lists(st.booleans(), min_size=n_nodes, max_size=n_nodes)) if draw(st.integers(0, 2)) == 0 else [True] * n_nodes
                if not any(mask):
                    mask[0] = True
            gt.append([p if m else None for p, m in zip(pose, mask)])
        pr = []
        for j in range(n_pr):
            if n_gt == 0:
                src, ns = None, None
                off = offs(2 * n_nodes)
                pose = [[300.0 + off[2 * k] * size, 300.0 + off[2 * k + 1] * size] for k in range(n_nodes)]
            else:
                # mostly one prediction per GT (several pairs), sometimes a random source (competition)
                src = 0 if kind == "duplicates" else (j % n_gt if draw(st.integers(0, 2)) else draw(st.integers(0, n_gt - 1)))
                ns = draw(st.sampled_from([0.0, 0.5, size / 32, size / 32, size / 8, size / 2]))
                if kind == "far":
                    ns = 64 * size
                noise = offs(2 * n_nodes)
                if kind == "far":
                    noise = [(1.0 if v >= 0 else -1.0) * (1.0 + abs(v)) for v in noise]
                pose = [[full[src][k][0] + noise[2 * k] * ns, full[src][k][1] + noise[2 * k + 1] * ns] for k in range(n_nodes)]
            mask = draw(st.lists(st.booleans(), min_size=n_nodes, max_size=n_nodes)) if draw(st.integers(0, 3)) == 0 else [True] * n_nodes
            score = draw(st.one_of(st.sampled_from([0.0, 0.25, 0.5, 0.5, 0.75, 1.0]), st.floats(0.0, 1.0, allow_nan=False)))
            pr.append({"pts": [p if m else None for p, m in zip(pose, mask)], "score": score})
        thr = draw(st.one_of(st.sampled_from([0, 0, 0, 0.1, 0.5, 0.9]), st.floats(0.0, 0.9, allow_nan=False)))
        if draw(st.integers(0, 2)) == 0:
            stddev = draw(st.lists(st.sampled_from([0.025, 0.035, 0.072, 0.107, 0.2]), min_size=n_nodes, max_size=n_nodes))
        else:
            stddev = draw(st.sampled_from([0.025, 0.025, 0.072, 0.2]))
        scale = draw(st.sampled_from([None, None, None, 100.0, 1e4]))
        return {"kind": kind, "n_nodes": n_nodes, "gt": gt, "pr": pr, "threshold": thr, "stddev": stddev, "scale": scale}

    return case()


# ------------------------------------------------------------------------------------
# part: helpers


def evaluate_helpers(case):
    from sleap_nn.tracking import utils as U

    res = Result()
    what = case["what"]
    res.cls(f"helpers:{what}", f"helpers:{what}:{case['kind']}")
    if what == "assign":
        cost = [[float(v) for v in row] for row in case["cost"]]
        n, m = case["shape"]
        C = np.array(cost, dtype=np.float64).reshape(n, m)
        k = min(n, m)
        res.cls(f"helpers:assign:shape={'empty' if k == 0 else 'square' if n == m else 'wide' if n < m else 'tall'}")
        best = brute_assignment(cost) if k else 0.0
        tol = 1e-9 * max(1.0, float(np.abs(C[np.isfinite(C)]).sum()))  # sums of <= 5 (finite) entries in a different order
        res.n_evals = 2
        for name, fn in (("hungarian", U.hungarian_matching), ("greedy", U.greedy_matching)):
            if name == "hungarian" and not math.isfinite(best):
                # no assignment of finite cost exists: scipy's documented ValueError ("cost matrix is infeasible")
                res.cls("helpers:assign:infeasible(hungarian-not-judged)")
                continue
            out = runner.guarded(res, name, fn, C.copy())
            if out is runner.FAILED:
                continue
            rows, cols = [int(r) for r in out[0]], [int(c) for c in out[1]]
            if len(rows) != len(cols) or any(not 0 <= r < n for r in rows) or any(not 0 <= c < m for c in cols):
                res.fail(f"{name}:invalid-index", f"rows={rows} cols={cols} for shape {(n, m)}")
                continue
            if len(set(rows)) != len(rows) or len(set(cols)) != len(cols):
                res.fail(f"{name}:not-one-to-one", f"rows={rows} cols={cols}")
                continue
            if len(rows) != k:
                res.fail(f"{name}:not-maximal", f"{len(rows)} pairs for shape {(n, m)}")
                continue
            total = math.fsum(cost[r][c] for r, c in zip(rows, cols))
            if name == "hungarian":
                if abs(total - best) > tol:
                    res.fail("hungarian:not-optimal", f"total {total!r} vs brute-force optimum {best!r}; cost={cost}")
                if k >= 2:
                    ident = math.fsum(cost[i][i] for i in range(k))
                    res.nontrivial = ident > best + tol
            else:
                # every pick is a minimum of the rows/columns still free (compared by value: tie-robust, exact)
                free_r, free_c = set(range(n)), set(range(m))
                for r, c in zip(rows, cols):
                    mn = min(cost[a][b] for a in free_r for b in free_c)
                    if cost[r][c] != mn:
                        res.fail("greedy:pick-not-minimum", f"picked ({r},{c}) cost {cost[r][c]!r} while {mn!r} was available; cost={cost}")
                        break
                    free_r.discard(r)
                    free_c.discard(c)
    elif what == "iou":
        a, b = [float(v) for v in case["a"]], [float(v) for v in case["b"]]
        res.n_evals = 4
        ab = runner.guarded(res, "iou", U.compute_iou, list(a), list(b))
        ba = runner.guarded(res, "iou", U.compute_iou, list(b), list(a))
        aa = runner.guarded(res, "iou", U.compute_iou, list(a), list(a))
        if runner.FAILED in (ab, ba, aa):
            return res
        ab, ba, aa = float(ab), float(ba), float(aa)
        # intersection <= min(area), union >= max(area) for valid boxes; 1e-12 for the final division
        if not (0.0 <= ab <= 1.0 + 1e-12):
            res.fail("iou:range", f"iou({a},{b}) = {ab!r}")
        if abs(ab - ba) > 1e-12:
            res.fail("iou:asymmetric", f"iou(a,b)={ab!r} iou(b,a)={ba!r} a={a} b={b}")
        if abs(aa - 1.0) > 1e-12:
            res.fail("iou:self-not-1", f"iou(a,a)={aa!r} a={a}")
        gap = max(a[0] - b[2], b[0] - a[2], a[1] - b[3], b[1] - a[3])
        if gap >= 1.0 and ab != 0.0:
            res.fail("iou:separated-not-0", f"boxes {a} {b} are {gap} apart, iou={ab!r}")
        res.nontrivial = 1e-9 < ab < 1 - 1e-9
        if case["kind"].startswith("int"):
            pa = {(x, y) for x in range(int(a[0]), int(a[2]) + 1) for y in range(int(a[1]), int(a[3]) + 1)}
            pb = {(x, y) for x in range(int(b[0]), int(b[2]) + 1) for y in range(int(b[1]), int(b[3]) + 1)}
            want = len(pa & pb) / len(pa | pb)
            if abs(ab - want) > 1e-12:
                res.fail("iou:pixel-count", f"iou({a},{b})={ab!r}, counting pixels gives {want!r}")
            sx, sy = case["shift"]
            sh = runner.guarded(res, "iou", U.compute_iou, [a[0] + sx, a[1] + sy, a[2] + sx, a[3] + sy], [b[0] + sx, b[1] + sy, b[2] + sx, b[3] + sy])
            if sh is not runner.FAILED and abs(float(sh) - ab) > 1e-12:
                res.fail("iou:translation", f"shift {(sx, sy)}: {ab!r} -> {float(sh)!r}")
    else:  # vec
        a = np.array(case["a"], dtype=np.float64)
        b = np.array(case["b"], dtype=np.float64)
        fa, fb = [float(v) for v in a.ravel()], [float(v) for v in b.ravel()]
        res.n_evals = 5
        na, nb = math.sqrt(math.fsum(v * v for v in fa)), math.sqrt(math.fsum(v * v for v in fb))
        # euclidean: works on any shape (Frobenius norm of the difference)
        e_ab = runner.guarded(res, "euclid", U.compute_euclidean_distance, a.copy(), b.copy())
        e_ba = runner.guarded(res, "euclid", U.compute_euclidean_distance, b.copy(), a.copy())
        e_aa = runner.guarded(res, "euclid", U.compute_euclidean_distance, a.copy(), a.copy())
        if runner.FAILED not in (e_ab, e_ba, e_aa):
            want = -math.sqrt(math.fsum((x - y) ** 2 for x, y in zip(fa, fb)))
            # <= 16 terms, relative 1e-12 is ~ 1e4 ulps
            if abs(float(e_ab) - want) > 1e-12 * max(1.0, abs(want)):
                res.fail("euclid:reference", f"{float(e_ab)!r} vs {want!r}")
            if float(e_ab) > 0 or float(e_ab) != float(e_ba) or float(e_aa) != 0:
                res.fail("euclid:laws", f"d(a,b)={float(e_ab)!r} d(b,a)={float(e_ba)!r} d(a,a)={float(e_aa)!r}")
        if a.ndim == 1:
            if min(na, nb) < 1e-6:
                res.cls("helpers:vec:near-zero-norm")
                runner.guarded(res, "cosine", U.compute_cosine_sim, a.copy(), b.copy())
            else:
                c_ab = runner.guarded(res, "cosine", U.compute_cosine_sim, a.copy(), b.copy())
                c_ba = runner.guarded(res, "cosine", U.compute_cosine_sim, b.copy(), a.copy())
                c_aa = runner.guarded(res, "cosine", U.compute_cosine_sim, a.copy(), a.copy())
                c_sc = runner.guarded(res, "cosine", U.compute_cosine_sim, a * case["k"], b.copy())
                if runner.FAILED not in (c_ab, c_ba, c_aa, c_sc):
                    want = math.fsum(x * y for x, y in zip(fa, fb)) / (na * nb)
                    # dot and norms of <= 8 terms: absolute 1e-9 on a quantity of magnitude <= 1
                    if abs(float(c_ab) - want) > 1e-9:
                        res.fail("cosine:reference", f"{float(c_ab)!r} vs {want!r}")
                    if not -1 - 1e-9 <= float(c_ab) <= 1 + 1e-9:
                        res.fail("cosine:range", f"{float(c_ab)!r}")
                    if abs(float(c_ab) - float(c_ba)) > 1e-12 or abs(float(c_aa) - 1) > 1e-9 or abs(float(c_sc) - float(c_ab)) > 1e-9:
                        res.fail("cosine:laws", f"cos(a,b)={float(c_ab)!r} cos(b,a)={float(c_ba)!r} cos(a,a)={float(c_aa)!r} cos(ka,b)={float(c_sc)!r}")
                    res.nontrivial = abs(want) < 1 - 1e-6
    return res


def helpers_strategy():
    from hypothesis import strategies as st

    @st.composite
    def assign(draw):
        kind = draw(st.sampled_from(["ties", "float", "negsim", "distance", "anti-diagonal", "with-inf", "with-inf"]))
        n = draw(st.sampled_from([0, 1, 2, 2, 3, 3, 4, 4, 5, 5]))
        m = draw(st.sampled_from([0, 1, 2, 2, 3, 3, 4, 4, 5, 5]))
        if kind == "ties":
            el = st.integers(0, 3).map(float)
        elif kind == "float":
            el = st.floats(-100.0, 100.0, allow_nan=False)
        elif kind == "negsim":
            el = st.floats(-1.0, 0.0, allow_nan=False)
        else:
            el = st.floats(0.0, 500.0, allow_nan=False)
        flat = draw(st.lists(el, min_size=n * m, max_size=n * m))
        cost = [flat[i * m : (i + 1) * m] for i in range(n)]
        if kind == "with-inf" and n * m:
            # +inf marks an unusable pair: what Tracker.scores_to_cost_matrix produces for a NaN score
            pat = draw(st.sampled_from(["cells", "column", "row", "all-but-one-row"]))
            if pat == "cells":
                for i in range(n):
                    for j in range(m):
                        if draw(st.integers(0, 2)) == 0:
                            cost[i][j] = INF
            elif pat == "column":
                j = draw(st.integers(0, m - 1))
                for i in range(n):
                    cost[i][j] = INF
            elif pat == "row":
                i = draw(st.integers(0, n - 1))
                cost[i] = [INF] * m
            else:
                keep = draw(st.integers(0, n - 1))
                for i in range(n):
                    if i != keep:
                        cost[i] = [INF] * m
        if kind == "anti-diagonal":  # greedy's first pick ruins the optimum
            for i in range(min(n, m)):
                cost[i][min(n, m) - 1 - i] = float(draw(st.integers(0, 2)))
        return {"what": "assign", "kind": kind, "shape": [n, m], "cost": cost}

    @st.composite
    def iou(draw):
        kind = draw(st.sampled_from(["int-overlap", "int-overlap", "int-any", "int-any", "float", "float", "float-nested", "identical", "separated", "touching"]))
        if kind.startswith("int"):
            c = lambda: draw(st.integers(-10, 20))  # noqa: E731
            ax, ay = c(), c()
            a = [ax, ay, ax + draw(st.integers(0, 12)), ay + draw(st.integers(0, 12))]
            if kind == "int-overlap":
                bx, by = draw(st.integers(a[0] - 3, a[2] + 1)), draw(st.integers(a[1] - 3, a[3] + 1))
            else:
                bx, by = c(), c()
            b = [bx, by, bx + draw(st.integers(0, 12)), by + draw(st.integers(0, 12))]
        else:
            f = lambda lo, hi: draw(st.floats(lo, hi, allow_nan=False))  # noqa: E731
            ax, ay = f(-50, 500), f(-50, 500)
            a = [ax, ay, ax + f(0, 200), ay + f(0, 200)]
            if kind == "identical":
                b = list(a)
            elif kind == "float-nested":
                w, h = a[2] - a[0], a[3] - a[1]
                b = [a[0] + w * f(0, 0.5), a[1] + h * f(0, 0.5), a[2] - w * f(0, 0.5), a[3] - h * f(0, 0.5)]
            elif kind == "separated":
                gx = f(1, 100)
                b = [a[2] + gx, ay + f(-300, 300), 0, 0]
                b[2], b[3] = b[0] + f(0, 200), b[1] + f(0, 200)
            elif kind == "touching":
                b = [a[2], a[1], a[2] + f(0, 100), a[3]]
            else:
                bx, by = f(a[0] - 100, a[2] + 50), f(a[1] - 100, a[3] + 50)
                b = [bx, by, bx + f(0, 200), by + f(0, 200)]
        if draw(st.booleans()):
            a, b = b, a
        return {"what": "iou", "kind": kind, "a": a, "b": b, "shift": [draw(st.integers(-100, 100)), draw(st.integers(-100, 100))]}

    @st.composite
    def vec(draw):
        kind = draw(st.sampled_from(["features", "features", "parallel", "orthogonal", "points2d", "zero"]))
        d = draw(st.integers(1, 8))
        el = st.one_of(st.floats(-100.0, 100.0, allow_nan=False), st.integers(-3, 3).map(float))
        a = draw(st.lists(el, min_size=d, max_size=d))
        b = draw(st.lists(el, min_size=d, max_size=d))
        if kind == "parallel":
            kk = draw(st.sampled_from([-2.0, 0.5, 1.0, 3.0]))
            b = [kk * v for v in a]
        elif kind == "orthogonal" and d >= 2:
            a = [a[0], 0.0] + [0.0] * (d - 2)
            b = [0.0, b[1]] + [0.0] * (d - 2)
        elif kind == "zero":
            b = [0.0] * d
        elif kind == "points2d":
            a = [[a[i], b[i]] for i in range(d)]
            b = [[v[0] + draw(st.integers(-2, 2)), v[1] + 0.5] for v in a]
        return {"what": "vec", "kind": kind, "a": a, "b": b, "k": draw(st.sampled_from([0.25, 2.0, 8.0, 1024.0]))}

    return st.one_of(assign(), assign(), iou(), vec())


# ------------------------------------------------------------------------------------


def parts(tier):
    return [
        Part(
            name="oks",
            evaluate=evaluate_oks,
            strategy=oks_strategy,
            budget={"quick": 1200, "thorough": 300000},
            shards={"quick": 1, "thorough": 16},
            min_nontrivial={"quick": 150, "thorough": 8000},
        ),
        Part(
            name="match",
            evaluate=evaluate_match,
            strategy=match_strategy,
            budget={"quick": 700, "thorough": 150000},
            shards={"quick": 1, "thorough": 16},
            min_nontrivial={"quick": 70, "thorough": 3000},
        ),
        Part(
            name="helpers",
            evaluate=evaluate_helpers,
            strategy=helpers_strategy,
            budget={"quick": 900, "thorough": 200000},
            shards={"quick": 1, "thorough": 16},
            min_nontrivial={"quick": 120, "thorough": 6000},
        ),
    ]


if __name__ == "__main__":
    runner.main(__name__)
