"""C08 - peak grouping always terminates with a partition of the detected peaks.

Three layers, each with an oracle that shares no code with `paf_grouping.py`:

* part ``match``  - `get_connection_candidates` vs the src x dst cross product per edge and
  `match_candidates_sample` on arbitrary score matrices (ties, negatives, NaN, -inf, missing
  candidates) vs a brute force over all injective maps of the smaller side.
* part ``group``  - `group_instances_sample` on arbitrary one-to-one match lists vs union-find
  components of the accepted (score >= min_line_scores) matches, float64 score sums and the
  min_instance_peaks rule.
* part ``predict`` - `PAFScorer.predict` on generated nested peak tensors x generated PAF
  tensors: totality, agreement with the stepwise API run frame by frame, and the validity
  predicate of the statement evaluated on the accepted matches the stepwise API reports
  (which are themselves judged by the brute-force optimum of layer one).

Bucket layout: ``totality:<input class>:<part>:<exception>:<frame>`` for exceptions raised by
the code under test (input class ``no-finite-full-assignment`` = some edge type whose finite
scores admit no assignment covering its smaller side; ``valid-input`` otherwise), and
``<part>:<clause>[:<input class>]`` for oracle failures.
"""

import itertools
import math
from collections import Counter
from fractions import Fraction

from vlib import env, runner
from vlib.runner import Part, Result

PROPERTY = "C08"
LEVEL = "exploration"
RULE = (
    "match: tree skeleton (2..4 nodes) x 0..5 peaks per node x score matrix per edge drawn by class "
    "(quarter-valued with ties / arbitrary float32 / constant; entries made NaN, -inf, +inf or removed "
    "by class; whole rows or columns unusable), candidates in shuffled order; group: tree skeleton "
    "(2..7 nodes) x 0..4 peaks per node x arbitrary one-to-one match list per edge with scores drawn "
    "around min_line_scores (equal / below / above / NaN / -inf) x min_instance_peaks int or float x "
    "edge order of PAFScorer or any other parent-before-child order; predict: batch of 1..3 frames "
    "(frames without peaks, empty node types, lattice / float / animal-shaped peak layouts, peaks outside "
    "the PAF extent, a source peak copied onto a destination peak of an edge) x PAF tensor "
    "(zeros / constant per edge / seeded normal / ideal along same-rank peaks) x scorer parameters. "
    "non-trivial = some edge type has >= 2 candidates on both sides, or a non-finite score, or an empty "
    "node type while another is populated (group part: >= 2 accepted matches, or a match rejected by the "
    "minimum, or an instance dropped by min_instance_peaks); distinct by hash of the serialised case"
)
ASSUMPTIONS = [
    "skeletons are trees directed away from the root (what sleap-io skeletons give PAFScorer); "
    "sorted_edge_inds is PAFScorer's own order or another parent-before-child order",
    "peak coordinates, peak values and PAF values are finite float32 numbers (NaN/inf peaks or fields "
    "are outside the domain; NaN line scores arise only from coincident peaks)",
    "min_line_scores is drawn float32-representable and finite, so `score >= min` means the same under "
    "float32 and float64 comparison; accepted = score >= min_line_scores (a score equal to the minimum is "
    "not 'below the minimum'); a NaN or -inf score never meets the minimum",
    "the optimum of an edge type is taken over one-to-one assignments of the full size min(n_src, n_dst) "
    "(linear_sum_assignment semantics): first as few unusable (NaN / -inf / missing) candidates as possible, "
    "then the largest total of the usable ones; with all-finite scores this is the plain maximum; any "
    "assignment reaching the optimum within 1e-9*(1+sum|scores|) is accepted (ties)",
    "matches reported with a non-finite score are tolerated at the matching layer (the grouping layer "
    "must not use them); +inf line scores: an exception is counted as rejected input, otherwise only "
    "the structural clauses are judged",
    "float min_instance_peaks in [0,1]: the docstring says 'fraction of the total number of nodes' without "
    "a rounding rule, so an instance with floor(f*n) <= peaks < ceil(f*n) may be kept or dropped; "
    "int min_instance_peaks: peaks < minimum dropped, all others kept; values <= 0 keep everything",
    "peaks not touched by any accepted match belong to no instance (components of the accepted-match "
    "graph); instance order is not part of the property (compared as multisets)",
    "instance score tolerance 1e-5*(1+sum|accepted scores|): float32 accumulation of <= 6 terms",
    "line-score *values* are not judged here (C05/C03); only that predict reports the same candidates and "
    "scores as the stepwise API run on each frame alone",
]

NAN = float("nan")
INF = float("inf")


# ----------------------------------------------------------------------------------
# independent oracles


def usable(x):
    return isinstance(x, (int, float)) and math.isfinite(x)


def build_mats(cands, n_edges):
    """cands: [k, src_id, dst_id, score].  Per edge: sorted unique ids and the score matrix
    (None = candidate missing)."""
    mats = []
    for k in range(n_edges):
        ck = [c for c in cands if c[0] == k]
        src_ids = sorted({c[1] for c in ck})
        dst_ids = sorted({c[2] for c in ck})
        M = [[None] * len(dst_ids) for _ in src_ids]
        dup = False
        for _, s, d, v in ck:
            i, j = src_ids.index(s), dst_ids.index(d)
            if M[i][j] is not None:
                dup = True
            M[i][j] = v
        mats.append({"src": src_ids, "dst": dst_ids, "M": M, "dup": dup})
    return mats


def brute_optimum(M):
    """All injective maps of the smaller side into the larger one.

    Returns (u, t, n_opt, sumabs): the least number u of unusable entries a full-size
    assignment must contain, the largest total t of usable entries among assignments with
    exactly u unusable ones, and how many assignments reach (u, t).
    """
    ns = len(M)
    nd = len(M[0]) if ns else 0
    if ns == 0 or nd == 0:
        return 0, 0.0, 1, 0.0
    if ns > nd:
        M = [[M[i][j] for i in range(ns)] for j in range(nd)]
        ns, nd = nd, ns
    sumabs = sum(abs(v) for row in M for v in row if usable(v))
    tol = 1e-9 * (1.0 + sumabs)
    best_u, best_t, n_opt = None, None, 0
    for perm in itertools.permutations(range(nd), ns):
        u, t = 0, 0.0
        for i, j in enumerate(perm):
            v = M[i][j]
            if usable(v):
                t += v
            else:
                u += 1
        if best_u is None or u < best_u or (u == best_u and t > best_t + tol):
            best_u, best_t, n_opt = u, t, 1
        elif u == best_u and abs(t - best_t) <= tol:
            n_opt += 1
            best_t = max(best_t, t)
    return best_u, best_t, n_opt, sumabs


def mats_summary(mats):
    """(infeasible, tie, has_nonfinite, has_posinf, big) over all edge types."""
    infeasible = tie = nonfinite = posinf = big = False
    opt = []
    for m in mats:
        u, t, n_opt, sumabs = brute_optimum(m["M"])
        opt.append((u, t, n_opt, sumabs))
        infeasible |= u > 0
        tie |= n_opt > 1 and min(len(m["src"]), len(m["dst"])) >= 1 and len(m["src"]) * len(m["dst"]) > 1
        for row in m["M"]:
            for v in row:
                if not usable(v):
                    nonfinite = True
                if v == INF:
                    posinf = True
        big |= len(m["src"]) >= 2 and len(m["dst"]) >= 2
    return infeasible, tie, nonfinite, posinf, big, opt


def call(res, part, input_cls, fn, *a, **k):
    """Call code under test; its exceptions become `totality:<input class>:<part>:...`."""
    try:
        return fn(*a, **k)
    except Exception as e:  # noqa: BLE001
        b = runner.exc_bucket(part, e)
        if b is None:
            raise
        rest = b.split(":raise:", 1)[1]
        res.fail(f"totality:{input_cls}:{part}:{rest}", f"{type(e).__name__}: {str(e)[:200]}")
        return runner.FAILED


def judge_matches(res, part, mats, opt, out, judge_optimum=True):
    """Layer-one oracle.  Returns the usable matches [(k, i, j, score)] or None when the
    output is structurally broken."""
    me, ms, md, sc = out
    if not (len(me) == len(ms) == len(md) == len(sc)):
        res.fail(f"{part}:match-shape", f"lengths {len(me)},{len(ms)},{len(md)},{len(sc)}")
        return None
    ok = True
    per_edge = {k: [] for k in range(len(mats))}
    for k, i, j, s in zip(me, ms, md, sc):
        if k not in per_edge:
            res.fail(f"{part}:match-index-range", f"edge index {k} with {len(mats)} edge types")
            return None
        per_edge[k].append((int(i), int(j), s))
    finite_matches = []
    for k, lst in per_edge.items():
        m = mats[k]
        M = m["M"]
        ns, nd = len(m["src"]), len(m["dst"])
        u_star, t_star, n_opt, sumabs = opt[k]
        cls = "all-finite"
        if any(not usable(v) for row in M for v in row):
            cls = "infeasible" if u_star > 0 else "nonfinite-feasible"
        if any(not (0 <= i < ns and 0 <= j < nd) for i, j, _ in lst):
            res.fail(f"{part}:match-index-range", f"edge {k}: matches {lst} for a {ns}x{nd} candidate grid")
            ok = False
            continue
        if len({i for i, _, _ in lst}) != len(lst) or len({j for _, j, _ in lst}) != len(lst):
            res.fail(f"{part}:match-not-one-to-one", f"edge {k}: matches {lst}")
            ok = False
            continue
        fin = []
        bad = False
        for i, j, s in lst:
            v = M[i][j]
            if usable(s):
                # sign flips and float32<->float64 round trips of float32 values are exact
                if not usable(v) or v != s:
                    res.fail(
                        f"{part}:match-score-mismatch",
                        f"edge {k}: match ({i},{j}) reported with score {s}, candidate score is {v}",
                    )
                    bad = True
                else:
                    fin.append((k, i, j, s))
            elif usable(v):
                res.fail(
                    f"{part}:match-score-mismatch",
                    f"edge {k}: match ({i},{j}) reported with score {s}, candidate score is {v}",
                )
                bad = True
        if bad:
            ok = False
            continue
        finite_matches.extend(fin)
        if not judge_optimum:
            continue
        want = min(ns, nd) - u_star
        tot = sum(s for _, _, _, s in fin)
        if len(fin) != want:
            res.fail(
                f"{part}:match-cardinality:{cls}",
                f"edge {k}: {len(fin)} usable matches {fin}, a one-to-one assignment with {want} exists; scores {M}",
            )
        elif tot < t_star - 1e-9 * (1.0 + sumabs):
            res.fail(
                f"{part}:match-suboptimal:{cls}",
                f"edge {k}: total {tot} < brute-force optimum {t_star} over one-to-one assignments; "
                f"matches {fin}; scores {M}",
            )
    return finite_matches if ok else None


def accepted_of(finite_matches, min_line):
    return [(k, i, j, s) for (k, i, j, s) in finite_matches if s >= min_line]


def min_peaks_bounds(mip_kind, mip, n_nodes):
    """(lo, hi): instances with < lo peaks must be dropped, with >= hi peaks must be kept."""
    if mip_kind == "int":
        m = int(mip)
        return (m, m) if m > 0 else (0, 0)
    f = float(mip)
    if not f > 0:
        return 0, 0
    # exact rational product: the docstring fixes no rounding rule, and a floating point
    # product lies between floor and ceil of the exact one, so [floor, ceil] covers both
    t = Fraction(f) * n_nodes
    return math.floor(t), math.ceil(t)


def judge_instances(res, part, node_peaks, edges, accepted, n_nodes, mip_kind, mip, out):
    """Validity predicate of the statement.

    node_peaks[n]: list of (x, y, val) of node type n in ascending peak index;
    accepted: [(k, i, j, score)] with i/j indexing node_peaks[src]/node_peaks[dst].
    Returns a dict of facts for class labels.
    """
    import numpy as np

    inst, pvals, iscores = (np.asarray(o) for o in out)
    ni = inst.shape[0]
    facts = {"n_out": int(ni), "dropped": 0, "ambiguous": 0}
    if inst.shape != (ni, n_nodes, 2) or pvals.shape != (ni, n_nodes) or iscores.shape != (ni,):
        res.fail(f"{part}:output-shape", f"shapes {inst.shape} {pvals.shape} {iscores.shape} for {n_nodes} nodes")
        return facts
    avail = [Counter(p) for p in node_peaks]
    rows = []
    used = [Counter() for _ in range(n_nodes)]
    for r in range(ni):
        row = []
        for n in range(n_nodes):
            x, y, v = float(inst[r, n, 0]), float(inst[r, n, 1]), float(pvals[r, n])
            nn = [math.isnan(x), math.isnan(y), math.isnan(v)]
            if all(nn):
                row.append(None)
                continue
            key = (x, y, v)
            if any(nn) or key not in avail[n]:
                res.fail(
                    f"{part}:foreign-keypoint",
                    f"instance {r} node {n}: keypoint {key} is not an input peak of that node type {node_peaks[n]}",
                )
                row.append(("?",) + key)
                continue
            used[n][key] += 1
            row.append(key)
        rows.append(tuple(row))
    if any(k is not None and k[0] == "?" for row in rows for k in row):
        return facts  # root cause reported; the component comparison would only echo it
    for n in range(n_nodes):
        for key, c in used[n].items():
            if c > avail[n][key]:
                res.fail(f"{part}:peak-in-two-instances", f"node {n} peak {key} appears in {c} instances")
    # expected components (union-find over (node, peak index))
    parent = {}

    def find(a):
        while parent[a] != a:
            parent[a] = parent[parent[a]]
            a = parent[a]
        return a

    for k, i, j, s in accepted:
        a, b = (edges[k][0], i), (edges[k][1], j)
        parent.setdefault(a, a)
        parent.setdefault(b, b)
        ra, rb = find(a), find(b)
        if ra != rb:
            parent[ra] = rb
    comps = {}
    for a in sorted(parent):
        comps.setdefault(find(a), {"members": [], "score": 0.0, "abs": 0.0})["members"].append(a)
    for k, i, j, s in accepted:
        c = comps[find((edges[k][0], i))]
        c["score"] += s
        c["abs"] += abs(s)
    lo, hi = min_peaks_bounds(mip_kind, mip, n_nodes)
    exp = {}
    for c in comps.values():
        row = [None] * n_nodes
        for n, i in c["members"]:
            if row[n] is not None:
                raise runner.HarnessError(f"oracle: component with two peaks of node {n}: matches are not one-to-one on a tree")
            row[n] = node_peaks[n][i]
        size = len(c["members"])
        status = "drop" if size < lo else ("keep" if size >= hi else "either")
        exp.setdefault(tuple(row), []).append((c["score"], c["abs"], status, size))
        facts["dropped"] += status == "drop"
        facts["ambiguous"] += status == "either"
    got = {}
    for r, row in enumerate(rows):
        got.setdefault(row, []).append(float(iscores[r]))
    for row, scs in got.items():
        if row not in exp:
            res.fail(
                f"{part}:not-a-component",
                f"instance {row} is not a connected component of the accepted matches {accepted}",
            )
    filt = "min-peaks-active" if hi > 0 else "no-min-peaks"
    for row, lst in exp.items():
        scs = got.get(row, [])
        n_keep = sum(1 for e in lst if e[2] == "keep")
        n_either = sum(1 for e in lst if e[2] == "either")
        n_drop = sum(1 for e in lst if e[2] == "drop")
        if len(scs) < n_keep:
            res.fail(
                f"{part}:instance-missing:{filt}",
                f"component {row} ({lst[0][3]} peaks, minimum {mip}) of the accepted matches {accepted} is absent",
            )
        elif len(scs) > n_keep + n_either:
            if n_drop:
                res.fail(
                    f"{part}:small-instance-kept",
                    f"component {row} has {lst[0][3]} peaks < minimum {mip} ({mip_kind}, {n_nodes} nodes) but is present",
                )
            else:
                res.fail(f"{part}:instance-duplicated", f"component {row} present {len(scs)}x")
        for s in scs:
            # float32 accumulation of at most n_edges terms
            if not any(abs(s - e[0]) <= 1e-5 * (1.0 + e[1]) for e in lst):
                res.fail(
                    f"{part}:instance-score",
                    f"instance {row}: score {s}, sum of its accepted edge scores {[e[0] for e in lst]}; accepted {accepted}",
                )
    return facts


def parent_first(edges, order):
    dsts = {d for _, d in edges}
    reached = {s for s, _ in edges} - dsts
    for ei in order:
        s, d = edges[ei]
        if s not in reached:
            return False
        reached.add(d)
    return sorted(order) == list(range(len(edges)))


# ----------------------------------------------------------------------------------
# part match


def t_int(vals, torch, dtype):
    return torch.tensor([int(v) for v in vals], dtype=dtype)


def _eval_match(case):
    import torch
    from sleap_nn.inference.paf_grouping import get_connection_candidates, match_candidates_sample

    res = Result()
    n_nodes, edges, chan = case["n_nodes"], [tuple(e) for e in case["edges"]], case["chan"]
    cands = [tuple(c) for c in case["cands"]]
    n_edges = len(edges)
    res.n_evals = 0
    # -- candidates: every src x dst pair of every edge type, exactly once
    by_node = [[g for g, c in enumerate(chan) if c == n] for n in range(n_nodes)]
    want = sorted((k, s, d) for k, (a, b) in enumerate(edges) for s in by_node[a] for d in by_node[b])
    sk = edges if case.get("edges_as") != "tensor" else torch.tensor(edges, dtype=torch.int32)
    out = call(res, "candidates", "valid-input", get_connection_candidates, t_int(chan, torch, torch.int32), sk, n_nodes)
    if out is not runner.FAILED:
        res.n_evals += 1
        ei, epi = out
        got = sorted((int(k), int(p[0]), int(p[1])) for k, p in zip(ei.tolist(), epi.tolist()))
        if got != want:
            res.fail("candidates:not-cross-product", f"channels {chan} edges {edges}: got {got}, expected {want}")
    # -- matching
    mats = build_mats(cands, n_edges)
    infeasible, tie, nonfinite, posinf, big, opt = mats_summary(mats)
    empty_node = any(len(b) == 0 for b in by_node) and any(len(b) > 0 for b in by_node)
    res.nontrivial = bool(big or nonfinite or empty_node)
    shapes = {(len(m["src"]), len(m["dst"])) for m in mats}
    res.cls(
        "vals=" + case.get("vals", "?"),
        "special=" + case.get("special", "?"),
        "infeasible" if infeasible else "feasible",
        "tie" if tie else "unique-optimum",
    )
    if any(a >= 2 and b >= 2 and a != b for a, b in shapes):
        res.cls("shape:rect>=2")
    if any(a >= 2 and a == b for a, b in shapes):
        res.cls("shape:square>=2")
    if any(min(a, b) == 1 and max(a, b) >= 2 for a, b in shapes):
        res.cls("shape:1xk")
    if (1, 1) in shapes:
        res.cls("shape:1x1")
    if (0, 0) in shapes:
        res.cls("shape:no-candidates")
    if empty_node:
        res.cls("empty-node-type")
    if any(v is None for m in mats for row in m["M"] for v in row):
        res.cls("missing-candidates")
    if any(usable(v) and v < 0 for m in mats for row in m["M"] for v in row):
        res.cls("negative-scores")
    idt = torch.int64 if case.get("idx64") else torch.int32
    a_ei = t_int([c[0] for c in cands], torch, torch.int32)
    a_epi = torch.tensor([[int(c[1]), int(c[2])] for c in cands], dtype=idt).reshape(-1, 2)
    a_ls = torch.tensor([float(c[3]) for c in cands], dtype=torch.float32)
    cls = "no-finite-full-assignment" if infeasible else "valid-input"
    if posinf:
        try:
            m = match_candidates_sample(a_ei, a_epi, a_ls, n_edges)
        except Exception as e:  # noqa: BLE001  (+inf line scores are outside the documented range)
            if runner.exc_bucket("match", e) is None:
                raise
            res.rejected = True
            res.n_evals = max(res.n_evals, 1)
            return res
    else:
        m = call(res, "match", cls, match_candidates_sample, a_ei, a_epi, a_ls, n_edges)
    if m is not runner.FAILED:
        res.n_evals += 1
        judge_matches(res, "match", mats, opt, [t.tolist() for t in m], judge_optimum=not posinf)
    res.n_evals = max(res.n_evals, 1)
    return res


# ----------------------------------------------------------------------------------
# part group


def node_peaks_of(chan, xy, vals, n_nodes):
    import numpy as np

    out = [[] for _ in range(n_nodes)]
    for c, p, v in zip(chan, xy, vals):
        out[c].append((float(np.float32(p[0])), float(np.float32(p[1])), float(np.float32(v))))
    return out


def _eval_group(case):
    import numpy as np
    import torch
    from sleap_nn.inference.paf_grouping import EdgeType, PAFScorer, group_instances_sample

    res = Result()
    n_nodes, edges = case["n_nodes"], [tuple(e) for e in case["edges"]]
    chan, xy, vals = case["chan"], case["xy"], case["vals"]
    matches = [tuple(m) for m in case["matches"]]  # (k, i, j, score)
    min_line = float(case["min_line"])
    mip_kind, mip = case["mip_kind"], case["mip"]
    mip_arg = int(mip) if mip_kind == "int" else float(mip)
    edge_types = [EdgeType(s, d) for s, d in edges]
    if case["order"] == "scorer":
        names = [f"n{i}" for i in range(n_nodes)]
        sc = call(
            res, "scorer", "valid-input", PAFScorer, part_names=names, edges=[(names[s], names[d]) for s, d in edges], pafs_stride=2
        )
        if sc is runner.FAILED:
            return res
        order = tuple(int(i) for i in sc.sorted_edge_inds)
        if not parent_first(edges, list(order)):
            res.rejected = True  # C17's business; without a parent-first order the greedy union is undefined
            return res
    else:
        order = tuple(case["order"])
        if not parent_first(edges, list(order)):
            raise runner.HarnessError("generator produced an edge order that is not parent-first")
    node_peaks = node_peaks_of(chan, xy, vals, n_nodes)
    accepted = [(k, i, j, float(np.float32(s))) for (k, i, j, s) in matches if float(np.float32(s)) >= min_line]
    n_rej = len(matches) - len(accepted)
    args = [
        torch.tensor(xy, dtype=torch.float32).reshape(-1, 2),
        torch.tensor(vals, dtype=torch.float32),
        t_int(chan, torch, torch.int32),
        t_int([m[0] for m in matches], torch, torch.int32),
        t_int([m[1] for m in matches], torch, torch.int32),
        t_int([m[2] for m in matches], torch, torch.int32),
        torch.tensor([float(m[3]) for m in matches], dtype=torch.float32),
    ]
    if case.get("as_numpy"):
        args = [a.numpy() for a in args]
    out = call(
        res, "group", "valid-input", group_instances_sample, *args, n_nodes, order, edge_types, mip_arg, min_line_scores=min_line
    )
    res.cls(
        f"order={'scorer' if case['order'] == 'scorer' else 'other-parent-first'}",
        f"min_peaks={mip_kind}",
        "score=min" if any(float(np.float32(m[3])) == min_line for m in matches) else "no-boundary-score",
    )
    if any(math.isnan(m[3]) for m in matches):
        res.cls("nan-match-score")
    if any(m[3] == -INF for m in matches):
        res.cls("neginf-match-score")
    if n_rej:
        res.cls("some-match-below-min")
    if not matches:
        res.cls("no-matches")
    if out is runner.FAILED:
        return res
    facts = judge_instances(res, "group", node_peaks, edges, accepted, n_nodes, mip_kind, mip, out)
    if facts["dropped"]:
        res.cls("small-instance-dropped")
    if facts["ambiguous"]:
        res.cls("float-min-peaks-rounding-zone")
    res.cls("n_instances=" + str(min(facts["n_out"], 3)) + ("+" if facts["n_out"] >= 3 else ""))
    if any(len(p) == 0 for p in node_peaks) and any(len(p) > 0 for p in node_peaks):
        res.cls("empty-node-type")
    res.nontrivial = bool(len(accepted) >= 2 or n_rej or facts["dropped"])
    return res


# ----------------------------------------------------------------------------------
# part predict


def seg_dist(px, py, ax, ay, bx, by):
    dx, dy = bx - ax, by - ay
    L2 = dx * dx + dy * dy
    t = 0.0 if L2 == 0 else max(0.0, min(1.0, ((px - ax) * dx + (py - ay) * dy) / L2))
    return math.hypot(px - (ax + t * dx), py - (ay + t * dy))


def build_pafs(case, frames_np):
    """PAF tensor (B,H,W,2E) float32, a pure function of the case."""
    import numpy as np

    B, H, W, E = len(case["frames"]), case["H"], case["W"], len(case["edges"])
    spec = case["paf"]
    kind = spec["kind"]
    pafs = np.zeros((B, H, W, 2 * E), dtype=np.float32)
    if kind == "const":
        pafs[:] = np.asarray(spec["vec"], dtype=np.float32)[: 2 * E].reshape(1, 1, 1, 2 * E)
    elif kind == "random":
        rng = np.random.RandomState(int(spec["seed"]))
        pafs = (rng.standard_normal((B, H, W, 2 * E)) * float(spec["scale"])).astype(np.float32)
    elif kind == "ideal":
        st = case["stride"]
        for b, by_node in enumerate(frames_np):
            for k, (s, d) in enumerate(case["edges"]):
                for p, q in zip(by_node[s], by_node[d]):  # same-rank peaks form an animal
                    L = math.hypot(q[0] - p[0], q[1] - p[1])
                    if L == 0:
                        continue
                    ux, uy = (q[0] - p[0]) / L, (q[1] - p[1]) / L
                    for r in range(H):
                        for c in range(W):
                            if seg_dist(c * st, r * st, p[0], p[1], q[0], q[1]) <= 0.75 * st:
                                pafs[b, r, c, 2 * k] = ux
                                pafs[b, r, c, 2 * k + 1] = uy
    return pafs


def nested(torch, tensors):
    return torch.nested.nested_tensor(list(tensors))


def same_list(a, b):
    """Exact, NaN-aware equality of two (nested) lists of numbers."""
    if isinstance(a, list) != isinstance(b, list):
        return False
    if isinstance(a, list):
        return len(a) == len(b) and all(same_list(x, y) for x, y in zip(a, b))
    if isinstance(a, float) and isinstance(b, float) and math.isnan(a) and math.isnan(b):
        return True
    return a == b


def _eval_predict(case):
    import numpy as np
    import torch
    from sleap_nn.inference.paf_grouping import PAFScorer

    res = Result()
    n_nodes, edges = case["n_nodes"], [tuple(e) for e in case["edges"]]
    n_edges = len(edges)
    stride, H, W = case["stride"], case["H"], case["W"]
    frames = case["frames"]
    B = len(frames)
    prm = case["params"]
    min_line = float(prm["min_line"])
    mip_kind, mip = prm["mip_kind"], prm["mip"]
    names = [f"n{i}" for i in range(n_nodes)]
    scorer = call(
        res,
        "scorer",
        "valid-input",
        PAFScorer,
        part_names=names,
        edges=[(names[s], names[d]) for s, d in edges],
        pafs_stride=stride,
        max_edge_length_ratio=float(prm["max_edge_length_ratio"]),
        dist_penalty_weight=float(prm["dist_penalty_weight"]),
        n_points=int(prm["n_points"]),
        min_instance_peaks=int(mip) if mip_kind == "int" else float(mip),
        min_line_scores=min_line,
    )
    if scorer is runner.FAILED:
        return res
    if not parent_first(edges, [int(i) for i in scorer.sorted_edge_inds]):
        res.rejected = True  # C17
        return res
    node_peaks = [node_peaks_of(f["chan"], f["xy"], f["vals"], n_nodes) for f in frames]
    frames_np = [[[(p[0], p[1]) for p in lst] for lst in npk] for npk in node_peaks]
    pafs = torch.from_numpy(build_pafs(case, frames_np))
    t_xy = [torch.tensor(f["xy"], dtype=torch.float32).reshape(-1, 2) for f in frames]
    t_val = [torch.tensor(f["vals"], dtype=torch.float32) for f in frames]
    t_ch = [t_int(f["chan"], torch, torch.int32) for f in frames]

    # ---- class labels from the input
    res.cls(f"paf={case['paf']['kind']}", f"layout={case.get('layout', '?')}", f"batch={B}", f"min_peaks={mip_kind}")
    res.cls(f"{case.get('layout', '?')}|{case['paf']['kind']}")
    if case.get("same_counts"):
        res.cls("frames-with-equal-peak-counts")
    n_pk = [len(f["chan"]) for f in frames]
    if B > 1 and any(n == 0 for n in n_pk) and any(n > 0 for n in n_pk):
        res.cls("empty-frame-inside-batch")
    if all(n == 0 for n in n_pk):
        res.cls("all-frames-empty")
    coincident = same_px = outside = empty_node = False
    for npk in node_peaks:
        empty_node |= any(len(p) == 0 for p in npk) and any(len(p) > 0 for p in npk)
        for s, d in edges:
            for p in npk[s]:
                for q in npk[d]:
                    if p[0] == q[0] and p[1] == q[1]:
                        coincident = True
                    elif round(p[0] / stride) == round(q[0] / stride) and round(p[1] / stride) == round(q[1] / stride):
                        same_px = True
        for lst in npk:
            for p in lst:
                outside |= not (0 <= p[0] <= (W - 1) * stride and 0 <= p[1] <= (H - 1) * stride)
    if coincident:
        res.cls("coincident-src-dst-peaks")
    if same_px:
        res.cls("src-dst-on-same-paf-cell")
    if outside:
        res.cls("peaks-outside-paf-extent")
    if empty_node:
        res.cls("empty-node-type")

    # ---- stepwise API, one frame at a time
    res.n_evals = 0
    step = []  # per frame: None or dict
    any_infeasible = any_tie = any_big = any_nonfinite = False
    n_acc = 0
    for b in range(B):
        info = {"cand": None, "accepted": None}
        step.append(info)
        one = (pafs[b : b + 1], nested(torch, [t_xy[b]]), nested(torch, [t_ch[b]]))
        out = call(res, "step-score", "valid-input", scorer.score_paf_lines, *one)
        if out is runner.FAILED:
            continue
        ei, epi, ls = (o[0] for o in out)
        info["cand"] = (ei.tolist(), epi.tolist(), ls.tolist())
        cands = [(int(k), int(p[0]), int(p[1]), float(s)) for k, p, s in zip(*info["cand"])]
        by_node = [[g for g, c in enumerate(frames[b]["chan"]) if c == n] for n in range(n_nodes)]
        want = sorted((k, s, d) for k, (a, bb) in enumerate(edges) for s in by_node[a] for d in by_node[bb])
        if sorted(c[:3] for c in cands) != want:
            res.fail("step-score:candidates-not-cross-product", f"frame {b}: got {sorted(c[:3] for c in cands)}, expected {want}")
            continue
        mats = build_mats(cands, n_edges)
        infeasible, tie, nonfinite, posinf, big, opt = mats_summary(mats)
        any_infeasible |= infeasible
        any_tie |= tie
        any_big |= big
        any_nonfinite |= nonfinite
        cls = "no-finite-full-assignment" if infeasible else "valid-input"
        m = call(res, "step-match", cls, scorer.match_candidates, *out)
        if m is runner.FAILED:
            continue
        res.n_evals += 1
        m_lists = [t[0].tolist() for t in m]
        fin = judge_matches(res, "step-match", mats, opt, m_lists)
        if fin is None:
            continue
        # candidate-grid index -> (node, index among that node's peaks)
        acc = []
        for k, i, j, s in accepted_of(fin, min_line):
            s_id, d_id = mats[k]["src"][i], mats[k]["dst"][j]
            acc.append((k, by_node[edges[k][0]].index(s_id), by_node[edges[k][1]].index(d_id), s))
        info["accepted"] = acc
        n_acc += len(acc)
        g = call(
            res,
            "step-group",
            "valid-input",
            scorer.group_instances,
            nested(torch, [t_xy[b]]),
            nested(torch, [t_val[b]]),
            nested(torch, [t_ch[b]]),
            *m,
        )
        if g is runner.FAILED:
            continue
        res.n_evals += 1
        judge_instances(res, "step-group", node_peaks[b], edges, acc, n_nodes, mip_kind, mip, [o[0].numpy() for o in g])

    res.cls("infeasible-edge" if any_infeasible else "feasible")
    if any_tie:
        res.cls("tie")
    res.nontrivial = bool(any_big or any_nonfinite or empty_node)

    # ---- the whole batch through predict
    cls = "no-finite-full-assignment" if any_infeasible else "valid-input"
    out = call(res, "predict", cls, scorer.predict, pafs, nested(torch, t_xy), nested(torch, t_val), nested(torch, t_ch))
    res.n_evals += 1
    if out is runner.FAILED:
        return res
    if len(out) != 6 or any(o.size(0) != B for o in out):
        res.fail("predict:output-shape", f"{len(out)} outputs, batch sizes {[o.size(0) for o in out]} for {B} frames")
        return res
    n_out = dropped = 0
    for b in range(B):
        info = step[b]
        if info["cand"] is not None:
            got = (out[3][b].tolist(), out[4][b].tolist(), out[5][b].tolist())
            if not same_list(list(got), list(info["cand"])):
                res.fail(
                    "predict:differs-from-stepwise",
                    f"frame {b} of {B}: candidates/scores {got} from predict, {info['cand']} from score_paf_lines on the frame alone",
                )
                continue
        if info["accepted"] is None:
            continue
        facts = judge_instances(
            res, "predict", node_peaks[b], edges, info["accepted"], n_nodes, mip_kind, mip, [out[i][b].numpy() for i in range(3)]
        )
        n_out += facts["n_out"]
        dropped += facts["dropped"]
    res.cls("instances-out" if n_out else "no-instances-out")
    if n_out >= 2:
        res.cls("instances-out>=2")
    if dropped:
        res.cls("small-instance-dropped")
    if n_acc == 0:
        res.cls("no-accepted-match")
    return res


def _labelled(prefix, fn):
    def evaluate(case):
        res = fn(case)
        res.classes = [f"{prefix}/{c}" for c in res.classes]
        return res

    return evaluate


eval_match = _labelled("match", _eval_match)
eval_group = _labelled("group", _eval_group)
eval_predict = _labelled("predict", _eval_predict)


# ----------------------------------------------------------------------------------
# strategies


def _strategies():
    from hypothesis import strategies as st

    def draw_tree(draw, n):
        """Random rooted labelled tree, edges directed away from the root, list order shuffled."""
        labels = draw(st.permutations(list(range(n))))
        edges = []
        for k in range(1, n):
            p = draw(st.integers(0, k - 1))
            edges.append([labels[p], labels[k]])
        return [list(e) for e in draw(st.permutations(edges))]

    quarter = st.integers(-8, 8).map(lambda q: q / 4.0)
    f32 = st.floats(min_value=-4.0, max_value=4.0, width=32, allow_nan=False, allow_infinity=False)
    f32wide = st.floats(min_value=-1e4, max_value=1e4, width=32, allow_nan=False, allow_infinity=False)

    @st.composite
    def match_case(draw):
        n_nodes = draw(st.sampled_from([2, 2, 3, 3, 4]))
        edges = draw_tree(draw, n_nodes)
        shape = draw(st.sampled_from(["small", "square", "rect", "empty-node", "any", "any"]))
        if shape == "small":
            counts = [draw(st.integers(1, 2)) for _ in range(n_nodes)]
        elif shape == "square":
            c = draw(st.integers(2, 5 if n_nodes == 2 else 4))
            counts = [c] * n_nodes
        elif shape == "rect":
            counts = [draw(st.integers(1, 5 if n_nodes == 2 else 4)) for _ in range(n_nodes)]
        elif shape == "empty-node":
            counts = [draw(st.integers(1, 3)) for _ in range(n_nodes)]
            counts[draw(st.integers(0, n_nodes - 1))] = 0
        else:
            counts = [draw(st.integers(0, 4)) for _ in range(n_nodes)]
        chan = draw(st.permutations([n for n, c in enumerate(counts) for _ in range(c)]))
        by_node = [[g for g, c in enumerate(chan) if c == n] for n in range(n_nodes)]
        vals = draw(st.sampled_from(["quarter", "quarter", "float", "wide", "const"]))
        special = draw(
            st.sampled_from(["none"] * 5 + ["nan", "nan", "neginf", "mixed", "mixed", "row", "col", "row+col", "missing", "posinf"])
        )
        vstrat = {"quarter": quarter, "float": f32, "wide": f32wide, "const": st.just(draw(quarter))}[vals]
        cands = []
        for k, (a, b) in enumerate(edges):
            ns, nd = len(by_node[a]), len(by_node[b])
            if ns == 0 or nd == 0:
                continue
            flat = draw(st.lists(vstrat, min_size=ns * nd, max_size=ns * nd))
            tags = draw(st.lists(st.integers(0, 9), min_size=ns * nd, max_size=ns * nd))
            bad_row = draw(st.integers(0, ns - 1)) if special in ("row", "row+col") else -1
            bad_col = draw(st.integers(0, nd - 1)) if special in ("col", "row+col") else -1
            for i in range(ns):
                for j in range(nd):
                    v, t = flat[i * nd + j], tags[i * nd + j]
                    if i == bad_row or j == bad_col:
                        v = NAN
                    elif special == "nan" and t < 3:
                        v = NAN
                    elif special == "neginf" and t < 3:
                        v = -INF
                    elif special == "mixed" and t < 4:
                        v = [NAN, -INF, NAN, None][t]
                    elif special == "missing" and t < 3:
                        v = None
                    elif special == "posinf" and t < 2:
                        v = INF
                    if v is not None:
                        cands.append([k, by_node[a][i], by_node[b][j], v])
        cands = [list(c) for c in draw(st.permutations(cands))]
        return {
            "n_nodes": n_nodes,
            "edges": edges,
            "chan": list(chan),
            "cands": cands,
            "vals": vals,
            "special": special,
            "idx64": draw(st.booleans()),
            "edges_as": draw(st.sampled_from(["list", "tensor"])),
        }

    def draw_min_peaks(draw, n_nodes):
        kind = draw(st.sampled_from(["int", "int", "float"]))
        if kind == "int":
            return kind, draw(st.integers(0, min(4, n_nodes + 1)))
        f = draw(
            st.one_of(
                st.integers(0, n_nodes).map(lambda k: k / n_nodes),
                st.sampled_from([0.0, 0.25, 0.5, 0.75, 1.0]),
                st.floats(min_value=0.0, max_value=1.0, width=32),
            )
        )
        return kind, float(f)

    def draw_peaks(draw, counts, coord):
        chan = list(draw(st.permutations([n for n, c in enumerate(counts) for _ in range(c)])))
        xy = [[draw(coord), draw(coord)] for _ in chan]
        vals = [draw(st.integers(0, 64)) / 64.0 for _ in chan]
        return chan, xy, vals

    @st.composite
    def group_case(draw):
        n_nodes = draw(st.sampled_from([2, 3, 3, 4, 4, 5, 6, 7]))
        edges = draw_tree(draw, n_nodes)
        dens = draw(st.sampled_from(["dense", "dense", "mixed", "empty-node"]))
        if dens == "dense":
            counts = [draw(st.integers(2, 4)) for _ in range(n_nodes)]
        else:
            counts = [draw(st.integers(0, 4)) for _ in range(n_nodes)]
            if dens == "empty-node":
                counts[draw(st.integers(0, n_nodes - 1))] = 0
        chan, xy, vals = draw_peaks(draw, counts, st.integers(0, 40).map(lambda q: q / 2.0))
        min_line = draw(st.sampled_from([-1.0, -0.5, 0.0, 0.25, 0.25, 0.5, 1.0]))
        if draw(st.integers(0, 4)) == 0:
            min_line = draw(st.floats(min_value=-1.0, max_value=1.0, width=32))
        score = st.one_of(
            st.just(min_line),
            st.integers(-12, 12).map(lambda q: q / 8.0),
            st.integers(-12, 12).map(lambda q: q / 8.0),
            st.floats(min_value=-2.0, max_value=2.0, width=32),
            st.sampled_from([NAN, -INF, min_line, min_line]),
        )
        fill = draw(st.sampled_from(["full", "full", "partial"]))
        matches = []
        for k, (a, b) in enumerate(edges):
            ns, nd = counts[a], counts[b]
            m = min(ns, nd)
            if m == 0:
                continue
            n_m = m if fill == "full" else draw(st.integers(0, m))
            src = draw(st.permutations(list(range(ns))))[:n_m]
            dst = draw(st.permutations(list(range(nd))))[:n_m]
            for i, j in zip(src, dst):
                matches.append([k, i, j, draw(score)])
        matches = [list(m) for m in draw(st.permutations(matches))]
        mip_kind, mip = draw_min_peaks(draw, n_nodes)
        if draw(st.booleans()):
            order = "scorer"
        else:
            perm = list(draw(st.permutations(list(range(len(edges))))))
            dsts = {d for _, d in edges}
            reached = {s for s, _ in edges} - dsts
            order = []
            while perm:
                for ei in perm:
                    if edges[ei][0] in reached:
                        break
                perm.remove(ei)
                order.append(ei)
                reached.add(edges[ei][1])
        return {
            "n_nodes": n_nodes,
            "edges": edges,
            "chan": chan,
            "xy": xy,
            "vals": vals,
            "matches": matches,
            "min_line": float(min_line),
            "mip_kind": mip_kind,
            "mip": mip,
            "order": order,
            "as_numpy": draw(st.integers(0, 5)) == 0,
        }

    @st.composite
    def predict_case(draw):
        n_nodes = draw(st.sampled_from([2, 2, 3, 3, 4, 5]))
        edges = draw_tree(draw, n_nodes)
        stride = draw(st.sampled_from([1, 2, 2, 4, 8]))
        H, W = draw(st.integers(2, 7)), draw(st.integers(2, 7))
        B = draw(st.sampled_from([1, 2, 2, 3]))
        # one choice for the pair, so every layout x field combination is drawn
        layout, paf_kind = draw(
            st.sampled_from(
                [
                    (lay, pk)
                    for lay in ["lattice", "lattice", "float", "animals", "animals"]
                    for pk in ["zeros", "const", "random", "random", "ideal", "ideal"]
                ]
            )
        )
        frame_kinds = [draw(st.sampled_from(["dense", "dense", "sparse", "empty-node", "empty"])) for _ in range(B)]
        if B > 1 and draw(st.integers(0, 3)) == 0:
            frame_kinds[draw(st.integers(0, B - 1))] = "empty"
        # frames with the same number of peaks per node type: a mix-up between batch
        # entries then goes unnoticed by shapes and has to show in the grouping
        same_counts = B > 1 and draw(st.integers(0, 2)) == 0
        shared = None
        frames = []
        for fk in frame_kinds:
            if fk == "empty":
                counts = [0] * n_nodes
            elif same_counts and shared is not None:
                counts = list(shared)
            elif fk == "dense":
                counts = [draw(st.integers(2, 4 if n_nodes <= 3 else 3)) for _ in range(n_nodes)]
            else:
                counts = [draw(st.integers(0, 3)) for _ in range(n_nodes)]
                if fk == "empty-node":
                    counts[draw(st.integers(0, n_nodes - 1))] = 0
            if fk != "empty" and shared is None:
                shared = list(counts)
            n_tot = sum(counts)
            order = list(draw(st.permutations(list(range(n_tot)))))
            # peaks listed node by node, rank by rank; `order` shuffles them afterwards
            flat_nodes = [n for n, c in enumerate(counts) for _ in range(c)]
            flat_rank = [r for n, c in enumerate(counts) for r in range(c)]
            if layout == "lattice":
                # few cells, coordinates on cell centres: coincident peaks and ties are common
                coord = st.integers(0, 3).map(lambda q: float(q * stride))
                pts = [[draw(coord), draw(coord)] for _ in range(n_tot)]
            elif layout == "float":
                lo, hi = -2.0 * stride, (max(H, W) + 2.0) * stride
                coord = st.one_of(
                    st.floats(min_value=lo, max_value=hi, width=32),
                    st.floats(min_value=lo, max_value=hi, width=32),
                    st.sampled_from([-1e4, 1e4, -0.5, 0.0]),
                )
                pts = [[draw(coord), draw(coord)] for _ in range(n_tot)]
            else:
                # animal r = the r-th peak of every node type: root anywhere in the extent, each child
                # a couple of cells away from its parent; quarter-cell resolution
                n_an = max(counts) if counts else 0
                q = st.integers(0, 4 * (max(H, W) - 1)).map(lambda v: v * stride / 4.0)
                off = st.integers(-12, 12).map(lambda v: v * stride / 4.0)
                pos = {}
                root = ({s for s, _ in edges} - {d for _, d in edges}).pop()
                for r in range(n_an):
                    pos[(root, r)] = [draw(q), draw(q)]
                pending = list(edges)
                while pending:
                    for e in pending:
                        if (e[0], 0) in pos or n_an == 0:
                            break
                    pending.remove(e)
                    for r in range(n_an):
                        p = pos[(e[0], r)]
                        pos[(e[1], r)] = [p[0] + draw(off), p[1] + draw(off)]
                pts = [pos[(n, r)] for n, r in zip(flat_nodes, flat_rank)]
            vals = [draw(st.integers(0, 64)) / 64.0 for _ in range(n_tot)]
            # a source peak copied onto a destination peak of some edge
            if n_tot and draw(st.integers(0, 5)) == 0:
                cand_e = [e for e in edges if counts[e[0]] and counts[e[1]]]
                if cand_e:
                    e = cand_e[draw(st.integers(0, len(cand_e) - 1))]
                    si = [i for i, n in enumerate(flat_nodes) if n == e[0]]
                    di = [i for i, n in enumerate(flat_nodes) if n == e[1]]
                    s_i = si[draw(st.integers(0, len(si) - 1))]
                    d_i = di[draw(st.integers(0, len(di) - 1))]
                    pts[d_i] = list(pts[s_i])
            frames.append(
                {
                    "chan": [flat_nodes[i] for i in order],
                    "xy": [[float(pts[i][0]), float(pts[i][1])] for i in order],
                    "vals": [vals[i] for i in order],
                }
            )
        paf = {"kind": paf_kind}
        if paf_kind == "const":
            paf["vec"] = [draw(st.integers(-4, 4)) / 4.0 for _ in range(2 * len(edges))]
        elif paf_kind == "random":
            paf["seed"] = draw(st.integers(0, 2**31 - 1))
            paf["scale"] = draw(st.sampled_from([0.25, 1.0, 1.0, 3.0]))
        mip_kind, mip = draw_min_peaks(draw, n_nodes)
        min_line = draw(st.sampled_from([-8.0, -8.0, -1.0, -1.0, -0.5, 0.0, 0.0, 0.25, 0.25, 0.5, 0.75]))
        params = {
            "n_points": draw(st.integers(1, 12)),
            "max_edge_length_ratio": draw(st.sampled_from([0.01, 0.1, 0.25, 0.25, 0.5, 1.0, 2.0])),
            "dist_penalty_weight": draw(st.sampled_from([0.0, 0.5, 1.0, 1.0, 3.0])),
            "min_line": float(min_line),
            "mip_kind": mip_kind,
            "mip": mip,
        }
        return {
            "n_nodes": n_nodes,
            "edges": edges,
            "stride": stride,
            "H": H,
            "W": W,
            "layout": layout,
            "same_counts": bool(same_counts),
            "frames": frames,
            "paf": paf,
            "params": params,
        }

    return match_case, group_case, predict_case


def strat_match():
    return _strategies()[0]()


def strat_group():
    return _strategies()[1]()


def strat_predict():
    return _strategies()[2]()


def parts(tier):
    return [
        Part(
            name="match",
            evaluate=eval_match,
            strategy=strat_match,
            budget={"quick": 1500, "thorough": 250000},
            shards={"quick": 1, "thorough": 16},
            min_nontrivial={"quick": 250, "thorough": 15000},
        ),
        Part(
            name="group",
            evaluate=eval_group,
            strategy=strat_group,
            budget={"quick": 1500, "thorough": 250000},
            shards={"quick": 1, "thorough": 16},
            min_nontrivial={"quick": 250, "thorough": 15000},
        ),
        Part(
            name="predict",
            evaluate=eval_predict,
            strategy=strat_predict,
            budget={"quick": 900, "thorough": 150000},
            shards={"quick": 1, "thorough": 16},
            min_nontrivial={"quick": 200, "thorough": 12000},
        ),
    ]


if __name__ == "__main__":
    runner.main(__name__)
