"""C17 - every tree skeleton gets a complete, parent-before-child edge order.

Domain: all rooted labelled trees (Pruefer sequence x root, edges directed away from the
root) x all orderings of the edge list, exhaustively for n<=5 (quick) / n<=6 (thorough);
Hypothesis-sampled n=7,8 with shuffled part names.  Oracle: the returned tuple is a
permutation of range(n_edges) and every edge's source is the root or the destination of
an earlier edge.  Both `toposort_edges` and `PAFScorer(...).sorted_edge_inds` are observed.
"""

import itertools

from vlib import env, runner
from vlib.runner import Part, Result

PROPERTY = "C17"
LEVEL = "exploration"
RULE = (
    "cases = (rooted labelled tree, ordering of its edge list[, shuffled node names]); enumerated "
    "exhaustively for n<=5 (quick) / n<=6 (thorough) and sampled with Hypothesis for n=7,8; "
    "non-trivial = the edge list as written is NOT already a valid parent-before-child order "
    "(so the function has to reorder); distinct by hash of the serialised case"
)
ASSUMPTIONS = ["edges are directed away from the root, as sleap-io skeletons store them"]


def prufer_to_edges(seq, n):
    """Undirected labelled tree from a Pruefer sequence (n>=2)."""
    if n == 2:
        return [(0, 1)]
    degree = [1] * n
    for v in seq:
        degree[v] += 1
    edges = []
    for v in seq:
        for u in range(n):
            if degree[u] == 1:
                edges.append((u, v))
                degree[u] -= 1
                degree[v] -= 1
                break
    u, v = [i for i in range(n) if degree[i] == 1]
    edges.append((u, v))
    return edges


def orient(edges, n, root):
    adj = {i: [] for i in range(n)}
    for a, b in edges:
        adj[a].append(b)
        adj[b].append(a)
    out, seen, stack = [], {root}, [root]
    while stack:
        x = stack.pop()
        for y in sorted(adj[x]):
            if y not in seen:
                seen.add(y)
                out.append((x, y))
                stack.append(y)
    return out


def all_rooted_trees(n):
    for seq in itertools.product(range(n), repeat=max(0, n - 2)):
        und = prufer_to_edges(list(seq), n)
        for root in range(n):
            yield root, orient(und, n, root)


def valid_order(edges, order):
    """Oracle: permutation + parent-before-child."""
    ne = len(edges)
    if sorted(order) != list(range(ne)):
        return "not a permutation of the edge indices"
    dsts = {d for _, d in edges}
    roots = {s for s, _ in edges} - dsts
    reached = set(roots)
    for pos, ei in enumerate(order):
        s, d = edges[ei]
        if s not in reached:
            return f"edge {ei}={edges[ei]} at position {pos} listed before the edge into its source"
        reached.add(d)
    return None


def evaluate(case):
    from sleap_nn.inference.paf_grouping import EdgeType, PAFScorer, toposort_edges

    res = Result()
    n = case["n"]
    edges = [tuple(e) for e in case["edges"]]
    res.nontrivial = valid_order(edges, list(range(len(edges)))) is not None
    res.cls(f"n={n}", "needs_reorder" if res.nontrivial else "already_ordered")
    res.n_evals = 0
    # API 1: toposort_edges
    out = runner.guarded(res, "toposort", toposort_edges, [EdgeType(s, d) for s, d in edges])
    if out is not runner.FAILED:
        res.n_evals += 1
        why = valid_order(edges, [int(i) for i in out])
        if why:
            res.fail("toposort:order", f"{why}; edges={edges} order={tuple(out)}")
    # API 2: PAFScorer with (possibly shuffled) names
    names = case.get("names") or [f"n{i}" for i in range(n)]
    # names[i] is the name of node i; part_names may be listed in any order
    part_order = case.get("part_order") or list(range(n))
    part_names = [names[i] for i in part_order]
    named_edges = [(names[s], names[d]) for s, d in edges]
    sc = runner.guarded(res, "pafscorer", PAFScorer, part_names=part_names, edges=named_edges, pafs_stride=2)
    if sc is not runner.FAILED:
        res.n_evals += 1
        idx_edges = [(part_names.index(a), part_names.index(b)) for a, b in named_edges]
        why = valid_order(idx_edges, [int(i) for i in sc.sorted_edge_inds])
        if why:
            res.fail("pafscorer:order", f"{why}; edges={named_edges} order={tuple(sc.sorted_edge_inds)}")
        if list(map(tuple, sc.edge_inds)) != idx_edges:
            res.fail("pafscorer:edge_inds", f"edge_inds {sc.edge_inds} != {idx_edges}")
        elif n <= GROUP_NMAX and not why:
            consequence(res, sc, n, idx_edges)
    res.n_evals = max(res.n_evals, 1)
    return res


GROUP_NMAX = 8


def consequence(res, sc, n, idx_edges):
    """The statement's consequence clause, observed where the order is consumed: two fully detected animals whose
    every edge was matched (perfect one-to-one matches, score 1) are grouped through the scorer's own
    `sorted_edge_inds` / `edge_types`; with a parent-before-child order no body part is left ungrouped, i.e. exactly
    two instances come back, each with all n nodes of ONE animal."""
    import numpy as np
    import torch
    from sleap_nn.inference.paf_grouping import group_instances_sample

    # peaks listed channel by channel; inside a channel the animals alternate their order (so that positions are not
    # accidentally equal to animal numbers)
    xy, vals, chan, pos = [], [], [], {}
    for k in range(n):
        for slot, a in enumerate((0, 1) if k % 2 == 0 else (1, 0)):
            pos[(k, a)] = slot
            xy.append([10.0 * k + 1000.0 * a, 7.0 * k])
            vals.append(0.9 - 0.01 * k)
            chan.append(k)
    me, ms, md, sc_ = [], [], [], []
    for e, (s_, d_) in enumerate(idx_edges):
        for a in (0, 1):
            me.append(e)
            ms.append(pos[(s_, a)])
            md.append(pos[(d_, a)])
            sc_.append(1.0)
    args = [
        torch.tensor(xy, dtype=torch.float32), torch.tensor(vals, dtype=torch.float32), torch.tensor(chan, dtype=torch.int32),
        torch.tensor(me, dtype=torch.int32), torch.tensor(ms, dtype=torch.int32), torch.tensor(md, dtype=torch.int32),
        torch.tensor(sc_, dtype=torch.float32),
    ]
    out = runner.guarded(
        res, "grouping", group_instances_sample, *args, n, tuple(sc.sorted_edge_inds), sc.edge_types, 0, min_line_scores=0.25
    )
    if out is runner.FAILED:
        return
    res.n_evals += 1
    inst = np.asarray(out[0], dtype=np.float64).reshape(-1, n, 2)
    bad = None
    if inst.shape[0] != 2:
        bad = f"{inst.shape[0]} instances for 2 fully matched animals"
    else:
        for row in inst:
            if np.isnan(row).any():
                bad = f"a body part is left ungrouped: {row.tolist()}"
                break
            owners = {int(x >= 500.0) for x in row[:, 0]}
            if len(owners) != 1:
                bad = f"an instance mixes the two animals: {row.tolist()}"
                break
    if bad:
        res.fail("grouping:body-part-left-ungrouped", f"{bad}; edge_inds={idx_edges} sorted_edge_inds={tuple(sc.sorted_edge_inds)}")


def enum_cases(nmax):
    def gen(tier):
        for n in range(2, nmax + 1):
            for root, edges in all_rooted_trees(n):
                for perm in itertools.permutations(edges):
                    yield {"n": n, "root": root, "edges": [list(e) for e in perm]}

    return gen


def strategy():
    from hypothesis import strategies as st

    @st.composite
    def tree(draw):
        n = draw(st.sampled_from([7, 7, 7, 8]))
        seq = draw(st.lists(st.integers(0, n - 1), min_size=n - 2, max_size=n - 2))
        root = draw(st.integers(0, n - 1))
        edges = orient(prufer_to_edges(seq, n), n, root)
        perm = draw(st.permutations(edges))
        names = draw(st.permutations([chr(ord("a") + i) * (1 + i % 2) for i in range(n)]))
        part_order = draw(st.permutations(list(range(n))))
        return {
            "n": n,
            "root": root,
            "edges": [list(e) for e in perm],
            "names": list(names),
            "part_order": list(part_order),
        }

    return tree()


def parts(tier):
    return [
        Part(
            name="enum",
            evaluate=evaluate,
            enumerate=enum_cases(5 if tier == "quick" else 6),
            shards={"quick": 1, "thorough": 16},
            exhaustive={"quick": True, "thorough": True},
            min_nontrivial={"quick": 1000, "thorough": 100000},
        ),
        Part(
            name="sampled",
            evaluate=evaluate,
            strategy=strategy,
            budget={"quick": 1500, "thorough": 200000},
            shards={"quick": 1, "thorough": 16},
            min_nontrivial={"quick": 500, "thorough": 50000},
        ),
    ]


def extra_coverage():
    return {"exhaustive_domain": "all rooted labelled trees x all edge-list orders, n<=5 (quick) / n<=6 (thorough)"}


if __name__ == "__main__":
    runner.main(__name__)
