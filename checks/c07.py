"""C07 - global peak detection reports a true maximum; refinement is bounded and helps.

Observed: the return tuples of ``find_global_peaks_rough`` and ``find_global_peaks``
(sleap_nn/inference/peak_finding.py; the crop boxes come from
sleap_nn/data/instance_cropping.py:make_centered_bboxes).

Part ``maps``  float32 batches from the value models of ``vlib.peakmaps`` (as C06) plus
  tied maxima on different rows AND columns, maxima on borders/corners, channels pushed
  below the threshold mixed with valid ones, all-below batches, maxima exactly at / one ulp
  below the threshold.  Oracles:
    (1) a valid channel reports integer (x,y) with cms[b,c,y,x] == cms[b,c].max() and
        that value (bit-exact);  (2) max < thr  =>  (NaN,NaN) and value 0;
    (3) one (b,c) alone gives the same answer as inside the batch (rough and refined);
    (4) refinement=None == rough; "integral": values unchanged, invalid stay NaN, a valid
        peak moves by <= patch/2 per axis (strict for non-negative patches, own bucket
        ``refine:half-patch-bound:negative-patch`` otherwise - DESIGN.md section 4, D5).
Part ``bumps``  isolated bumps, one per channel, mixed with empty / too-low channels:
    (5) a reflection-symmetric bump centred on a cell is not moved (<= 1e-4);
    (6) a Gaussian bump (sigma 0.6..3, sub-pixel centre, window inside the map): per axis
        |refined-true| <= |rough-true| + 1e-4, and strictly smaller when the rough error is
        >= 0.05 px ("moves the estimate toward the true centre").
Memory layout axis (both parts): the tensor handed to the code under test holds the case's values
  as contiguous | channels_last | permuted view of a buffer in another axis order | slice of a
  larger tensor (extra samples / channels / rows / columns) | strided view (steps 2-3) | expanded
  (stride 0) view; the value model and the layout are drawn as ONE pair.  Values are identical, so
  oracles (1)-(6) apply unchanged; the independence probes re-run one map, one whole channel
  ``cms[:, c:c+1]`` or one whole sample ``cms[b:b+1]``;
    (7) value, NaN pattern, the cell of a unique maximum and (same cell, non-negative patch) the
        refined coordinates equal those for the contiguous copy.  A bucket that fails only with
        the non-contiguous tensor carries the suffix ``:only-with-noncontiguous-layout``.
Part ``dtypes``  input DTYPE axis: the maps as float32 | float64 | float16 | bfloat16 tensors (the peak
  finders accept every floating type); (dtype, value model) drawn as ONE pair.  Besides the generic models
  every dtype gets the models only its own resolution can represent: ``neartie`` (2-4 candidate maxima
  differing by 1e-9..1e-13 relative for float64, by 1-4 spacings of the dtype otherwise; the true maximum
  anywhere in row-major order, adjacent or apart), ``nearthr`` (maximum just above / just below / equal to
  the threshold at the same relative distances) and ``tiny`` (the same maps scaled to 1e-45..1e-60 for
  float64, threshold scaled with them).  Oracles (1)-(4) evaluated on the case's exact doubles (numpy
  float64 = the map's own arithmetic): the reported CELL holds the map's maximum exactly; the value equals
  it up to one float32 spacing for float64 maps (float32 outputs are documented), exactly otherwise;
  max < thr => NaN / 0; single-map re-run; refinement=None == rough; integral keeps values / NaN pattern
  and moves <= patch/2.  Buckets of this part end in ``:dtype=<dtype>``.
"""

import numpy as np

from vlib import env, peakmaps as pm, runner
from vlib.runner import Part, Result

PROPERTY = "C07"
LEVEL = "exploration"
RULE = (
    "part maps: (float32 batch from a labelled value model incl. tied maxima on different rows and "
    "columns, border/corner maxima, per-channel 'pushed below threshold' / 'max == thr' / 'max one ulp "
    "below thr'; threshold; patch in {3,5,7,4}); non-trivial = the batch mixes valid and invalid "
    "channels, or some valid map attains its maximum more than once, or some valid map's maximum lies "
    "on the border. part bumps: one isolated bump per channel (Gaussian with sub-pixel centre and sigma "
    "0.6..3, or reflection-symmetric bump centred on a cell, or empty / below-threshold channel); "
    "non-trivial = valid and invalid channels are mixed or some Gaussian centre is >= 0.05 px off its "
    "cell (so that 'moves toward the centre' is a strict inequality). Both parts: the values are handed "
    "over in a drawn memory layout (contiguous / channels_last / permuted view / slice of a larger tensor / "
    "strided / expanded), maps-part value model and layout drawn as one pair. part dtypes: (map dtype in "
    "{float32,float64,float16,bfloat16}, value model) drawn as one pair, models incl. near-tied candidate maxima, "
    "maximum just above/below/at the threshold and tiny magnitudes at the resolution of the dtype (float64: 1e-9.."
    "1e-13 relative, 1e-45..1e-60); non-trivial = two distinct top values or maximum and threshold within 1e-2 "
    "relative, or magnitude < 1e-15, or valid and invalid channels mixed. distinct by hash of the case"
)
ASSUMPTIONS = [
    "maps are finite float32 tensors with |v| <= 8; NaN/inf maps are outside 'all float maps'",
    "non-zero map values have magnitude >= 1e-30 (the generator flushes smaller ones to 0): float32 "
    "denormals underflow inside the bilinear crop (0.25 * 1.4e-45 -> 0) and a denormal-valued peak would "
    "get an all-zero patch - an arithmetic artefact far outside any confidence-map value range",
    "thresholds are float32-exact numbers (torch compares the float32 map with the scalar in float32; a "
    "double threshold such as 0.2 would make 'below' differ between real and float32 arithmetic for the "
    "single value float32(0.2) - a representation artefact)",
    "half-patch bound: strict only when the patch footprint (dilated by one cell for the ~1e-6 px jitter "
    "of the perspective crop) holds no negative value; otherwise a violation goes to bucket "
    "refine:half-patch-bound:negative-patch (D5); refined single-map independence is compared only for "
    "non-negative patches",
    "zero-mass patch (the valid maximum is exactly 0 and everything in reach is 0, e.g. an all-zero map "
    "with threshold <= 0): the expectation 0/0 is undefined, the implementation returns NaN coordinates "
    "with value 0 = its own 'no peak' encoding; counted as class refine=zero-mass-patch / excluded, not "
    "judged (see final report)",
    "when the rough cell of a channel is not a maximum of its map (clause 1 already failed for it) the "
    "refinement laws are skipped for that channel: their premise 'the grid cell of the peak' is gone",
    "law (6) is asserted for patch sizes 3/5/7 with the whole window inside the map (the design-time "
    "sweep validated exactly this domain); law (5) also for patch 4 and for compactly supported bumps "
    "whose support lies inside the map while the window overhangs the border (zero padding == zeros)",
    "single-map / whole-channel / whole-sample re-runs are done for at most 3 drawn (b,c) slots per case",
    "memory layouts: the tensor under test always has the case's shape and values (checked, harness error "
    "otherwise); cells of the larger tensor outside the view hold 0, +-9 or noise in [-2,2], never NaN/inf; "
    "an 'expanded' (stride 0) view is only built when all samples (or all channels) hold identical maps - "
    "the generator copies slot 0 over the others; every call of the code under test gets a freshly built "
    "tensor, the numpy reference is never shared with it",
    "layout clause (7): which of several tied maximal cells is reported is not fixed by the statement, so "
    "a layout-dependent tie-break is only counted (class layout-changes-tie-break), not failed; refined "
    "coordinates are compared with the contiguous copy only when both start from the same cell and the "
    "patch is non-negative (tolerance TOL_INDEP)",
    "part dtypes: case values are doubles exactly representable in the map's dtype (checked, harness error "
    "otherwise) and the oracle compares them in float64; the threshold is a number representable in the map's "
    "dtype (torch compares the map with the Python scalar in the map's dtype), any double for float64 maps; "
    "outputs may have the documented float32 type or the map's dtype; a float64 maximum may be reported rounded "
    "to float32 (tolerance one float32 spacing at the value, the denormal spacing 1.4e-45 below float32's range) "
    "- the reported cell and the below-threshold decision are exact; float16 maps are at least 2x2 (kornia's "
    "homography normalisation 1/(size-1+1e-14) is singular in half precision for a one-cell-wide map: "
    "find_global_peaks(float16 Nx1 map, refinement='integral') raises LinAlgError - reduced precision x "
    "degenerate shape, not judged); contiguous tensors only; |v| <= 8",
]

TOL_INDEP = 1e-4  # same arithmetic alone / in a batch up to the batched 3x3 perspective solve
TOL_SYM = 1e-4  # DESIGN (5): float32 centre of mass of an exactly symmetric patch; crop jitter ~1e-6
TOL_TOWARD = 1e-4  # DESIGN (6)
STRICT_FROM = 0.05  # rough error from which the improvement (>= 0.07 * error for sigma<=3) is measurable


# ------------------------------------------------------------------------------------
# memory layout axis: the SAME values handed over with different strides.  Real callers pass
# network outputs in channels_last format, maps permuted from (S,H,W,C), channel / sample / crop
# slices of a larger tensor, strided and expanded views; the property quantifies over "every batch
# of confidence maps", so every oracle applies unchanged to every layout.

# weights: ~1/6 plain contiguous, the rest spread over the non-contiguous kinds
LAYOUTS = [
    "contiguous", "contiguous", "channels_last", "channels_last", "permuted", "permuted",
    "slice", "slice", "slice", "strided", "strided", "expanded",
]
# physical axis order of the buffer the (S,C,H,W) tensor is permuted back from
PERM_ORDERS = [[0, 2, 3, 1], [0, 2, 3, 1], [0, 1, 3, 2], [1, 0, 2, 3], [2, 3, 0, 1], [3, 2, 1, 0], [0, 3, 2, 1]]
# which axes of the larger tensor carry extra entries around the wanted block
SLICE_AXES = ["c", "c", "c", "b", "bc", "w", "h", "hw", "cw", "bchw"]
FILLS = ["high", "high", "zero", "low", "noise"]
NONCONTIG_ONLY = ":only-with-noncontiguous-layout"
PROBE_KINDS = ["cell", "cell", "channel", "channel", "sample"]
MODEL_LAYOUT_PAIRS = [(m, l) for m in pm.GLOBAL_MODELS for l in LAYOUTS]


def draw_layout(draw, st, kind):
    """JSON description of one memory layout of the given kind (independent of the map shape)."""
    lay = {"kind": kind}
    if kind == "permuted":
        lay["order"] = list(draw(st.sampled_from(PERM_ORDERS)))
    elif kind == "slice":
        axes = draw(st.sampled_from(SLICE_AXES))
        pads = [0] * 8
        for i, a in enumerate("bchw"):
            if a in axes:
                lo, hi = draw(st.sampled_from([(1, 0), (0, 1), (1, 1), (2, 1), (0, 2)]))
                pads[2 * i], pads[2 * i + 1] = lo, hi
        lay.update(pads=pads, fill=draw(st.sampled_from(FILLS)), seed=draw(st.integers(0, 2**31 - 1)))
    elif kind == "strided":
        steps = list(draw(st.sampled_from([(1, 1, 1, 2), (1, 1, 2, 1), (1, 1, 2, 2), (1, 2, 1, 1), (2, 1, 1, 1), (1, 2, 1, 3), (2, 2, 2, 2), (1, 1, 3, 2)])))
        lay.update(steps=steps, fill=draw(st.sampled_from(FILLS)), seed=draw(st.integers(0, 2**31 - 1)))
    elif kind == "expanded":
        lay["dim"] = draw(st.sampled_from([0, 1]))
    return lay


def expand_values(arr, layout):
    """An expanded (stride 0) view is only legal when all samples (or channels) hold the same maps:
    the generator copies slot 0 of the expanded axis over the others (in place)."""
    if layout["kind"] == "expanded":
        if layout["dim"] == 0:
            arr[1:] = arr[:1]
        else:
            arr[:, 1:] = arr[:, :1]
    return arr


def _filler(shape, layout):
    """Content of the larger tensor around / between the wanted cells.  'high' (9.0) exceeds every map
    value, so code that reads outside the view reports it; never NaN/inf."""
    fill = layout.get("fill", "zero")
    if fill == "noise":
        return np.random.RandomState(int(layout["seed"])).uniform(-2.0, 2.0, size=shape).astype(pm.F32)
    return np.full(shape, {"high": 9.0, "low": -9.0, "zero": 0.0}[fill], dtype=pm.F32)


def build_layout(arr, layout, torch):
    """A NEW float32 tensor of shape arr.shape holding exactly arr's values in the given layout.
    Called once per call of the code under test: nothing the callee does to its argument (or to the
    storage around it) can reach the numpy reference or a later call."""
    kind = layout["kind"]
    B, C, H, W = arr.shape
    if kind == "contiguous":
        t = torch.from_numpy(arr.copy())
    elif kind == "channels_last":
        t = torch.from_numpy(arr.copy()).contiguous(memory_format=torch.channels_last)
    elif kind == "permuted":
        order = [int(i) for i in layout["order"]]
        base = torch.from_numpy(np.ascontiguousarray(arr.transpose(order)))
        t = base.permute(*[order.index(i) for i in range(4)])
    elif kind == "slice":
        p = [int(i) for i in layout["pads"]]
        big = _filler((B + p[0] + p[1], C + p[2] + p[3], H + p[4] + p[5], W + p[6] + p[7]), layout)
        sl = (slice(p[0], p[0] + B), slice(p[2], p[2] + C), slice(p[4], p[4] + H), slice(p[6], p[6] + W))
        big[sl] = arr
        t = torch.from_numpy(big)[sl]
    elif kind == "strided":
        s = [int(i) for i in layout["steps"]]
        big = _filler((B * s[0], C * s[1], H * s[2], W * s[3]), layout)
        sl = (slice(None, None, s[0]), slice(None, None, s[1]), slice(None, None, s[2]), slice(None, None, s[3]))
        big[sl] = arr
        t = torch.from_numpy(big)[sl]
    elif kind == "expanded":
        first = arr[:1] if int(layout["dim"]) == 0 else arr[:, :1]
        if not np.array_equal(np.broadcast_to(first, arr.shape), arr):
            raise runner.HarnessError("layout generator: 'expanded' needs identical maps along the expanded axis")
        t = torch.from_numpy(first.copy()).expand(B, C, H, W)
    else:
        raise runner.HarnessError(f"unknown layout {kind}")
    if tuple(t.shape) != arr.shape or t.dtype != torch.float32 or not torch.equal(t, torch.from_numpy(arr)):
        raise runner.HarnessError(f"layout builder {layout} changed the values")
    return t


def layout_classes(res, arr, layout, torch):
    noncontig = not build_layout(arr, layout, torch).is_contiguous()
    res.cls(f"layout={layout['kind']}", "layout-strides=" + ("noncontiguous" if noncontig else "contiguous"))
    return noncontig


def attribute_layout(res, layout, rerun_contiguous):
    """Failure triage only (never runs on a passing case): a bucket that fails with the drawn layout but
    not with the contiguous copy of the same values gets the suffix NONCONTIG_ONLY, so that a
    layout-specific root cause is told apart from one that shows for every layout."""
    if layout["kind"] == "contiguous" or not res.failures:
        return res
    ref = {b for b, _ in rerun_contiguous().failures}
    res.failures = [
        (b if (b in ref or b.startswith("layout:")) else b + NONCONTIG_ONLY, m + ("" if b in ref else f" [layout {layout}]"))
        for b, m in res.failures
    ]
    return res


def _block(kind, b, c):
    """Index of the sub-batch one independence probe looks at: one map, one whole channel (all
    samples - a non-contiguous view of a contiguous batch when B > 1) or one whole sample."""
    if kind == "channel":
        return (slice(None), slice(c, c + 1))
    if kind == "sample":
        return (slice(b, b + 1), slice(None))
    return (slice(b, b + 1), slice(c, c + 1))


def _probes(case):
    out = []
    for p in case.get("probes", []):
        out.append((int(p[0]), int(p[1]), p[2] if len(p) > 2 else "cell"))
    return out


def _struct(res, where, out, B, C, torch, dtypes=None):
    """Shape / dtype of the 2-tuple.  `dtypes` (part dtypes): the floating types accepted for either
    output - the documented float32 or the dtype of the maps; the arrays then come back as float64."""
    if not (isinstance(out, tuple) and len(out) == 2):
        res.fail(f"{where}:shape-dtype", f"expected a 2-tuple, got {type(out)}")
        return None
    pts, vals = out
    ok_dt = (torch.float32,) if dtypes is None else dtypes
    if not (tuple(pts.shape) == (B, C, 2) and pts.dtype in ok_dt and tuple(vals.shape) == (B, C) and vals.dtype in ok_dt):
        res.fail(f"{where}:shape-dtype", f"points {tuple(pts.shape)} {pts.dtype}, vals {tuple(vals.shape)} {vals.dtype} for B={B} C={C}")
        return None
    if dtypes is not None:
        return pm.out_to_numpy(pts, torch), pm.out_to_numpy(vals, torch)
    return pts.detach().cpu().numpy().copy(), vals.detach().cpu().numpy().copy()


def _same(a, b):
    return a.shape == b.shape and np.array_equal(a, b, equal_nan=True)


def judge_rough(res, arr, thr, rough, sfx="", val_tol=None):
    """Clauses (1) and (2).  Returns per-slot status dict: 'invalid' | 'ok' | 'wrong'.
    `sfx` is appended to every bucket (part dtypes: the dtype class); `val_tol(max)` is the allowed
    |reported value - maximum| (default: bit-exact)."""
    B, C, H, W = arr.shape
    pts, vals = rough
    status = {}
    for b in range(B):
        for c in range(C):
            m = arr[b, c]
            mx = m.max()
            x, y, v = float(pts[b, c, 0]), float(pts[b, c, 1]), float(vals[b, c])
            if mx < thr:
                status[(b, c)] = "invalid"
                if not (np.isnan(x) and np.isnan(y)):
                    res.fail("global:below-threshold:coords-not-nan" + sfx, f"(b={b},c={c}) max {float(mx)!r} < thr {thr!r} but coordinates ({x},{y})")
                if not (v == 0.0):
                    res.fail("global:below-threshold:value-not-zero" + sfx, f"(b={b},c={c}) max {float(mx)!r} < thr {thr!r} but value {v!r}")
                continue
            n_at = int((m == mx).sum())
            cls = "tied-maxima" if n_at > 1 else "unique-max"
            status[(b, c)] = "wrong"
            if np.isnan(x) or np.isnan(y):
                res.fail("global:valid-reported-missing" + sfx, f"(b={b},c={c}) max {float(mx)!r} >= thr {thr!r} but coordinates ({x},{y})")
                continue
            if not (x == int(x) and y == int(y) and 0 <= x < W and 0 <= y < H):
                res.fail("global:out-of-range" + sfx, f"(b={b},c={c}) coordinates ({x},{y}) for a {H}x{W} map")
                continue
            if not (m[int(y), int(x)] == mx):
                res.fail(
                    f"global:max-membership:{cls}" + sfx,
                    f"(b={b},c={c}) reported cell (x={int(x)},y={int(y)}) holds {float(m[int(y), int(x)])!r} but the map maximum is {float(mx)!r} "
                    f"(attained {n_at}x, first at {tuple(int(i) for i in np.argwhere(m == mx)[0])[::-1]} as (x,y)); shape {H}x{W}",
                )
            else:
                status[(b, c)] = "ok"
            if not (v == float(mx) if val_tol is None else abs(v - float(mx)) <= val_tol(float(mx))):
                res.fail("global:value" + sfx, f"(b={b},c={c}) reported value {v!r}, map maximum {float(mx)!r}")
    return status


def judge_refined(res, arr, thr, patch, rough, status, refined, prefix="refine", sfx=""):
    """Clause (4): values, NaN pattern, half-patch bound.  Returns per-slot patch class."""
    B, C, H, W = arr.shape
    pts, vals = rough
    rpts, rvals = refined
    if not _same(rvals, vals):
        res.fail(f"{prefix}:values" + sfx, f"peak values changed by refinement: {vals.tolist()} -> {rvals.tolist()}")
    half = patch / 2.0
    pclass = {}
    for b in range(B):
        for c in range(C):
            st_ = status[(b, c)]
            if st_ == "invalid":
                if not np.isnan(rpts[b, c]).all():
                    res.fail(f"{prefix}:invalid-became-valid" + sfx, f"(b={b},c={c}) is below threshold but refined coordinates are {rpts[b, c].tolist()}")
                continue
            if st_ == "wrong":
                res.excluded += 1
                continue
            x, y = int(pts[b, c, 0]), int(pts[b, c, 1])
            pc = pm.patch_class(arr[b, c], y, x, patch)
            pclass[(b, c)] = pc
            res.n_evals += 1
            if pc == "zero-mass":
                res.excluded += 1
                continue
            d = rpts[b, c].astype(np.float64) - pts[b, c].astype(np.float64)
            # patch/2 is the property's bound; with non-negative weights the centre of mass of the
            # sample grid lies within (patch-1)/2, the remaining 0.5 absorbs every rounding effect
            if not (np.isfinite(d).all() and (np.abs(d) <= half).all()):
                key = f"{prefix}:half-patch-bound:" + ("nonneg-patch" if pc == "nonneg" else "negative-patch")
                res.fail(
                    key + sfx,
                    f"(b={b},c={c}) peak at (x={x},y={y}) value {float(vals[b, c])!r} moved by ({float(d[0]):.6g},{float(d[1]):.6g}) with patch {patch} (bound {half}); patch class {pc}",
                )
    return pclass


def evaluate_maps(case):
    layout = case.get("layout") or {"kind": "contiguous"}
    res = _evaluate_maps(case, layout)
    return attribute_layout(res, layout, lambda: _evaluate_maps(case, {"kind": "contiguous"}))


def _evaluate_maps(case, layout):
    import torch

    from sleap_nn.inference.peak_finding import find_global_peaks, find_global_peaks_rough

    res = Result()
    arr = pm.from_case_maps(case["maps"])
    B, C, H, W = arr.shape
    thr = float(case["thr"])
    patch = int(case["patch"])
    probes = _probes(case)

    def cms():
        return build_layout(arr, layout, torch)

    # ---------------- classes / non-triviality (from the input only)
    n_valid = n_invalid = 0
    tie = spread = border = at_thr = False
    for b in range(B):
        for c in range(C):
            m = arr[b, c]
            mx = m.max()
            if mx < thr:
                n_invalid += 1
                continue
            n_valid += 1
            at_thr |= bool(mx == thr)
            cells = np.argwhere(m == mx)
            if len(cells) > 1:
                tie = True
                if len(set(cells[:, 0])) > 1 and len(set(cells[:, 1])) > 1:
                    spread = True
            if H > 1 and W > 1 and any(pm.cell_class(m, int(y), int(x)) != "interior" for y, x in cells):
                border = True
    mixed = n_valid > 0 and n_invalid > 0
    res.nontrivial = bool(mixed or tie or border)
    res.cls(
        f"model={case['model']}",
        f"shape={case['shape']}",
        f"thr={case['thr_kind']}",
        f"patch={patch}",
        "BC=1" if B * C == 1 else ("BC=2-4" if B * C <= 4 else "BC=5+"),
        "channels=mixed-valid-invalid" if mixed else ("channels=all-valid" if n_valid else "channels=all-invalid"),
    )
    noncontig = layout_classes(res, arr, layout, torch)
    res.cls(f"model={case['model']}|layout={layout['kind']}")
    if tie:
        res.cls("tied-maxima")
    if spread:
        res.cls("tied-maxima-on-different-rows-and-columns")
        res.cls("tied-maxima-on-different-rows-and-columns|layout-strides=" + ("noncontiguous" if noncontig else "contiguous"))
    if border:
        res.cls("maximum-on-border-or-corner")
    if at_thr:
        res.cls("maximum-equals-threshold")
    if (arr < 0).any():
        res.cls("has-negative-values")
    for _, _, k in probes:
        res.cls(f"probe={k}")
    res.n_evals = B * C

    # ---------------- (1) (2)
    out = runner.guarded(res, "global", find_global_peaks_rough, cms(), thr)
    if out is runner.FAILED:
        return res
    rough = _struct(res, "global", out, B, C, torch)
    if rough is None:
        return res
    status = judge_rough(res, arr, thr, rough)

    # ---------------- (3) rough
    for b, c, kind in probes:
        blk = _block(kind, b, c)
        nb, nc = rough[1][blk].shape
        one = runner.guarded(res, "independence", find_global_peaks_rough, cms()[blk], thr)
        if one is runner.FAILED:
            continue
        one = _struct(res, "independence", one, nb, nc, torch)
        if one is None:
            continue
        res.n_evals += nb * nc
        if not (_same(one[0], rough[0][blk]) and _same(one[1], rough[1][blk])):
            res.fail(
                "independence:rough",
                f"{kind} probe (b={b},c={c}): inside the batch {rough[0][blk].tolist()} / {rough[1][blk].tolist()}, alone {one[0].tolist()} / {one[1].tolist()}",
            )

    # ---------------- (4)
    g0 = runner.guarded(res, "refine-none", find_global_peaks, cms(), thr, None, patch)
    if g0 is not runner.FAILED:
        g0 = _struct(res, "refine-none", g0, B, C, torch)
        if g0 is not None and not (_same(g0[0], rough[0]) and _same(g0[1], rough[1])):
            res.fail("refine:none-equals-rough", "find_global_peaks(refinement=None) differs from find_global_peaks_rough")
    g1 = runner.guarded(res, "refine", find_global_peaks, cms(), thr, "integral", patch)
    if g1 is runner.FAILED:
        return res
    g1 = _struct(res, "refine", g1, B, C, torch)
    if g1 is None:
        return res
    pclass = judge_refined(res, arr, thr, patch, rough, status, g1)
    for pc in sorted(set(pclass.values())):
        res.cls(f"refine={pc}-patch")

    # ---------------- (3) refined
    for b, c, kind in probes:
        blk = _block(kind, b, c)
        nb, nc = rough[1][blk].shape
        one = runner.guarded(res, "independence", find_global_peaks, cms()[blk], thr, "integral", patch)
        if one is runner.FAILED:
            continue
        one = _struct(res, "independence", one, nb, nc, torch)
        if one is None:
            continue
        slots = [(bb, cc) for bb in range(B)[blk[0]] for cc in range(C)[blk[1]]]
        b0, c0 = slots[0]
        for bb, cc in slots:
            res.n_evals += 1
            a, o = g1[0][bb, cc].astype(np.float64), one[0][bb - b0, cc - c0].astype(np.float64)
            if status[(bb, cc)] == "invalid":
                ok = bool(np.isnan(a).all() and np.isnan(o).all())
            elif status[(bb, cc)] == "ok" and pclass.get((bb, cc)) == "nonneg":
                ok = bool(np.isfinite(a).all() and np.isfinite(o).all() and (np.abs(a - o) <= TOL_INDEP).all())
            else:
                if pclass.get((bb, cc)) == "negative":
                    res.excluded += 1
                continue
            if not ok:
                res.fail("independence:refined", f"{kind} probe (b={b},c={c}), slot (b={bb},c={cc}): refined {a.tolist()} inside the batch, {o.tolist()} alone")

    # ---------------- (7) layout metamorphic: same values, other strides
    if layout["kind"] != "contiguous":
        compare_with_contiguous(res, arr, thr, patch, status, rough, g1, pclass, find_global_peaks_rough, find_global_peaks, torch)
    return res


def compare_with_contiguous(res, arr, thr, patch, status, rough, g1, pclass, f_rough, f_refined, torch, prefix="layout"):
    """Clause (7).  The statement fixes value, NaN pattern and - for a unique maximum - the cell, so
    these must agree with the result for the contiguous copy.  Which of several tied maximal cells is
    reported is NOT fixed by the statement: a different (but maximal) cell is only counted as a class.
    Refined coordinates are compared (TOL_INDEP, as for the single-map re-runs) where both layouts
    start from the same cell and the patch is non-negative."""
    B, C, H, W = arr.shape
    ref = runner.guarded(res, prefix, f_rough, torch.from_numpy(arr.copy()), thr)
    if ref is runner.FAILED:
        return
    ref = _struct(res, prefix, ref, B, C, torch)
    if ref is None:
        return
    rref = runner.guarded(res, prefix, f_refined, torch.from_numpy(arr.copy()), thr, "integral", patch)
    if rref is not runner.FAILED:
        rref = _struct(res, prefix, rref, B, C, torch)
    if rref is runner.FAILED:
        rref = None
    for b in range(B):
        for c in range(C):
            res.n_evals += 1
            if not _same(ref[1][b, c], rough[1][b, c]) or not np.array_equal(np.isnan(ref[0][b, c]), np.isnan(rough[0][b, c])):
                res.fail(
                    f"{prefix}:value-or-validity-differs-from-contiguous",
                    f"(b={b},c={c}) this layout {rough[0][b, c].tolist()} / {float(rough[1][b, c])!r}, contiguous copy {ref[0][b, c].tolist()} / {float(ref[1][b, c])!r}",
                )
                continue
            if status[(b, c)] != "ok":
                continue
            m = arr[b, c]
            if not _same(ref[0][b, c], rough[0][b, c]):
                if int((m == m.max()).sum()) == 1:
                    res.fail(
                        f"{prefix}:cell-differs-from-contiguous:unique-max",
                        f"(b={b},c={c}) this layout {rough[0][b, c].tolist()}, contiguous copy {ref[0][b, c].tolist()}",
                    )
                else:
                    res.cls("layout-changes-tie-break")
                continue
            if rref is None or pclass.get((b, c)) != "nonneg":
                continue
            a, o = g1[0][b, c].astype(np.float64), rref[0][b, c].astype(np.float64)
            if not (np.isfinite(a).all() and np.isfinite(o).all() and (np.abs(a - o) <= TOL_INDEP).all()):
                res.fail(
                    f"{prefix}:refined-differs-from-contiguous",
                    f"(b={b},c={c}) same cell {rough[0][b, c].tolist()}: refined {a.tolist()} for this layout, {o.tolist()} for the contiguous copy (patch {patch})",
                )


# ------------------------------------------------------------------------------------
# bumps


def render_bump(spec, H, W):
    """float32 (H,W) map of one channel spec."""
    kind = spec["kind"]
    if kind == "empty":
        return np.full((H, W), spec.get("level", 0.0), dtype=pm.F32)
    if kind in ("gauss", "low"):
        return pm.gaussian_bump(H, W, spec["cx"], spec["cy"], spec["sigma"], spec["amp"])
    if kind == "symmetric":
        # value table indexed by (|dy|, |dx|); zero outside the table: symmetric under x->-x and y->-y
        t = np.asarray(spec["table"], dtype=np.float64)
        R = t.shape[0] - 1
        m = np.zeros((H, W), dtype=np.float64)
        cy, cx = spec["cell"][1], spec["cell"][0]
        for dy in range(-R, R + 1):
            for dx in range(-R, R + 1):
                yy, xx = cy + dy, cx + dx
                if 0 <= yy < H and 0 <= xx < W:
                    m[yy, xx] = t[abs(dy), abs(dx)]
        return m.astype(pm.F32)
    raise ValueError(kind)


def evaluate_bumps(case):
    layout = case.get("layout") or {"kind": "contiguous"}
    res = _evaluate_bumps(case, layout)
    return attribute_layout(res, layout, lambda: _evaluate_bumps(case, {"kind": "contiguous"}))


def _evaluate_bumps(case, layout):
    import torch

    from sleap_nn.inference.peak_finding import find_global_peaks, find_global_peaks_rough

    res = Result()
    H, W, B, C = case["H"], case["W"], case["B"], case["C"]
    thr = float(case["thr"])
    patch = int(case["patch"])
    specs = case["channels"]  # B*C specs, row-major
    arr = np.zeros((B, C, H, W), dtype=pm.F32)
    for i, sp in enumerate(specs):
        arr[i // C, i % C] = render_bump(sp, H, W)
    kinds = [sp["kind"] for sp in specs]
    n_valid = sum(k in ("gauss", "symmetric") for k in kinds)
    n_invalid = len(kinds) - n_valid
    offs = [max(abs(sp["cx"] - round(sp["cx"])), abs(sp["cy"] - round(sp["cy"]))) for sp in specs if sp["kind"] == "gauss"]
    res.nontrivial = bool((n_valid and n_invalid) or any(o >= STRICT_FROM for o in offs))
    res.cls(
        f"patch={patch}",
        "BC=1" if B * C == 1 else ("BC=2-4" if B * C <= 4 else "BC=5+"),
        "channels=mixed-valid-invalid" if (n_valid and n_invalid) else ("channels=all-valid" if n_valid else "channels=all-invalid"),
    )
    for k in sorted(set(kinds)):
        res.cls(f"bump={k}")
    H_, W_ = int(case["H"]), int(case["W"])
    if max(H_, W_) <= patch + 2:
        res.cls("map=tiny(<=patch+2)", "map=exactly-patch-size" if (H_, W_) == (patch, patch) else "map=near-patch-size")
    if n_invalid and kinds[0] not in ("gauss", "symmetric"):
        res.cls("invalid-channel-before-valid" if n_valid else "all-invalid")
    layout_classes(res, arr, layout, torch)
    res.n_evals = 0

    out = runner.guarded(res, "global", find_global_peaks_rough, build_layout(arr, layout, torch), thr)
    if out is runner.FAILED:
        return res
    rough = _struct(res, "global", out, B, C, torch)
    if rough is None:
        return res
    status = judge_rough(res, arr, thr, rough)
    g1 = runner.guarded(res, "bump", find_global_peaks, build_layout(arr, layout, torch), thr, "integral", patch)
    if g1 is runner.FAILED:
        return res
    g1 = _struct(res, "bump", g1, B, C, torch)
    if g1 is None:
        return res
    judge_refined(res, arr, thr, patch, rough, status, g1, prefix="bump")
    pts, _ = rough
    rpts, _ = g1
    for i, sp in enumerate(specs):
        b, c = i // C, i % C
        kind = sp["kind"]
        res.n_evals += 1
        if kind in ("empty", "low"):
            if status[(b, c)] != "invalid":
                raise runner.HarnessError(f"bump generator: channel {i} ({kind}) is not below the threshold")
            continue
        if status[(b, c)] != "ok":
            if status[(b, c)] == "invalid":
                raise runner.HarnessError(f"bump generator: channel {i} ({kind}) is below the threshold")
            continue
        r = rpts[b, c].astype(np.float64)
        g = pts[b, c].astype(np.float64)
        if kind == "symmetric":
            cell = np.asarray(sp["cell"], dtype=np.float64)
            if not (g == cell).all():
                raise runner.HarnessError(f"bump generator: symmetric bump {sp} has its maximum at {g.tolist()}")
            d = np.abs(r - g)
            if not (np.isfinite(d).all() and (d <= TOL_SYM).all()):
                res.fail(
                    "bump:symmetric-unmoved" + (":window-overhangs-border" if sp.get("overhang") else ""),
                    f"(b={b},c={c}) symmetric bump centred on cell {cell.tolist()} refined to {r.tolist()} (patch {patch}, map {H}x{W})",
                )
        else:
            true = np.asarray([sp["cx"], sp["cy"]], dtype=np.float64)
            if not (g == np.round(true)).all():
                raise runner.HarnessError(f"bump generator: gaussian {sp} has its rough peak at {g.tolist()}")
            e_rough = np.abs(g - true)
            e_ref = np.abs(r - true)
            for ax, name in enumerate("xy"):
                if not np.isfinite(e_ref[ax]) or e_ref[ax] > e_rough[ax] + TOL_TOWARD:
                    res.fail(
                        "bump:moves-toward-centre:farther",
                        f"(b={b},c={c}) axis {name}: true {float(true[ax])!r} rough {float(g[ax])!r} refined {float(r[ax])!r} sigma {sp['sigma']} patch {patch}",
                    )
                elif e_rough[ax] >= STRICT_FROM and not (e_ref[ax] < e_rough[ax] - TOL_TOWARD):
                    res.fail(
                        "bump:moves-toward-centre:not-moved",
                        f"(b={b},c={c}) axis {name}: true {float(true[ax])!r} rough {float(g[ax])!r} refined {float(r[ax])!r} sigma {sp['sigma']} patch {patch}",
                    )
    res.n_evals = max(1, res.n_evals)
    return res


# ------------------------------------------------------------------------------------
# dtypes: the maps in every floating point type the peak finders accept


def dtype_classes(res, dtype, arr, thr):
    """Class labels of the dtype axis, from the input only.  Returns (n_valid, n_invalid, sensitive)
    where sensitive = some map has two distinct top values, or maximum and threshold, closer than
    1e-2 relative, or values below 1e-15 in magnitude (the classes a narrower type cannot tell apart)."""
    B, C = arr.shape[:2]
    n_valid = n_invalid = 0
    sens = False
    for b in range(B):
        for c in range(C):
            m = arr[b, c]
            mx = float(m.max())
            n_valid += mx >= thr
            n_invalid += mx < thr
            g = pm.top_gap_class(m)
            if g:
                sens = True
                res.cls(f"dtype={dtype}|top-two-values-differ-by{g}")
            t = pm.thr_gap_class(mx, thr)
            if t:
                sens = True
                res.cls(f"dtype={dtype}|{t}")
            if 0 < abs(mx) < 1e-15:
                sens = True
                res.cls(f"dtype={dtype}|magnitude" + ("<1e-44" if abs(mx) < 1e-44 else "<1e-15"))
    return n_valid, n_invalid, sens


def evaluate_dtypes(case):
    import torch

    from sleap_nn.inference.peak_finding import find_global_peaks, find_global_peaks_rough

    res = Result()
    dtype = case["dtype"]
    arr = np.asarray(case["maps"], dtype=np.float64)
    B, C, H, W = arr.shape
    thr = float(case["thr"])
    patch = int(case["patch"])
    sfx = f":dtype={dtype}"
    ok_dt = (torch.float32, getattr(torch, dtype))

    def cms():
        return pm.to_tensor(arr, dtype, torch)

    def tol(v):
        return pm.value_tol(dtype, v)

    n_valid, n_invalid, sens = dtype_classes(res, dtype, arr, thr)
    mixed = n_valid > 0 and n_invalid > 0
    res.nontrivial = bool(sens or mixed)
    res.cls(
        f"dtype={dtype}",
        f"dtype={dtype}|model={case['model']}",
        f"thr={case['thr_kind']}",
        f"patch={patch}",
        "channels=mixed-valid-invalid" if mixed else ("channels=all-valid" if n_valid else "channels=all-invalid"),
    )
    res.n_evals = B * C

    # (1) (2) in the map's own dtype: membership of the reported cell is exact, the value may be
    # rounded to the documented float32 output type
    out = runner.guarded(res, "global", find_global_peaks_rough, cms(), thr)
    if out is runner.FAILED:
        return res
    rough = _struct(res, "global", out, B, C, torch, ok_dt)
    if rough is None:
        return res
    status = judge_rough(res, arr, thr, rough, sfx=sfx, val_tol=tol)

    # (3) one map alone
    b, c = int(case["probe"][0]), int(case["probe"][1])
    one = runner.guarded(res, "independence", find_global_peaks_rough, cms()[b : b + 1, c : c + 1], thr)
    if one is not runner.FAILED:
        one = _struct(res, "independence", one, 1, 1, torch, ok_dt)
        if one is not None:
            res.n_evals += 1
            if not (_same(one[0][0, 0], rough[0][b, c]) and _same(one[1][0, 0], rough[1][b, c])):
                res.fail(
                    "independence:rough" + sfx,
                    f"(b={b},c={c}): inside the batch {rough[0][b, c].tolist()} / {float(rough[1][b, c])!r}, alone {one[0][0, 0].tolist()} / {float(one[1][0, 0])!r}",
                )

    # (4)
    g0 = runner.guarded(res, "refine-none", find_global_peaks, cms(), thr, None, patch)
    if g0 is not runner.FAILED:
        g0 = _struct(res, "refine-none", g0, B, C, torch, ok_dt)
        if g0 is not None and not (_same(g0[0], rough[0]) and _same(g0[1], rough[1])):
            res.fail("refine:none-equals-rough" + sfx, "find_global_peaks(refinement=None) differs from find_global_peaks_rough")
    g1 = runner.guarded(res, "refine", find_global_peaks, cms(), thr, "integral", patch)
    if g1 is runner.FAILED:
        return res
    g1 = _struct(res, "refine", g1, B, C, torch, ok_dt)
    if g1 is None:
        return res
    judge_refined(res, arr, thr, patch, rough, status, g1, sfx=sfx)
    return res


# ------------------------------------------------------------------------------------
# strategies


def strategy_maps():
    from hypothesis import strategies as st

    @st.composite
    def build(draw):
        # value model and memory layout are ONE choice, so that every pair (in particular tied maxima x
        # each non-contiguous layout) is reached as often as its weight says
        model, lkind = draw(st.sampled_from(MODEL_LAYOUT_PAIRS))
        shape_cls, B, C, H, W, model, arr = pm.draw_maps(draw, st, [model])
        layout = draw_layout(draw, st, lkind)
        expand_values(arr, layout)
        thr_kind, thr = pm.draw_threshold(draw, st, arr)
        # per-channel validity edits: push below thr / max == thr / max one ulp below thr
        mode = draw(st.sampled_from(["none", "none", "some", "some", "some", "all-below"]))
        if mode != "none":
            for b in range(B):
                for c in range(C):
                    how = "below" if mode == "all-below" else draw(st.sampled_from(["keep", "keep", "below", "below", "at", "ulp-below"]))
                    m = arr[b, c]
                    mx = float(m.max())
                    if how == "below":
                        arr[b, c] = (m.astype(np.float64) - (mx - thr) - draw(st.sampled_from([0.5, 0.25, 1.0]))).astype(pm.F32)
                    elif how == "at":
                        m[m == m.max()] = pm.F32(thr)
                        arr[b, c] = np.minimum(m, pm.F32(thr))
                    elif how == "ulp-below":
                        lim = pm.F32(pm.next_below(thr))
                        m[m == m.max()] = lim
                        arr[b, c] = np.minimum(m, lim)
        patch = draw(st.sampled_from([3, 3, 5, 5, 5, 7, 4, 4]))
        expand_values(arr, layout)  # the per-channel edits above must not break the expanded axis
        slots = [(b, c) for b in range(B) for c in range(C)]
        if len(slots) > 3:
            slots = draw(st.lists(st.sampled_from(slots), min_size=3, max_size=3, unique=True))
        # a probe re-runs one map alone, one whole channel (cms[:, c:c+1]: strided whenever B > 1) or one
        # whole sample (cms[b:b+1]); for B*C == 1 all three are the batch itself
        kinds = [draw(st.sampled_from(PROBE_KINDS)) if B * C > 1 else "cell" for _ in slots]
        return {
            "model": model,
            "shape": shape_cls,
            "thr_kind": thr_kind,
            "thr": thr,
            "patch": patch,
            "probes": [[s[0], s[1], k] for s, k in zip(slots, kinds)],
            "layout": layout,
            "maps": pm.to_case_maps(arr),
        }

    return build()


def strategy_bumps():
    from hypothesis import strategies as st

    @st.composite
    def build(draw):
        patch = draw(st.sampled_from([3, 5, 5, 7, 4]))
        reach = pm.patch_reach(patch)
        margin = reach + 1
        # "tiny": maps about as large as the refinement patch itself (the extreme of the legal size range: the
        # patch window then covers the whole map and overhangs it for every off-centre peak)
        tiny = draw(st.integers(0, 4)) == 0
        if tiny:
            H = max(2, patch + draw(st.sampled_from([-1, 0, 0, 0, 1, 2])))
            W = max(2, patch + draw(st.sampled_from([-1, 0, 0, 0, 1, 2]))) if draw(st.integers(0, 2)) else H
        else:
            H = draw(st.integers(2 * margin + 1, 2 * margin + 8))
            W = draw(st.integers(2 * margin + 1, 2 * margin + 8))
        B = draw(st.integers(1, 2))
        C = draw(st.integers(1, 4))
        thr = pm.f32(draw(st.sampled_from([0.1, 0.2, 0.2, 0.3])))
        kinds_pool = ["gauss", "gauss", "gauss", "symmetric", "symmetric", "empty", "low"] if patch != 4 else ["symmetric", "symmetric", "empty", "low"]
        if tiny:
            kinds_pool = ["symmetric", "symmetric", "symmetric", "empty"]  # no room for the margins a Gaussian bump needs
        chans = []
        for _ in range(B * C):
            kind = draw(st.sampled_from(kinds_pool))
            if kind == "empty":
                chans.append({"kind": "empty", "level": draw(st.sampled_from([0.0, 0.0, 0.05]))})
                continue
            cellx = draw(st.integers(margin, W - 1 - margin)) if not tiny else draw(st.integers(0, W - 1))
            celly = draw(st.integers(margin, H - 1 - margin)) if not tiny else draw(st.integers(0, H - 1))
            if kind in ("gauss", "low"):
                fx = draw(st.floats(-0.49, 0.49, allow_nan=False))
                fy = draw(st.floats(-0.49, 0.49, allow_nan=False))
                if draw(st.integers(0, 5)) == 0:
                    fx = draw(st.sampled_from([0.0, 0.49, -0.49, 0.25]))
                sigma = draw(st.floats(0.6, 3.0, allow_nan=False))
                amp = draw(st.sampled_from([0.75, 1.0, 1.0, 2.0])) if kind == "gauss" else thr * draw(st.sampled_from([0.5, 0.9]))
                chans.append({"kind": kind, "cx": cellx + fx, "cy": celly + fy, "sigma": sigma, "amp": float(amp)})
                continue
            # symmetric bump: table over (|dy|,|dx|), centre strictly largest
            overhang = tiny or draw(st.integers(0, 3)) == 0
            R = draw(st.integers(0, min(3, (min(H, W) - 1) // 2) if overhang else 3))
            if overhang and tiny:
                # any cell whose support (radius R) lies inside the map
                cellx = draw(st.integers(R, W - 1 - R))
                celly = draw(st.integers(R, H - 1 - R))
            elif overhang:
                # support inside the map, window allowed to overhang the border (zero padding == zeros)
                cellx = draw(st.sampled_from([R, W - 1 - R, cellx]))
                celly = draw(st.sampled_from([R, H - 1 - R, celly]))
            top = draw(st.sampled_from([0.5, 1.0, 1.5]))
            table = []
            for i in range(R + 1):
                row = []
                for j in range(R + 1):
                    if i == 0 and j == 0:
                        row.append(top)
                    else:
                        row.append(pm.f32(top * draw(st.floats(0.0, 0.9375, allow_nan=False, width=32))))
                table.append(row)
            chans.append({"kind": "symmetric", "cell": [cellx, celly], "table": table, "overhang": bool(overhang)})
        layout = draw_layout(draw, st, draw(st.sampled_from(LAYOUTS)))
        if layout["kind"] == "expanded":  # identical channel specs along the expanded axis
            for i in range(B * C):
                chans[i] = chans[i % C] if layout["dim"] == 0 else chans[(i // C) * C]
        return {"patch": patch, "H": H, "W": W, "B": B, "C": C, "thr": thr, "channels": chans, "layout": layout}

    return build()


def strategy_dtypes():
    from hypothesis import strategies as st

    @st.composite
    def build(draw):
        # map dtype and value model are ONE choice
        dtype, model = draw(st.sampled_from(pm.DTYPE_MODEL_PAIRS))
        B, C, H, W, arr, thr_kind, thr = pm.draw_dtype_maps(draw, st, dtype, model)
        return {
            "dtype": dtype,
            "model": model,
            "thr_kind": thr_kind,
            "thr": thr,
            "patch": draw(st.sampled_from([3, 5, 5, 7, 4])),
            "probe": [draw(st.integers(0, B - 1)), draw(st.integers(0, C - 1))],
            "maps": arr.tolist(),
        }

    return build()


def parts(tier):
    return [
        Part(
            name="maps",
            evaluate=evaluate_maps,
            strategy=strategy_maps,
            budget={"quick": 1200, "thorough": 180000},
            shards={"quick": 1, "thorough": 16},
            min_nontrivial={"quick": 260, "thorough": 6000},
        ),
        Part(
            name="bumps",
            evaluate=evaluate_bumps,
            strategy=strategy_bumps,
            budget={"quick": 500, "thorough": 60000},
            shards={"quick": 1, "thorough": 16},
            min_nontrivial={"quick": 95, "thorough": 1800},
        ),
        Part(
            name="dtypes",
            evaluate=evaluate_dtypes,
            strategy=strategy_dtypes,
            budget={"quick": 450, "thorough": 48000},
            shards={"quick": 1, "thorough": 16},
            min_nontrivial={"quick": 100, "thorough": 1500},
        ),
    ]


if __name__ == "__main__":
    runner.main(__name__)
