"""C03 - bottom-up inference reassembles exactly the labelled animals from ideal maps.

The real `BottomUpInferenceModel.forward` (+ real `PAFScorer`) is driven with a
`TableNet` that returns the ideal multi-animal confidence maps and part-affinity fields
for the keypoints *as the network sees them* (ground truth x eff_scale x input_scale).
Quick tier renders the ideal maps with the repo's own target generators (they are what a
network is trained to reproduce); thorough tier repeats every case with the independent
numpy renderer `vlib.ref_render` (differential second source).

Oracle: expected groups = connected components (size >= 2) of each animal's visible nodes
under visible-endpoint skeleton edges; the returned instances, as a set of
{node -> coordinate} partial maps, equal the expected set: same count, each expected group
matched by exactly one instance with exactly those nodes non-NaN, each within half a
confidence-map cell in original-image coordinates; nothing else returned; frames keep
their order.  "Well-separated" and "resolvable" are *constructed* (grid cells with gaps,
sigma_paf tied to the PAF stride, edges >= 4 PAF cells) and re-verified on the explicit
case with an independent line-score sampler; a case that fails that self-check is
counted as rejected (generator precondition unmet), never judged.
"""

import math

from vlib import runner, scenes
from vlib.runner import Part, Result

PROPERTY = "C03"
LEVEL = "exploration"
RULE = (
    "a case is a tree skeleton (2..6 nodes, random labelling and edge order) + 1..5 separated animals with a drawn "
    "visibility pattern per animal + network input size + (cms stride, paf stride) + input_scale + per-frame eff_scale "
    "+ refinement + batch of 1..3 frames (empty frames mixed in); non-trivial = at least 2 animals in some frame and "
    "(a missing node, or unequal strides, or a scale != 1)"
)
ASSUMPTIONS = [
    "ideal maps are the repo's own training targets for the scaled keypoints (quick) and the independent vlib.ref_render maps (thorough)",
    "resolvability is constructed: the PAF ridge must be readable from detected (grid-aligned) peaks, so sigma_paf = 1.2*(0.71*paf_stride + 0.64*cms_stride)^2 px "
    "(target weight is exp(-d^4/2sigma^2)), edge length >= 4 PAF cells and <= 0.8*max_edge_length; "
    "re-verified per case with an independent nearest-cell line sampler (true edges >= 0.5, false candidates <= 0.2 < min_line_scores; the two end points of a cross-animal candidate lie on real ridges, so such a line can score up to 2/n_points whatever the separation: n_points >= 8), else rejected",
    "keypoints are in general position on the confidence-map grid (|frac| <= 0.45 cell) and >= 4 cells from the border",
    "forward-level observation point (no image resizing is involved), so the tolerance is the bare half cell",
]


def render_repo(frame_pts, n_nodes, edges, H, W, cs, ps, sig_cm, sig_paf):
    import torch
    from sleap_nn.data.confidence_maps import generate_multiconfmaps
    from sleap_nn.data.edge_maps import generate_pafs

    n_inst = max(1, len(frame_pts))
    inst = torch.full((1, n_inst, n_nodes, 2), float("nan"))
    for a, pts in enumerate(frame_pts):
        for n, p in enumerate(pts):
            if p is not None:
                inst[0, a, n, 0], inst[0, a, n, 1] = p[0], p[1]
    cms = generate_multiconfmaps(inst, img_hw=(H, W), num_instances=n_inst, sigma=sig_cm, output_stride=cs, is_centroids=False)
    pafs = generate_pafs(inst, img_hw=(H, W), sigma=sig_paf, output_stride=ps, edge_inds=torch.Tensor(edges), flatten_channels=True)
    return cms[0].to(torch.float32), pafs.reshape(-1, pafs.shape[-2], pafs.shape[-1]).to(torch.float32)


def render_ref(frame_pts, n_nodes, edges, H, W, cs, ps, sig_cm, sig_paf):
    import numpy as np
    import torch
    from vlib import ref_render

    n_inst = max(1, len(frame_pts))
    inst = np.full((n_inst, n_nodes, 2), np.nan)
    for a, pts in enumerate(frame_pts):
        for n, p in enumerate(pts):
            if p is not None:
                inst[a, n] = p
    cms = ref_render.ref_multi_confmaps(inst, H, W, cs, sig_cm)
    # fourth-power falloff like the training targets (any ridge with weight 1 on the segment is "ideal")
    pafs = ref_render.ref_pafs(inst, edges, H, W, ps, sig_paf, weight=lambda d: np.exp(-(d**4) / (2 * sig_paf**2)))
    return torch.from_numpy(np.asarray(cms, dtype=np.float32)), torch.from_numpy(np.asarray(pafs, dtype=np.float32).reshape(-1, pafs.shape[-2], pafs.shape[-1]))


def line_score(pafs, e, a, b, ps, n_points):
    """Independent sampler: mean dot product of PAF edge e with the unit vector a->b at nearest cells."""
    import numpy as np

    v = np.array([b[0] - a[0], b[1] - a[1]], dtype=np.float64)
    L = np.linalg.norm(v)
    if L == 0:
        return 0.0
    u = v / L
    tot = 0.0
    h, w = pafs.shape[-2:]
    for t in np.linspace(0, 1, n_points):
        x = a[0] + t * v[0]
        y = a[1] + t * v[1]
        col = min(max(int(round(x / ps)), 0), w - 1)
        row = min(max(int(round(y / ps)), 0), h - 1)
        tot += float(pafs[2 * e, row, col]) * u[0] + float(pafs[2 * e + 1, row, col]) * u[1]
    return tot / n_points


def evaluate(case, renderer="repo"):
    import numpy as np
    import torch
    from sleap_nn.inference.bottomup import BottomUpInferenceModel
    from sleap_nn.inference.paf_grouping import PAFScorer
    from vlib.nets import TableNet

    res = Result()
    n, edges = case["n_nodes"], case["edges"]
    H, W, cs, ps = case["H"], case["W"], case["cms_stride"], case["paf_stride"]
    s_in = case["input_scale"]
    names = [f"n{i}" for i in range(n)]
    render = render_repo if renderer == "repo" else render_ref
    table, ok, why = {}, True, set()
    max_len = case["max_edge_length_ratio"] * max(H // ps, W // ps) * ps
    for fi, fr in enumerate(case["frames"]):
        cms, pafs = runner.guarded(res, "render", render, fr, n, edges, H, W, cs, ps, case["sigma_cm"], case["sigma_paf"])
        table[fi] = {"MultiInstanceConfmapsHead": cms, "PartAffinityFieldsHead": pafs}
        # ---- generator self-check on the REFERENCE field (independent renderer + independent sampler, layout as
        # stated by the property): the scene geometry must make true edges readable and false candidates not.
        # (Checking the repo-rendered field instead would turn a layout bug of the target generator into "rejected".)
        pn = render_ref(fr, n, edges, H, W, cs, ps, case["sigma_cm"], case["sigma_paf"])[1].numpy() if renderer == "repo" else pafs.numpy()
        for e, (s, d) in enumerate(edges):
            srcs = [(a, an[s]) for a, an in enumerate(fr) if an[s] is not None]
            dsts = [(a, an[d]) for a, an in enumerate(fr) if an[d] is not None]
            for a1, p in srcs:
                for a2, q in dsts:
                    # the scorer reads the field along the line between the DETECTED peaks, which may sit up to
                    # half a confidence-map cell off the true keypoints: check both the true and the cell-snapped line
                    snap = lambda v: round(v / cs) * cs  # noqa: E731
                    sc = line_score(pn, e, p, q, ps, case["n_points"])
                    sc2 = line_score(pn, e, [snap(p[0]), snap(p[1])], [snap(q[0]), snap(q[1])], ps, case["n_points"])
                    sc = min(sc, sc2) if a1 == a2 else max(sc, sc2)
                    L = math.hypot(q[0] - p[0], q[1] - p[1])
                    if L > max_len:
                        sc += (max_len / L) - 1
                    if a1 == a2 and sc < 0.5:
                        ok = False
                        why.add("true-edge-unreadable")
                    if a1 != a2 and sc > 0.2:
                        ok = False
                        why.add("false-candidate-scores")
    if not ok:
        res.rejected = True
        res.cls(*[f"rejected:{w}" for w in sorted(why)])
        return res
    scorer = PAFScorer(
        part_names=names, edges=[(names[s], names[d]) for s, d in edges], pafs_stride=ps,
        max_edge_length_ratio=case["max_edge_length_ratio"], n_points=case["n_points"], min_instance_peaks=0, min_line_scores=0.25,
    )
    model = BottomUpInferenceModel(
        torch_model=TableNet(table), paf_scorer=scorer, cms_output_stride=cs, pafs_output_stride=ps,
        peak_threshold=0.2, refinement=case["refinement"], integral_patch_size=5, input_scale=s_in,
    )
    B = len(case["frames"])
    img = torch.zeros(B, 1, 1, H, W)
    for b in range(B):
        img[b, 0, 0, 0, 0] = b / 255.0
    inputs = {
        "image": img, "frame_idx": torch.arange(B, dtype=torch.int32) + 7, "video_idx": torch.zeros(B, dtype=torch.int32),
        "orig_size": torch.tensor([[H, W]] * B, dtype=torch.float32), "eff_scale": torch.tensor(case["eff_scales"], dtype=torch.float32),
    }
    out = runner.guarded(res, f"forward:{renderer}", model, inputs)
    if out is runner.FAILED:
        return res
    out = out[0]
    res.n_evals = 0
    any_multi, any_missing = False, False
    for b, fr in enumerate(case["frames"]):
        res.n_evals += 1
        s_tot = s_in * case["eff_scales"][b]
        tol = 0.5 * cs / s_tot + 1e-3
        pred = out["pred_instance_peaks"][b].numpy().reshape(-1, n, 2)
        vals = out["pred_peak_values"][b].numpy().reshape(-1, n)
        if int(out["frame_idx"][b]) != b + 7:
            res.fail(f"{renderer}:frame-order", f"record {b} carries frame_idx {int(out['frame_idx'][b])}")
        exp = []
        for an in fr:
            for comp in scenes.expected_groups(an, edges):
                exp.append({k: [an[k][0] / s_tot, an[k][1] / s_tot] for k in comp})
        any_multi |= len(fr) >= 2
        any_missing |= any(p is None for an in fr for p in an)
        got = []
        for k in range(pred.shape[0]):
            nodes = [i for i in range(n) if not np.isnan(pred[k, i]).any()]
            if nodes:
                got.append({i: pred[k, i].tolist() for i in nodes})
                if any(not (vals[k, i] > 0.2) for i in nodes):
                    res.fail(f"{renderer}:peak-value", f"frame {b}: instance {k} has a keypoint whose value is not above the threshold: {vals[k].tolist()}")
        used = set()
        for g in exp:
            match = [k for k, p in enumerate(got) if k not in used and set(p) == set(g) and all(max(abs(p[i][0] - g[i][0]), abs(p[i][1] - g[i][1])) <= tol for i in g)]
            if len(match) >= 1:
                used.add(match[0])
            else:
                near = [k for k, p in enumerate(got) if set(p) & set(g) and all(max(abs(p[i][0] - g[i][0]), abs(p[i][1] - g[i][1])) <= 4 * tol for i in set(p) & set(g))]
                if near and set(got[near[0]]) != set(g):
                    cls = "wrong-node-set"
                elif near:
                    cls = "coordinate-error"
                else:
                    cls = "missing-instance"
                res.fail(
                    f"{renderer}:{cls}",
                    f"frame {b}: expected group {sorted(g)} at {[[round(v, 2) for v in g[i]] for i in sorted(g)]} (tol {tol:.2f}) not returned; "
                    f"returned {[{i: [round(v, 2) for v in p[i]] for i in p} for p in got]}",
                )
        extra = [k for k in range(len(got)) if k not in used]
        if extra and len(used) == len(exp):
            res.fail(f"{renderer}:extra-instance", f"frame {b}: {len(extra)} returned instances match no expected group: {[got[k] for k in extra][:2]}")
    res.nontrivial = any_multi and (any_missing or cs != ps or s_in != 1.0 or any(e != 1.0 for e in case["eff_scales"]))
    res.cls(f"strides={cs}/{ps}", f"n_nodes={n}", f"input_scale={s_in}", f"refine={case['refinement']}", f"B={B}",
            "has_missing" if any_missing else "all_visible", f"animals={max(len(f) for f in case['frames'])}")
    res.n_evals = max(1, res.n_evals)
    return res


def evaluate_both(case):
    r1 = evaluate(case, "repo")
    if r1.rejected:
        return r1
    r2 = evaluate(case, "ref")
    r1.failures += r2.failures
    r1.n_evals += r2.n_evals
    return r1


# ----------------------------------------------------------------------------------
# predictor level: real BottomUpPredictor + make_pipeline + predict(make_labels=False) on
# coordinate-encoding frames with a content-driven ideal network (scaling, size matching,
# stride padding and both providers are exercised; tolerance and helpers as in C02)


def run_predictor(case, provider, slp, paths, skel):
    from omegaconf import OmegaConf
    from sleap_nn.inference.predictors import BottomUpPredictor
    from checks import c02
    from vlib.nets import RampBottomUpNet

    eff = c02.sizematch(case["h"], case["w"], case["max_h"], case["max_w"])[0]
    s_tot = case["scale"] * eff
    gt = {fid: animals for fid, animals in enumerate(case["frames"])}
    cs, ps = case["stride"], case["paf_stride"]
    r = (0.71 * ps + 0.64 * cs) / s_tot  # worst off-ridge distance of a line between grid-aligned peaks (orig px)
    net = RampBottomUpNet(gt, case["n_nodes"], case["edges"], cs, ps, 1.5 * cs / s_tot, 1.3 * r)
    names = [n.name for n in skel.nodes]
    cfg = OmegaConf.create(
        {
            "data_config": {"preprocessing": {"scale": case["scale"], "is_rgb": True, "max_height": case["max_h"], "max_width": case["max_w"]}},
            "model_config": {
                "backbone_config": {"unet": {"max_stride": case["max_stride"]}},
                "head_configs": {"bottomup": {
                    "confmaps": {"output_stride": cs, "part_names": names},
                    "pafs": {"output_stride": ps, "edges": [[names[a], names[b]] for a, b in case["edges"]]},
                }},
            },
        }
    )
    pred = BottomUpPredictor(
        bottomup_config=cfg, bottomup_model=net, backbone_type="unet", skeletons=[skel], peak_threshold=0.2,
        integral_refinement=case["refinement"], integral_patch_size=5, batch_size=case["batch"], n_points=10,
        max_edge_length_ratio=1.0,
    )
    pred._initialize_inference_model()
    pred.make_pipeline(provider, slp if provider == "LabelsReader" else paths, queue_maxsize=4)
    out = pred.predict(make_labels=False)
    recs = {}
    for o in out:
        for j in range(len(o["frame_idx"])):
            recs[int(o["frame_idx"][j])] = o["pred_instance_peaks"][j].reshape(-1, case["n_nodes"], 2)
    return recs


def evaluate_predictor(case):
    import shutil

    import numpy as np
    from checks import c02
    from vlib import env

    res = Result()
    eff = c02.sizematch(case["h"], case["w"], case["max_h"], case["max_w"])[0]
    s_tot = case["scale"] * eff
    for animals in case["frames"]:
        for an in animals:
            for p in an:
                if p is not None and (c02.grid_frac(p[0], case["stride"], s_tot) > 0.45 or c02.grid_frac(p[1], case["stride"], s_tot) > 0.45):
                    res.rejected = True
                    res.cls("rejected:keypoint-not-in-general-position")
                    return res
    tol, _ = c02.tolerance(dict(case, kind="single", image="ramp"), "single")
    d = env.scratch_dir("c03")
    try:
        c = dict(case, image="ramp")
        # c02.build_inputs builds a chain skeleton; rebuild the labels with this case's tree below
        slp, paths, skel = build_tree_inputs(c, d)
        results = {}
        res.n_evals = 0
        for provider in ("VideoReader", "LabelsReader"):
            recs = runner.guarded(res, f"predictor:{provider}", run_predictor, case, provider, slp, paths, skel)
            if recs is runner.FAILED:
                continue
            results[provider] = recs
            for fid, animals in enumerate(case["frames"]):
                res.n_evals += 1
                exp = []
                for an in animals:
                    for comp in scenes.expected_groups(an, case["edges"]):
                        exp.append({k: an[k] for k in comp})
                pred = recs.get(fid)
                got = []
                if pred is not None:
                    for k in range(pred.shape[0]):
                        nodes = [i for i in range(case["n_nodes"]) if not np.isnan(pred[k, i]).any()]
                        if nodes:
                            got.append({i: pred[k, i].tolist() for i in nodes})
                used = set()
                for g in exp:
                    match = [k for k, p in enumerate(got) if k not in used and set(p) == set(g) and all(max(abs(p[i][0] - g[i][0]), abs(p[i][1] - g[i][1])) <= tol for i in g)]
                    if match:
                        used.add(match[0])
                        continue
                    near = [p for p in got if set(p) & set(g) and all(max(abs(p[i][0] - g[i][0]), abs(p[i][1] - g[i][1])) <= 4 * tol + 2 for i in set(p) & set(g))]
                    cls = "missing-instance" if not near else ("wrong-node-set" if set(near[0]) != set(g) else "coordinate-error")
                    res.fail(f"predictor:{provider}:{cls}", f"frame {fid}: expected {g} (tol {tol:.2f}) not returned; got {[{i: [round(v, 2) for v in p[i]] for i in p} for p in got]}; cfg={ {k: v for k, v in case.items() if k != 'frames'} }")
                if len(used) == len(exp) and len(got) > len(exp):
                    res.fail(f"predictor:{provider}:extra-instance", f"frame {fid}: {len(got)} instances for {len(exp)} expected groups")
        if len(results) == 2:
            a, b = results["VideoReader"], results["LabelsReader"]
            ok = set(a) == set(b)
            diff = 0.0
            if ok:
                for fid in a:
                    if a[fid].shape != b[fid].shape or not np.array_equal(np.isnan(a[fid]), np.isnan(b[fid])):
                        ok = False
                    else:
                        dd = np.nan_to_num(np.abs(a[fid] - b[fid]), nan=0.0)
                        diff = max(diff, float(dd.max()) if dd.size else 0.0)
            if not ok or diff > 1e-4:
                res.fail("predictor:providers-differ", f"LabelsReader and VideoReader outputs differ (max diff {diff:.3f}, same structure {ok})")
        multi = any(len(f) >= 2 for f in case["frames"])
        missing = any(p is None for f in case["frames"] for an in f for p in an)
        res.nontrivial = (multi or missing) and (case["scale"] != 1.0 or eff != 1.0 or case["stride"] != case["paf_stride"])
        res.cls("predictor", f"pred:scale={case['scale']}", f"pred:strides={case['stride']}/{case['paf_stride']}", "pred:sizematch" if eff != 1.0 else "pred:no-sizematch")
        res.n_evals = max(1, res.n_evals)
        return res
    finally:
        shutil.rmtree(d, ignore_errors=True)


def build_tree_inputs(case, d):
    import os

    import imageio.v3 as iio
    import numpy as np
    import sleap_io as sio
    from vlib import synth
    from vlib.nets import RampNet

    try:
        sio.set_default_image_plugin("imageio")
    except Exception:  # noqa: BLE001
        pass
    h, w, n = case["h"], case["w"], case["n_nodes"]
    paths = []
    for fid in range(len(case["frames"])):
        img = synth.ramp_image(h, w, "rgb")
        img[..., 2] = RampNet.level(fid)
        p = os.path.join(d, f"f{fid:03d}.png")
        iio.imwrite(p, img)
        paths.append(p)
    names = [f"n{i}" for i in range(n)]
    skel = sio.Skeleton(nodes=names, edges=[(names[a], names[b]) for a, b in case["edges"]])
    video = sio.Video.from_filename(paths)
    lfs = []
    for fid, animals in enumerate(case["frames"]):
        insts = [sio.Instance.from_numpy(points_data=np.array([[math.nan, math.nan] if p is None else p for p in an], dtype=np.float64).reshape(n, 2), skeleton=skel) for an in animals]
        if not insts:  # a labeled frame needs an instance object; an all-NaN one carries no keypoints
            insts = [sio.Instance.from_numpy(points_data=np.full((n, 2), np.nan), skeleton=skel)]
        lfs.append(sio.LabeledFrame(video=video, frame_idx=fid, instances=insts))
    labels = sio.Labels(labeled_frames=lfs, videos=[video], skeletons=[skel])
    slp = os.path.join(d, "labels.slp")
    labels.save(slp, embed=False)
    return slp, paths, skel


def strategy_predictor():
    from hypothesis import strategies as st
    from checks import c02

    @st.composite
    def case(draw):
        cs, ps, scale = draw(st.sampled_from([(c, p, s) for c in (1, 2, 4) for p in (1, 2, 4) for s in (1.0, 0.5, 0.75, 1.5) if max(c, p) / s <= 8]))
        n, edges = draw(scenes.tree_strategy(st, 2, 4))
        refinement = draw(st.sampled_from([None, "integral"]))
        smc = draw(st.sampled_from(["none", "equal", "larger", "smaller"]))
        eff_guess = {"none": 1.0, "equal": 1.0, "larger": 1.15, "smaller": 0.8}[smc]
        s_g = scale * eff_guess
        _, depth, _ = scenes.tree_depths(n, edges)
        dmax = max(depth.values())
        lmin = max(4.0 * ps, 3.0 * cs, 6.0) / s_g
        lmax = 1.3 * lmin
        ridge = 1.3 * (0.71 * ps + 0.64 * cs) / s_g
        gap = max(9 * cs / s_g, 2.0 * lmax, 5 * ridge)
        cell = 2 * dmax * lmax + gap
        border = (4 * cs + 2) / s_g + 2.0 / min(1.0, s_g)
        want = draw(st.integers(1, 3))
        gx = draw(st.integers(1, want))
        gy = int(math.ceil(want / gx))
        w = int(min(250, math.ceil(gx * cell + 2 * border) + draw(st.integers(0, 16))))
        h = int(min(250, math.ceil(gy * cell + 2 * border) + draw(st.integers(0, 16))))
        if smc == "none":
            mh, mw = None, None
        elif smc == "equal":
            mh, mw = h, w
        elif smc == "larger":
            mh, mw = h + draw(st.integers(1, 50)), w + draw(st.integers(1, 50))
        else:
            mh, mw = max(40, h - draw(st.integers(1, 50))), max(40, w - draw(st.integers(1, 50)))
        eff = c02.sizematch(h, w, mh, mw)[0]
        s_tot = scale * eff
        nx, ny = int((w - 2 * border) // cell), int((h - 2 * border) // cell)
        slots = [(ix, iy) for iy in range(ny) for ix in range(nx)]
        frames = []
        for _ in range(draw(st.integers(1, 3))):
            chosen = list(draw(st.permutations(slots)))[:want]
            animals = []
            for ix, iy in chosen:
                pts = scenes.embed_animal(draw, st, n, edges, (border + (ix + 0.5) * cell, border + (iy + 0.5) * cell), lmin, lmax)
                snapped = []
                for p in pts:
                    q = []
                    for v in p:
                        u = round(((v + 0.5) * s_tot - 0.5) / cs) + draw(st.sampled_from([-0.4, -0.2, 0.0, 0.15, 0.35]))
                        q.append(round((u * cs + 0.5) / s_tot - 0.5, 4))
                    snapped.append(q)
                animals.append(scenes.apply_visibility(draw, st, snapped, n, edges, draw(st.sampled_from(scenes.VIS_PATTERNS))))
            frames.append(animals)
        return {
            "n_nodes": n, "edges": edges, "h": h, "w": w, "max_h": mh, "max_w": mw, "scale": scale, "stride": cs, "paf_stride": ps,
            "max_stride": draw(st.sampled_from([1, 8, 16, 32])), "refinement": refinement, "batch": draw(st.integers(1, 3)),
            "blob_sigma": 2.0, "frames": frames,
        }

    return case()


def strategy():
    from hypothesis import strategies as st

    @st.composite
    def case(draw):
        cs, ps = draw(st.sampled_from([(c, p) for c in (1, 2, 4) for p in (1, 2, 4, 8)]))
        n, edges = draw(scenes.tree_strategy(st, 2, {1: 6, 2: 6, 4: 5, 8: 3}[ps]))  # deep trees at coarse PAF strides need huge images
        s_in = draw(st.sampled_from([1.0, 1.0, 0.5, 2.0]))
        refinement = draw(st.sampled_from([None, "integral"]))
        ratio = draw(st.sampled_from([0.25, 0.5, 1.0]))
        _, depth, _ = scenes.tree_depths(n, edges)
        dmax = max(depth.values())
        lmin = max(4.0 * ps, 6.0, 3.0 * cs)
        lmax = 1.3 * lmin
        sig_cm = 1.5
        sig_paf = max(1.0, 1.2 * (0.71 * ps + 0.64 * cs) ** 2)
        ridge = (1.39 * sig_paf**2) ** 0.25  # half-width of the exp(-d^4/2sigma^2) ridge
        gap = max(6 * sig_cm * cs, 2.0 * lmax, 5 * ridge)
        cell = 2 * dmax * lmax + gap
        border = 4 * cs + 2
        want = draw(st.integers(1, 5))
        # network input size: multiples of 32, large enough for at least one cell and for lmax <= 0.8*max_edge_length
        gx = draw(st.integers(1, 3)) if want > 1 else 1
        gy = int(math.ceil(want / gx))
        need_w = max(gx * cell + 2 * border, lmax / (0.8 * ratio))
        need_h = max(gy * cell + 2 * border, 64)
        W = min(int(math.ceil(need_w / 32.0)) * 32 + 32 * draw(st.integers(0, 1)), 768)
        H = min(int(math.ceil(need_h / 32.0)) * 32 + 32 * draw(st.integers(0, 1)), 768)
        if max(H, W) * 0.8 * ratio < lmax:  # capped: keep lmax below the distance-penalty threshold
            W = int(math.ceil(lmax / (0.8 * ratio) / 32.0)) * 32
        nx, ny = int((W - 2 * border) // cell), int((H - 2 * border) // cell)
        slots = [(ix, iy) for iy in range(ny) for ix in range(nx)]
        B = draw(st.integers(1, 3))
        frames, effs = [], []
        for _ in range(B):
            k = 0 if (draw(st.integers(0, 5)) == 0 and B > 1) else min(want, len(slots))
            chosen = list(draw(st.permutations(slots)))[:k]
            animals = []
            for ix, iy in chosen:
                cx = border + (ix + 0.5) * cell
                cy = border + (iy + 0.5) * cell
                pts = scenes.embed_animal(draw, st, n, edges, (cx, cy), lmin, lmax)
                pts = [
                    [scenes.snap_general(p[0], cs, draw(st.sampled_from([-0.45, -0.25, 0.0, 0.1, 0.3, 0.45]))),
                     scenes.snap_general(p[1], cs, draw(st.sampled_from([-0.45, -0.25, 0.0, 0.1, 0.3, 0.45])))]
                    for p in pts
                ]
                pattern = draw(st.sampled_from(scenes.VIS_PATTERNS))
                animals.append(scenes.apply_visibility(draw, st, pts, n, edges, pattern))
            frames.append(animals)
            effs.append(draw(st.sampled_from([1.0, 1.0, 0.6, 1.3])))
        return {
            "n_nodes": n, "edges": edges, "H": H, "W": W, "cms_stride": cs, "paf_stride": ps, "input_scale": s_in, "eff_scales": effs,
            "refinement": refinement, "max_edge_length_ratio": ratio, "n_points": draw(st.sampled_from([10, 10, 12, 8])),
            "sigma_cm": sig_cm, "sigma_paf": sig_paf, "frames": frames,
        }

    return case()


def summarize(case):
    return {k: case[k] for k in case if k != "frames"} | {
        "frames": [[[None if p is None else [round(p[0], 2), round(p[1], 2)] for p in an] for an in fr] for fr in case["frames"]]
    }


def parts(tier):
    return [
        Part(name="frames", evaluate=evaluate if tier == "quick" else evaluate_both, strategy=strategy, summarize=summarize,
             budget={"quick": 220, "thorough": 40000}, min_nontrivial={"quick": 30, "thorough": 2500}),
        Part(name="predictor", evaluate=evaluate_predictor, strategy=strategy_predictor,
             summarize=lambda c: {k: v for k, v in c.items()},
             budget={"quick": 60, "thorough": 8000}, min_nontrivial={"quick": 8, "thorough": 500}),
    ]


if __name__ == "__main__":
    runner.main(__name__)
