"""C20 - config builders reflect every argument; normalisation is lossless and idempotent;
configuration objects reject invalid values.

Parts (DESIGN.md section 3, C20):

(a) ``single`` / ``train``: random keyword subsets for ``get_data_config`` /
    ``get_model_config`` / ``get_trainer_config`` (one builder per case) and for the
    umbrella ``train()`` (``run_training`` replaced by a capturing stub in the harness, so
    only the configuration is constructed).  Oracle: a declarative table
    *argument -> config path, documented default* transcribed from the builders'
    docstrings (not from their bodies).  An *expected tree* is assembled from (1) the
    attrs schema defaults, (2) the documented default of every unspecified builder
    argument, (3) the supplied values, and compared leaf by leaf with the container of the
    produced configuration; the produced configuration must convert with
    ``throw_on_missing=True`` and have exactly the schema's keys (complete).
    ``presets`` enumerates every documented backbone preset string x every head type
    string (and each backbone family x head type in dict form) through ``train()`` and
    through the normalisation / round-trip oracle of (c).
(b) ``auglists``: every ordered list of distinct geometric names (325) and of distinct
    intensity names (64): every named augmentation is enabled, and the configuration is
    the same as for the canonically ordered list (hence for every permutation).
(c) ``normalise``: on complete configurations made by the builders:
    ``verify_training_cfg`` changes no value, is idempotent, ``OmegaConf.save`` ->
    ``OmegaConf.load`` changes no value (container equality; tuples and lists are the
    same thing), and normalising the loaded configuration gives the original again.
(d) ``invalid`` (enumerated) / ``invalid_rand`` (sampled): single-field invalid values
    raise, boundary / valid values are accepted, unknown backbone sizes are rejected by
    every backbone class that has a ``model_type`` field, two backbones or two heads at
    once are rejected.
"""

import io
import itertools
import math

from vlib import env, runner
from vlib.runner import Part, Result

PROPERTY = "C20"
LEVEL = "exploration"
RULE = (
    "cases = (builder, random subset of its documented keyword arguments with values from the "
    "documented ranges; every backbone preset string and dict form, head string and dict form, "
    "lr-scheduler string/dict form, augmentation name / list / dict form) drawn by Hypothesis; all 389 "
    "ordered lists of distinct augmentation names enumerated; a grid plus sampled single-field "
    "invalid / boundary values.  non-trivial = at least 3 arguments supplied away from their "
    "documented defaults (parts single/train/normalise), list length >= 2 (auglists), an invalid "
    "value that has to be rejected (invalid parts); distinct by hash of the serialised case"
)
ASSUMPTIONS = [
    "an unspecified builder argument is judged against the default written in the builder's docstring "
    "(e.g. max_epochs 100, seed 1000, batch_size 4) and not against the attrs schema default (10, None, 1); "
    "schema defaults are only demanded for options that no builder argument controls",
    "shuffle_train and ckpt_save_last: the docstring says 'Default: False', the signature says True "
    "(docs/config.md: True resp. False) - the documentation contradicts itself, so both values are accepted "
    "when the argument is not supplied (recorded under doc_inconsistencies, not judged)",
    "backbone_config has no default in the docstring: unspecified -> the default 'unet' preset or the schema "
    "default (no backbone) are both accepted",
    "batch_size is documented 'for training data': the validation loader may carry the same value or the "
    "schema default; num_workers is documented for data loading in general and is demanded in both loaders",
    "intensity_aug/geometry_aug supplied while use_augmentations_train is False: docs say augmentation_config "
    "exists only if use_augmentations_train is True, nothing is asserted about augmentation_config then",
    "name/list forms of geometry_aug: an affine component (rotation/scale/translate) that was NOT named may be "
    "neutral (0 / (1,1) / 0) or at its schema default - the statement only says named ones are enabled",
    "dict forms with two heads / two backbones / two schedulers are outside the builders' documented domain "
    "('others should be None') and are not generated for the builders; the rejection clause is checked on the "
    "configuration objects' constructors",
    "strings are printable text without the OmegaConf interpolation marker '${' and without C1/NEL control "
    "characters (PyYAML folds U+0085; unrelated to sleap-nn)",
    "pre_trained_weights is only drawn from the names documented for the chosen backbone family",
    "rejection of invalid values is asserted on the attrs configuration objects (and the builders' dict forms "
    "that construct them), not on verify_training_cfg, which does not instantiate the nested classes",
    "scale = 0.0 and integer scales are not judged (the docstring says float >= 0; 0 is neither clearly valid "
    "nor clearly invalid)",
    "(d) also covers the other fields that carry a validator (uniform_noise_min/max, lr, step_size, min_lr, "
    "optimizer_name, early-stopping min_delta/patience, trainer_devices) with values the docstrings exclude",
]

# ---------------------------------------------------------------------------------------
# declarative tables, transcribed from the docstrings of get_data_config /
# get_model_config / get_trainer_config and docs/config.md.
# (argument, config path inside the section, documented default, value generator key)

REQ = "<required>"


class AnyOf:
    """Expected value: any of the listed alternatives is acceptable."""

    def __init__(self, *opts):
        self.opts = opts

    def __repr__(self):
        return "AnyOf(" + ", ".join(repr(o) for o in self.opts) + ")"


DATA_ARGS = [
    ("train_labels_path", ("train_labels_path",), REQ, "path"),
    ("val_labels_path", ("val_labels_path",), REQ, "path"),
    ("test_file_path", ("test_file_path",), None, "optpath"),
    ("provider", ("provider",), "LabelsReader", "provider"),
    ("user_instances_only", ("user_instances_only",), True, "bool"),
    ("data_pipeline_fw", ("data_pipeline_fw",), "torch_dataset", "fw"),
    ("np_chunks_path", ("np_chunks_path",), None, "optpath"),
    ("litdata_chunks_path", ("litdata_chunks_path",), None, "optpath"),
    ("use_existing_chunks", ("use_existing_chunks",), False, "bool"),
    ("chunk_size", ("chunk_size",), 100, "posint"),
    ("delete_chunks_after_training", ("delete_chunks_after_training",), True, "bool"),
    ("is_rgb", ("preprocessing", "is_rgb"), False, "bool"),
    ("scale", ("preprocessing", "scale"), 1.0, "posfloat"),
    ("max_height", ("preprocessing", "max_height"), None, "optint"),
    ("max_width", ("preprocessing", "max_width"), None, "optint"),
    ("crop_hw", ("preprocessing", "crop_hw"), None, "crop"),
    ("min_crop_size", ("preprocessing", "min_crop_size"), 100, "optint"),
    ("use_augmentations_train", ("use_augmentations_train",), False, "bool"),
    # intensity_aug / geometry_aug -> augmentation_config.{intensity,geometric}: special
]

MODEL_ARGS = [
    ("init_weight", ("init_weights",), "default", "init"),
    ("pre_trained_weights", ("pre_trained_weights",), None, "weights"),
    ("pretrained_backbone_weights", ("pretrained_backbone_weights",), None, "optpath"),
    ("pretrained_head_weights", ("pretrained_head_weights",), None, "optpath"),
    # backbone_config -> backbone_config.<family>, head_configs -> head_configs.<type>: special
]

BOTH = "<both documented values>"

TRAINER_ARGS = [
    ("batch_size", ("train_data_loader", "batch_size"), 4, "posint_small"),
    ("shuffle_train", ("train_data_loader", "shuffle"), BOTH, "bool"),
    ("num_workers", ("train_data_loader", "num_workers"), 0, "smallint"),
    ("ckpt_save_top_k", ("model_ckpt", "save_top_k"), 1, "topk"),
    ("ckpt_save_last", ("model_ckpt", "save_last"), BOTH, "bool"),
    ("trainer_num_devices", ("trainer_devices",), "auto", "devices"),
    ("trainer_accelerator", ("trainer_accelerator",), "auto", "accel"),
    ("enable_progress_bar", ("enable_progress_bar",), False, "bool"),
    ("steps_per_epoch", ("steps_per_epoch",), None, "optint"),
    ("max_epochs", ("max_epochs",), 100, "posint"),
    ("seed", ("seed",), 1000, "seed"),
    ("use_wandb", ("use_wandb",), False, "bool"),
    ("save_ckpt", ("save_ckpt",), False, "bool"),
    ("save_ckpt_path", ("save_ckpt_path",), None, "optpath"),
    ("resume_ckpt_path", ("resume_ckpt_path",), None, "optpath"),
    ("wandb_entity", ("wandb", "entity"), None, "optstr"),
    ("wandb_project", ("wandb", "project"), None, "optstr"),
    ("wandb_name", ("wandb", "name"), None, "optstr"),
    ("wandb_api_key", ("wandb", "api_key"), None, "optstr"),
    ("wandb_mode", ("wandb", "wandb_mode"), None, "wandb_mode"),
    ("wandb_resume_prv_runid", ("wandb", "prv_runid"), None, "optstr"),
    ("wandb_group_name", ("wandb", "group"), None, "optstr"),
    ("optimizer", ("optimizer_name",), "Adam", "optimizer"),
    ("learning_rate", ("optimizer", "lr"), 1e-3, "lr"),
    ("amsgrad", ("optimizer", "amsgrad"), False, "bool"),
    ("early_stopping", ("early_stopping", "stop_training_on_plateau"), False, "bool"),
    ("early_stopping_min_delta", ("early_stopping", "min_delta"), 0.0, "nonnegfloat"),
    ("early_stopping_patience", ("early_stopping", "patience"), 1, "smallint"),
    # lr_scheduler -> lr_scheduler.{step_lr,reduce_lr_on_plateau}: special
]

SECTION_ARGS = {"data": DATA_ARGS, "model": MODEL_ARGS, "trainer": TRAINER_ARGS}
SPECIAL_ARGS = {
    "data": ["intensity_aug", "geometry_aug"],
    "model": ["backbone_config", "head_configs"],
    "trainer": ["lr_scheduler"],
}

INTENSITY_NAMES = ["uniform_noise", "gaussian_noise", "contrast", "brightness"]
GEOMETRIC_NAMES = ["rotation", "scale", "translate", "erase_scale", "mixup"]
AFFINE_NAMES = ["rotation", "scale", "translate"]
# name -> probability field that switches the augmentation on (docs/config.md)
INTENSITY_P = {n: n + "_p" for n in INTENSITY_NAMES}
GEOMETRIC_P = {"rotation": "affine_p", "scale": "affine_p", "translate": "affine_p", "erase_scale": "erase_p", "mixup": "mixup_p"}
# affine component -> (fields, neutral value) ; "Set to 0 to disable rotation augmentation", scale (1,1), no shift
AFFINE_OWN = {
    "rotation": (["rotation"], 0.0),
    "scale": (["scale"], [1.0, 1.0]),
    "translate": (["translate_width", "translate_height"], 0.0),
}

# documented preset strings -> (family key in backbone_config, schema class, size named by the preset)
BACKBONE_PRESETS = {
    "unet": ("unet", "UNetConfig", None),
    "unet_medium_rf": ("unet", "UNetMediumRFConfig", None),
    "unet_large_rf": ("unet", "UNetLargeRFConfig", None),
    "convnext": ("convnext", "ConvNextConfig", "tiny"),
    "convnext_tiny": ("convnext", "ConvNextConfig", "tiny"),
    "convnext_small": ("convnext", "ConvNextSmallConfig", "small"),
    "convnext_base": ("convnext", "ConvNextBaseConfig", "base"),
    "convnext_large": ("convnext", "ConvNextLargeConfig", "large"),
    "swint": ("swint", "SwinTConfig", "tiny"),
    "swint_tiny": ("swint", "SwinTConfig", "tiny"),
    "swint_small": ("swint", "SwinTSmallConfig", "small"),
    "swint_base": ("swint", "SwinTBaseConfig", "base"),
}
FAMILY_CLASS = {"unet": "UNetConfig", "convnext": "ConvNextConfig", "swint": "SwinTConfig"}
VALID_SIZES = {"convnext": ["tiny", "small", "base", "large"], "swint": ["tiny", "small", "base"]}
WEIGHTS = {
    "convnext": ["ConvNeXt_Base_Weights", "ConvNeXt_Tiny_Weights", "ConvNeXt_Small_Weights", "ConvNeXt_Large_Weights"],
    "swint": ["Swin_T_Weights", "Swin_S_Weights", "Swin_B_Weights"],
}
SIZE_WEIGHTS = {
    "convnext": {"tiny": "ConvNeXt_Tiny_Weights", "small": "ConvNeXt_Small_Weights", "base": "ConvNeXt_Base_Weights",
                 "large": "ConvNeXt_Large_Weights"},
    "swint": {"tiny": "Swin_T_Weights", "small": "Swin_S_Weights", "base": "Swin_B_Weights"},
}
HEAD_TYPES = ["single_instance", "centroid", "centered_instance", "bottomup"]
HEAD_CLASSES = {
    "single_instance": {"confmaps": "SingleInstanceConfMapsConfig"},
    "centroid": {"confmaps": "CentroidConfMapsConfig"},
    "centered_instance": {"confmaps": "CenteredInstanceConfMapsConfig"},
    "bottomup": {"confmaps": "BottomUpConfMapsConfig", "pafs": "PAFConfig"},
}
SCHEDULERS = {"step_lr": "StepLRConfig", "reduce_lr_on_plateau": "ReduceLROnPlateauConfig"}

TRICKY_STRINGS = [
    "123", "1e-3", "true", "null", "~", "0x1F", "2024-01-01", "a: b", "# c", " x ", "", "off", "1_000", "-",
    "[a]", "{a}", "\u00e9/\u00fc", "'q'", '"dq"', "%", "@", "|", ">", "*a", "&a", "!tag", "?", "C:\\data\\x.slp",
    "1.0", ".5", "yes", "No", ".nan", "a b/c d.slp", "run:1", "k=v, w", "$HOME/x",
]  # fmt: skip


# ---------------------------------------------------------------------------------------
# generic helpers (oracle side; no sleap_nn code)


def norm(x):
    """tuple -> list, recursively; everything else untouched."""
    if isinstance(x, (list, tuple)):
        return [norm(v) for v in x]
    if isinstance(x, dict):
        return {k: norm(v) for k, v in x.items()}
    return x


def same_scalar(a, e):
    """Exact value equality; bool is not interchangeable with 0/1, None only equals None."""
    if isinstance(a, bool) or isinstance(e, bool):
        return isinstance(a, bool) and isinstance(e, bool) and a == e
    if a is None or e is None:
        return a is None and e is None
    if isinstance(a, (int, float)) and isinstance(e, (int, float)):
        if isinstance(a, float) and isinstance(e, float) and math.isnan(a) and math.isnan(e):
            return True
        return a == e  # supplied values must arrive unmodified: no tolerance
    if type(a) is not type(e):
        return False
    return a == e


def diff(actual, expected, path=()):
    """List of (path, actual, expected) leaf mismatches; [] when the trees agree."""
    if isinstance(expected, AnyOf):
        first = None
        for o in expected.opts:
            d = diff(actual, o, path)
            if not d:
                return []
            if first is None:
                first = d
        return [(p, a, expected if p == path else e) for p, a, e in first]
    expected = norm(expected)
    actual = norm(actual)
    if isinstance(expected, dict):
        if not isinstance(actual, dict):
            return [(path, actual, "<mapping with keys %s>" % sorted(expected))]
        out = []
        for k in expected:
            if k not in actual:
                out.append((path + (k,), "<key absent>", expected[k]))
            else:
                out.extend(diff(actual[k], expected[k], path + (k,)))
        for k in actual:
            if k not in expected:
                out.append((path + (k,), actual[k], "<no such option in the schema>"))
        return out
    if isinstance(expected, list):
        if not isinstance(actual, list) or len(actual) != len(expected):
            return [(path, actual, expected)]
        out = []
        for i, (a, e) in enumerate(zip(actual, expected)):
            out.extend(diff(a, e, path + (i,)))
        return out
    if isinstance(actual, (dict, list)):
        return [(path, actual, expected)]
    return [] if same_scalar(actual, expected) else [(path, actual, expected)]


def pstr(path):
    return ".".join(str(p) for p in path)


def set_path(tree, path, value):
    node = tree
    for k in path[:-1]:
        if not isinstance(node.get(k), dict):
            node[k] = {}
        node = node[k]
    node[path[-1]] = value


def schema_defaults(clsname):
    """Default tree of an attrs schema class (the reference for 'schema default')."""
    import attrs

    cls = _schema_class(clsname)
    return norm(attrs.asdict(cls()))


def _schema_class(clsname):
    from sleap_nn.config import data_config, model_config, trainer_config, training_job_config

    for mod in (data_config, model_config, trainer_config, training_job_config):
        if hasattr(mod, clsname):
            return getattr(mod, clsname)
    raise KeyError(clsname)


def to_py(case_value, as_tuple):
    """JSON case value -> the python value handed to the builder (lists may become tuples)."""
    if as_tuple and isinstance(case_value, list) and case_value and all(isinstance(v, (int, float)) for v in case_value):
        return tuple(case_value)
    return case_value


def build_kwargs(kw, as_tuple):
    """Case kwargs -> python kwargs (crop_hw / brightness / geometric scale optionally as tuples)."""
    out = {}
    for k, v in kw.items():
        if k == "crop_hw":
            out[k] = to_py(v, as_tuple)
        elif k in ("intensity_aug", "geometry_aug") and isinstance(v, dict):
            # brightness is typed Tuple[float, float]; the geometric scale default is written (0.9, 1.1)
            out[k] = {kk: (to_py(vv, as_tuple) if kk in ("brightness", "scale") else vv) for kk, vv in v.items()}
        else:
            out[k] = v
    return out


# ---------------------------------------------------------------------------------------
# expected trees


def family_of(backbone):
    if backbone is None:
        return "unet"
    if isinstance(backbone, str):
        return BACKBONE_PRESETS[backbone][0]
    return next(iter(backbone))


def expected_section(section, kw):
    """(expected tree, {path-prefix: (arg, supplied?)}) for one section."""
    owner = {}
    if section == "data":
        tree = schema_defaults("DataConfig")
    elif section == "model":
        tree = schema_defaults("ModelConfig")
    else:
        tree = schema_defaults("TrainerConfig")
    for arg, path, default, _gen in SECTION_ARGS[section]:
        supplied = arg in kw
        if supplied:
            val = kw[arg]
        elif default is BOTH:
            val = AnyOf(False, True)
        else:
            val = default
        set_path(tree, path, val)
        owner[path] = (arg, supplied)
    if section == "data":
        owner[("augmentation_config",)] = ("intensity_aug/geometry_aug", "intensity_aug" in kw or "geometry_aug" in kw)
        tree.pop("augmentation_config", None)  # judged by judge_aug
    if section == "trainer":
        # batch_size is documented for the training loader; the validation loader may follow it
        bs = kw.get("batch_size", 4)
        set_path(tree, ("val_data_loader", "batch_size"), AnyOf(bs, schema_defaults("DataLoaderConfig")["batch_size"]))
        owner[("val_data_loader", "batch_size")] = ("batch_size", "batch_size" in kw)
        set_path(tree, ("val_data_loader", "num_workers"), kw.get("num_workers", 0))
        owner[("val_data_loader", "num_workers")] = ("num_workers", "num_workers" in kw)
        # lr_scheduler
        sch = kw.get("lr_scheduler")
        none_tree = {k: None for k in SCHEDULERS}
        if sch is None:
            val = AnyOf(none_tree, None)
        elif isinstance(sch, str):
            val = dict(none_tree)
            val[sch] = schema_defaults(SCHEDULERS[sch])
        else:
            val = dict(none_tree)
            for k, v in sch.items():
                if v is not None:
                    sub = schema_defaults(SCHEDULERS[k])
                    sub.update(v)
                    val[k] = sub
        set_path(tree, ("lr_scheduler",), val)
        owner[("lr_scheduler",)] = ("lr_scheduler", "lr_scheduler" in kw)
    if section == "model":
        bb = kw.get("backbone_config")
        none_bb = {k: None for k in FAMILY_CLASS}
        if bb is None:
            unet = dict(none_bb)
            unet["unet"] = schema_defaults("UNetConfig")
            val = AnyOf(unet, none_bb)
        elif isinstance(bb, str):
            fam, clsname, size = BACKBONE_PRESETS[bb]
            val = dict(none_bb)
            val[fam] = schema_defaults(clsname)
            if size is not None:
                val[fam]["model_type"] = size  # the size the preset is named after
        else:
            val = dict(none_bb)
            for fam, sub in bb.items():
                t = schema_defaults(FAMILY_CLASS[fam])
                t.update(sub)
                val[fam] = t
        set_path(tree, ("backbone_config",), val)
        owner[("backbone_config",)] = ("backbone_config", "backbone_config" in kw)
        hd = kw.get("head_configs")
        val = {k: None for k in HEAD_TYPES}
        if isinstance(hd, str):
            val[hd] = {layer: schema_defaults(c) for layer, c in HEAD_CLASSES[hd].items()}
        elif isinstance(hd, dict):
            for ht, sub in hd.items():
                if sub is None:
                    continue
                t = {}
                for layer, c in HEAD_CLASSES[ht].items():
                    t[layer] = schema_defaults(c)
                    t[layer].update(sub.get(layer, {}))
                val[ht] = t
        set_path(tree, ("head_configs",), val)
        owner[("head_configs",)] = ("head_configs", "head_configs" in kw)
    return tree, owner


def clause_for(section, owner, path):
    """Bucket of a leaf mismatch: which documented promise is broken."""
    best = None
    for pre, (arg, supplied) in owner.items():
        if path[: len(pre)] == pre and (best is None or len(pre) > len(best[0])):
            best = (pre, arg, supplied)
    if best is None:
        return f"build:{section}:uncontrolled-option-not-schema-default:{pstr(path)}"
    _pre, arg, supplied = best
    if supplied:
        return f"build:{section}:supplied-arg-not-at-documented-place:{arg}"
    return f"build:{section}:unspecified-arg-not-documented-default:{arg}"


def judge_names(res, kind, names_arg, actual, where):
    """Name / list form of intensity_aug or geometry_aug.  Returns number of oracle evaluations."""
    names = [names_arg] if isinstance(names_arg, str) else list(names_arg)
    if kind == "intensity":
        defaults = schema_defaults("IntensityConfig")
        pmap = INTENSITY_P
    else:
        defaults = schema_defaults("GeometricConfig")
        pmap = GEOMETRIC_P
    if not isinstance(actual, dict):
        res.fail(f"aug:{kind}:section-missing", f"{where}: {kind} augmentation section is {actual!r} for names {names}")
        return 1
    expected = dict(defaults)
    not_enabled = []
    for n in names:
        pf = pmap[n]
        expected.pop(pf, None)  # judged here
        if not same_scalar(actual.get(pf), 1.0):
            not_enabled.append(f"{n}: {pf}={actual.get(pf)!r}")
        if n in AFFINE_OWN:
            fields, neutral = AFFINE_OWN[n]
            for f in fields:
                if not diff(actual.get(f), neutral):
                    not_enabled.append(f"{n}: {f}={actual.get(f)!r} is the neutral value")
    if kind == "geometric":
        for n, (fields, neutral) in AFFINE_OWN.items():
            for f in fields:
                if n in names:
                    expected.pop(f, None)  # judged above: must be non-neutral
                else:
                    expected[f] = AnyOf(defaults[f], neutral)
    if not_enabled:
        res.fail(
            f"aug:{kind}:named-not-enabled",
            f"{where}: names {names} -> " + "; ".join(not_enabled) + f" (result {actual})",
        )
    rest = {k: v for k, v in actual.items() if k in expected or k not in defaults}
    for p, a, e in diff(rest, expected):
        res.fail(
            f"aug:{kind}:unnamed-option-not-schema-default",
            f"{where}: names {names}: {pstr(p)} = {a!r}, expected {e!r}",
        )
        break
    return 1


def judge_aug(res, kw, actual, where):
    """augmentation_config of a data section."""
    use = kw.get("use_augmentations_train", False)
    ia, ga = kw.get("intensity_aug"), kw.get("geometry_aug")
    if not use:
        if ia is None and ga is None:
            if actual is not None:
                res.fail(
                    "build:data:uncontrolled-option-not-schema-default:augmentation_config",
                    f"{where}: augmentation_config = {actual!r} although use_augmentations_train is off; schema default is None",
                )
        else:
            res.cls("aug-args-while-aug-off(not judged)")
        return
    if actual is None and ia is None and ga is None:
        return  # schema default of DataConfig.augmentation_config
    if not isinstance(actual, dict) or set(actual) != {"intensity", "geometric"}:
        res.fail("build:data:augmentation_config-incomplete", f"{where}: augmentation_config = {actual!r}")
        return
    for kind, arg, clsname in (("intensity", ia, "IntensityConfig"), ("geometric", ga, "GeometricConfig")):
        sub = actual[kind]
        argname = "intensity_aug" if kind == "intensity" else "geometry_aug"
        if arg is None:
            d = diff(sub, AnyOf(schema_defaults(clsname), None))
            if d:
                p, a, e = d[0]
                res.fail(
                    f"build:data:uncontrolled-option-not-schema-default:augmentation_config.{kind}",
                    f"{where}: {kind}.{pstr(p)} = {a!r}, schema default {e!r}",
                )
        elif isinstance(arg, dict):
            exp = schema_defaults(clsname)
            exp.update(arg)
            d = diff(sub, exp)
            if d:
                p, a, e = d[0]
                which = "supplied-arg-not-at-documented-place" if p and p[0] in arg else "uncontrolled-option-not-schema-default"
                res.fail(f"build:data:{which}:{argname}(dict)", f"{where}: {kind}.{pstr(p)} = {a!r}, expected {e!r}")
        else:
            judge_names(res, kind, arg, sub, where)


def judge_section(res, section, kw, actual, where):
    """Compare one section container with its expected tree."""
    tree, owner = expected_section(section, kw)
    act = dict(actual) if isinstance(actual, dict) else actual
    if section == "data" and isinstance(act, dict):
        if "augmentation_config" not in act:
            res.fail("build:data:augmentation_config-incomplete", f"{where}: key augmentation_config absent")
        else:
            judge_aug(res, kw, act.pop("augmentation_config"), where)
    seen = set()
    for p, a, e in diff(act, tree):
        b = clause_for(section, owner, p)
        if b in seen:
            continue
        seen.add(b)
        res.fail(b, f"{where}: {section}.{pstr(p)} = {a!r}, expected {e!r}; kwargs={kw}")


# ---------------------------------------------------------------------------------------
# calling the code under test


def convert(res, obj, what, kw):
    """attrs config object -> plain container through OmegaConf (as the trainer receives it).

    Falls back to ``attrs.asdict`` (so that the placement clauses are still judged) when the
    object cannot be converted; that failure is its own bucket.
    """
    import attrs
    from omegaconf import OmegaConf

    try:
        cfg = OmegaConf.structured(obj)
        return OmegaConf.to_container(cfg, resolve=True, throw_on_missing=True), cfg
    except Exception as e:  # noqa: BLE001
        res.fail(
            f"complete:not-convertible:{classify_unconvertible(kw)}",
            f"builder result cannot be converted to a configuration: {type(e).__name__}: {str(e)[:200]}; kwargs={kw}",
        )
        return norm(attrs.asdict(obj)), None


def classify_unconvertible(kw):
    bb = kw.get("backbone_config")
    if isinstance(bb, str) and BACKBONE_PRESETS[bb][1] != FAMILY_CLASS[BACKBONE_PRESETS[bb][0]]:
        return "backbone-preset-class"
    return "other"


def count_away(kw):
    """Number of supplied arguments whose value differs from the documented default."""
    defaults = {}
    for sec in SECTION_ARGS.values():
        for arg, _p, d, _g in sec:
            defaults[arg] = d
    n = 0
    for k, v in kw.items():
        d = defaults.get(k, None)
        if d is REQ:
            continue
        if d is BOTH:  # no single documented default: any supplied value counts
            n += 1
            continue
        if diff(v, d):
            n += 1
    return n


def label_forms(res, kw):
    for k in ("intensity_aug", "geometry_aug", "backbone_config", "head_configs", "lr_scheduler"):
        if k in kw:
            v = kw[k]
            form = "none" if v is None else "str" if isinstance(v, str) else "list" if isinstance(v, list) else "dict"
            res.cls(f"{k}:{form}")
    bb = kw.get("backbone_config")
    if isinstance(bb, str):
        res.cls(f"preset={bb}")
    elif isinstance(bb, dict):
        res.cls(f"backbone-dict={family_of(bb)}")
    hd = kw.get("head_configs")
    if isinstance(hd, str):
        res.cls(f"head={hd}")
    elif isinstance(hd, dict):
        res.cls("head-dict=" + ",".join(k for k, v in hd.items() if v is not None))


def evaluate_single(case):
    """Part (a), one builder."""
    from sleap_nn import train as T

    res = Result()
    section = case["builder"]
    kw = case["kwargs"]
    res.cls(f"builder={section}", f"n_args={min(len(kw), 12)}")
    label_forms(res, kw)
    res.nontrivial = count_away(kw) >= 3
    fn = {"data": T.get_data_config, "model": T.get_model_config, "trainer": T.get_trainer_config}[section]
    obj = runner.guarded(res, f"build:{section}", fn, **build_kwargs(kw, case.get("as_tuple", False)))
    if obj is runner.FAILED:
        return res
    cont, _ = convert(res, obj, section, kw)
    judge_section(res, section, kw, cont, f"get_{section}_config")
    # call history: the caller edits the configuration it got, then asks the builder again with the same
    # arguments.  The second result must again be what the arguments say (i.e. equal the first result as it
    # was returned), whatever happened to the first object.
    n_edits = scramble(obj)
    obj2 = runner.guarded(res, f"build:{section}:second-call", fn, **build_kwargs(kw, case.get("as_tuple", False)))
    if obj2 is not runner.FAILED:
        res2 = Result()
        cont2, _ = convert(res2, obj2, section, kw)
        d = diff(cont2, cont)
        if d:
            p_, a, e = d[0]
            res.fail(
                f"build:{section}:later-call-sees-edits-of-earlier-result:{pstr(p_).split('.')[0] if pstr(p_) else ''}",
                f"after {n_edits} fields of the first result were edited, a second get_{section}_config(**same kwargs) returns "
                f"{pstr(p_)} = {a!r} instead of {e!r} ({len(d)} differing options); kwargs={kw}",
            )
        res.cls("history=build-edit-build")
        res.n_evals = 2
    return res


def scramble(obj, _depth=0):
    """Edit every leaf field of an attrs configuration object in place (values of the same type, validators
    permitting); returns the number of fields changed."""
    import attrs

    n = 0
    if not attrs.has(type(obj)) or _depth > 6:
        return 0
    for f in attrs.fields(type(obj)):
        v = getattr(obj, f.name, None)
        if attrs.has(type(v)):
            n += scramble(v, _depth + 1)
            continue
        if isinstance(v, bool):
            cand = [not v]
        elif isinstance(v, int):
            cand = [v + 1, v * 2, max(0, v - 1)]
        elif isinstance(v, float):
            cand = [v / 2 + 0.01, v + 1.0]
        elif isinstance(v, str):
            cand = [v + "_edited"]
        elif isinstance(v, list):
            # a NEW list is assigned: the old one may be the very object the caller passed as an argument
            cand = [list(v) + [v[0]]] if v else []
        elif isinstance(v, dict):
            continue
        else:
            continue
        for c in cand:
            if c == v:
                continue
            try:
                setattr(obj, f.name, c)
                n += 1
                break
            except Exception:  # noqa: BLE001  (validator refused the value: try the next one)
                continue
    return n


def split_kwargs(kw):
    out = {"data": {}, "model": {}, "trainer": {}}
    for sec in out:
        names = {a for a, _p, _d, _g in SECTION_ARGS[sec]} | set(SPECIAL_ARGS[sec])
        out[sec] = {k: v for k, v in kw.items() if k in names}
    return out


def build_job(kw, as_tuple):
    from sleap_nn import train as T
    from sleap_nn.config.training_job_config import TrainingJobConfig

    parts = split_kwargs(kw)
    return TrainingJobConfig(
        data_config=T.get_data_config(**build_kwargs(parts["data"], as_tuple)),
        model_config=T.get_model_config(**parts["model"]),
        trainer_config=T.get_trainer_config(**parts["trainer"]),
    )


def evaluate_train(case):
    """Part (a), umbrella ``train()`` with ``run_training`` replaced by a capturing stub."""
    import attrs
    import sleap_nn
    from omegaconf import OmegaConf
    from sleap_nn import train as T

    res = Result()
    kw = case["kwargs"]
    res.cls("builder=train", f"n_args={min(len(kw) // 4 * 4, 40)}")
    label_forms(res, kw)
    res.nontrivial = count_away(kw) >= 3
    captured = {}
    orig = T.run_training
    T.run_training = lambda cfg: captured.__setitem__("cfg", cfg)
    cont = None
    try:
        try:
            T.train(**build_kwargs(kw, case.get("as_tuple", False)))
        except Exception as e:  # noqa: BLE001
            b = runner.exc_bucket("build:train", e)
            if b is None:
                raise
            if "to_sleap_nn_cfg" in b:
                res.fail(
                    f"complete:not-convertible:{classify_unconvertible(kw)}",
                    f"train() cannot build its configuration: {type(e).__name__}: {str(e)[:200]}; kwargs={kw}",
                )
            else:
                res.fail(b, f"{type(e).__name__}: {str(e)[:300]}; kwargs={kw}")
                return res
    finally:
        T.run_training = orig
    if "cfg" in captured:
        cont = runner.guarded(res, "complete:train", OmegaConf.to_container, captured["cfg"], resolve=True, throw_on_missing=True)
        if cont is runner.FAILED:
            return res
    else:
        # fall back to the three builders so that the placement clauses are still judged
        job = runner.guarded(res, "build:train", build_job, kw, case.get("as_tuple", False))
        if job is runner.FAILED:
            return res
        cont = norm(attrs.asdict(job))
    parts = split_kwargs(kw)
    top = {"data_config", "model_config", "trainer_config", "name", "description", "sleap_nn_version", "filename"}
    if not isinstance(cont, dict) or set(cont) != top:
        res.fail("complete:train:top-level-keys", f"top-level keys {sorted(cont) if isinstance(cont, dict) else cont}")
        return res
    for sec in ("data", "model", "trainer"):
        judge_section(res, sec, parts[sec], cont[sec + "_config"], "train()")
    sd = schema_defaults("TrainingJobConfig")
    exp_top = {k: sd[k] for k in ("name", "description", "sleap_nn_version", "filename")}
    exp_top["sleap_nn_version"] = sleap_nn.__version__  # "Version of SLEAP that generated this configuration"
    for p, a, e in diff({k: cont[k] for k in exp_top}, exp_top):
        res.fail("build:train:uncontrolled-option-not-schema-default:" + pstr(p), f"{pstr(p)} = {a!r}, expected {e!r}")
    res.n_evals = 3
    return res


# ---------------------------------------------------------------------------------------
# part (b): ordered lists of augmentation names


def evaluate_auglist(case):
    import attrs
    from sleap_nn import train as T

    res = Result()
    kind, names = case["kind"], case["names"]
    res.cls(f"{kind}:len={len(names)}")
    n_aff = len([n for n in names if n in AFFINE_NAMES])
    if kind == "geometric":
        res.cls(f"affine_names={n_aff}")
    res.nontrivial = len(names) >= 2
    arg = "intensity_aug" if kind == "intensity" else "geometry_aug"
    base = dict(train_labels_path="train.slp", val_labels_path="val.slp", use_augmentations_train=True)

    def run(value):
        d = T.get_data_config(**base, **{arg: value})
        if d.augmentation_config is None:
            return None
        return norm(attrs.asdict(d.augmentation_config))

    got = runner.guarded(res, f"aug:{kind}", run, list(names))
    if got is runner.FAILED:
        return res
    res.n_evals = 0
    if not isinstance(got, dict) or set(got) != {"intensity", "geometric"}:
        res.fail(f"aug:{kind}:section-missing", f"augmentation_config = {got!r} for {arg}={names}")
        return res
    res.n_evals += judge_names(res, kind, list(names), got[kind], "get_data_config")
    # the other family was not named at all: untouched schema defaults
    other = "geometric" if kind == "intensity" else "intensity"
    d = diff(got[other], schema_defaults("GeometricConfig" if other == "geometric" else "IntensityConfig"))
    if d:
        p, a, e = d[0]
        res.fail(f"aug:{kind}:other-family-changed", f"{arg}={names}: {other}.{pstr(p)} = {a!r}, schema default {e!r}")
    # permutation invariance: same result as the canonically ordered list
    canon = sorted(names)
    ref = runner.guarded(res, f"aug:{kind}", run, canon)
    if ref is not runner.FAILED:
        res.n_evals += 1
        d = diff(got, ref)
        if d:
            p, a, e = d[0]
            res.fail(
                f"aug:{kind}:order-dependent",
                f"{arg}={names} gives {pstr(p)} = {a!r} but {canon} gives {e!r}",
            )
    # a single name may also be passed as a plain string
    if len(names) == 1:
        one = runner.guarded(res, f"aug:{kind}", run, names[0])
        if one is not runner.FAILED:
            res.n_evals += 1
            if diff(one, got):
                res.fail(f"aug:{kind}:string-form-differs", f"{arg}={names[0]!r} differs from {names}")
    res.n_evals = max(1, res.n_evals)
    return res


def enum_auglists(tier):
    for kind, pool in (("geometric", GEOMETRIC_NAMES), ("intensity", INTENSITY_NAMES)):
        for k in range(1, len(pool) + 1):
            for perm in itertools.permutations(pool, k):
                yield {"kind": kind, "names": list(perm)}


# ---------------------------------------------------------------------------------------
# part (c): normalisation and YAML round trip


def first_diff(a, b):
    d = diff(a, b)
    if not d:
        return None
    p, x, y = d[0]
    return f"{pstr(p)}: {x!r} != {y!r}" + (f" (+{len(d) - 1} more)" if len(d) > 1 else "")


def evaluate_normalise(case):
    import attrs
    from omegaconf import OmegaConf
    from sleap_nn.config.training_job_config import verify_training_cfg

    res = Result()
    kw = case["kwargs"]
    form = case.get("form", "structured")
    res.cls(f"form={form}")
    label_forms(res, kw)
    res.nontrivial = count_away(kw) >= 3
    job = runner.guarded(res, "build:train", build_job, kw, case.get("as_tuple", False))
    if job is runner.FAILED:
        return res
    cfg = None
    if form == "structured":
        try:
            cfg = job.to_sleap_nn_cfg()
        except Exception as e:  # noqa: BLE001
            if runner.exc_bucket("x", e) is None:
                raise
            res.fail(
                f"complete:not-convertible:{classify_unconvertible(kw)}",
                f"to_sleap_nn_cfg: {type(e).__name__}: {str(e)[:200]}; kwargs={kw}",
            )
            res.cls("fallback-plain")
    if cfg is None:
        # the same configuration as a user would write it in YAML (untyped, complete)
        cfg = OmegaConf.create(norm(attrs.asdict(job)))
    c0 = OmegaConf.to_container(cfg, resolve=True, throw_on_missing=True)
    res.n_evals = 0
    v1 = runner.guarded(res, "normalise", verify_training_cfg, cfg)
    if v1 is not runner.FAILED:
        res.n_evals += 1
        c1 = OmegaConf.to_container(v1, resolve=True, throw_on_missing=True)
        why = first_diff(c1, c0)
        if why:
            res.fail("normalise:changes-value", f"verify_training_cfg changed {why}; kwargs={kw}")
        v2 = runner.guarded(res, "normalise:second", verify_training_cfg, v1)
        if v2 is not runner.FAILED:
            res.n_evals += 1
            why = first_diff(OmegaConf.to_container(v2, resolve=True, throw_on_missing=True), c1)
            if why:
                res.fail("normalise:not-idempotent", f"second normalisation changed {why}; kwargs={kw}")
    # YAML save / load (file-like object: same code path as a file name)
    buf = io.StringIO()
    OmegaConf.save(cfg, buf)
    buf.seek(0)
    loaded = OmegaConf.load(buf)
    res.n_evals += 1
    cl = OmegaConf.to_container(loaded, resolve=True)
    why = first_diff(cl, c0)
    if why:
        res.fail("roundtrip:yaml-changes-value", f"save/load changed {why}; kwargs={kw}")
    v3 = runner.guarded(res, "normalise:loaded", verify_training_cfg, loaded)
    if v3 is not runner.FAILED:
        res.n_evals += 1
        c3 = OmegaConf.to_container(v3, resolve=True, throw_on_missing=True)
        why = first_diff(c3, c0)
        if why:
            res.fail("normalise:changes-value-after-load", f"normalising the loaded configuration changed {why}; kwargs={kw}")
        v4 = runner.guarded(res, "normalise:loaded-second", verify_training_cfg, v3)
        if v4 is not runner.FAILED:
            res.n_evals += 1
            why = first_diff(OmegaConf.to_container(v4, resolve=True, throw_on_missing=True), c3)
            if why:
                res.fail("normalise:not-idempotent", f"second normalisation (loaded) changed {why}; kwargs={kw}")
    res.n_evals = max(1, res.n_evals)
    return res


# ---------------------------------------------------------------------------------------
# part (d): invalid / boundary values


def _construct(case):
    """Build the configuration object described by an ``invalid`` case."""
    from sleap_nn import train as T
    from sleap_nn.config import model_config as M

    via = case["via"]
    if via == "ctor":
        return _schema_class(case["cls"])(**{case["field"]: case["value"]})
    if via == "backbone_builder":
        return T.get_backbone_config({case["family"]: {case["field"]: case["value"]}})
    if via == "aug_builder":
        key = "intensity_aug" if case["cls"] == "IntensityConfig" else "geometric_aug"
        other = "geometric_aug" if key == "intensity_aug" else "intensity_aug"
        return T.get_aug_config(**{key: {case["field"]: case["value"]}, other: None})
    if via == "data_builder":
        return T.get_data_config(train_labels_path="a.slp", val_labels_path="b.slp", **{case["field"]: case["value"]})
    if via == "trainer_builder":
        return T.get_trainer_config(**{case["field"]: case["value"]})
    if via == "oneof":
        members = {n: _schema_class(c)() for n, c in case["members"].items()}
        return getattr(M, case["cls"])(**members)
    raise KeyError(via)


def evaluate_invalid(case):
    res = Result()
    expect = case["expect"]
    res.cls(f"clause={case['clause']}", f"expect={expect}", f"via={case['via']}")
    res.nontrivial = expect == "raise"
    target = case.get("cls") or case.get("family")
    try:
        obj = _construct(case)
        raised = None
    except Exception as e:  # noqa: BLE001
        if runner.exc_bucket("x", e) is None and not isinstance(e, (ValueError, TypeError)):
            raise
        raised = e
        obj = None
    desc = {k: v for k, v in case.items() if k not in ("expect", "clause")}
    if expect == "raise" and raised is None:
        res.fail(
            f"invalid:{case['clause']}:accepted:{case.get('group', target)}",
            f"{desc} was accepted although the documented range excludes it (got {str(obj)[:120]})",
        )
    if expect == "accept" and raised is not None:
        res.fail(
            f"invalid:{case['clause']}:valid-value-rejected:{case.get('group', target)}",
            f"{desc} is inside the documented range but raised {type(raised).__name__}: {str(raised)[:160]}",
        )
    return res


NAN = float("nan")
INF = float("inf")
BAD_P = [-0.1, 1.1, NAN, -1e-9, 1.0 + 1e-9, INF, -INF, 2, -1]
GOOD_P = [0.0, 1.0, 0.5, 1e-9, 1.0 - 1e-9]
P_FIELDS = {
    "IntensityConfig": ["uniform_noise_p", "gaussian_noise_p", "contrast_p", "brightness_p"],
    "GeometricConfig": ["affine_p", "erase_p", "mixup_p"],
}
BACKBONE_SIZE_CLASSES = {
    # every backbone class with a model_type field, by family (checked against the module below)
    "convnext": ["ConvNextConfig", "ConvNextSmallConfig", "ConvNextBaseConfig", "ConvNextLargeConfig"],
    "swint": ["SwinTConfig", "SwinTSmallConfig", "SwinTBaseConfig"],
}
UNKNOWN_SIZES = ["huge", "Tiny", "", "xl", "tiny ", "nano", "medium", "TINY"]


def enum_invalid(tier):
    def c(clause, via, expect, **k):
        d = {"clause": clause, "via": via, "expect": expect}
        d.update(k)
        return d

    # probabilities
    for cls, fields in P_FIELDS.items():
        for f in fields:
            for v in BAD_P:
                yield c("probability", "ctor", "raise", cls=cls, field=f, value=v, group=cls)
                yield c("probability", "aug_builder", "raise", cls=cls, field=f, value=v, group=cls)
            for v in GOOD_P:
                yield c("probability", "ctor", "accept", cls=cls, field=f, value=v, group=cls)
                yield c("probability", "aug_builder", "accept", cls=cls, field=f, value=v, group=cls)
    # uniform noise bounds (documented: uniform_noise_min >= 0, uniform_noise_max <= 1)
    for v in [-0.1, -1e-9, -INF, NAN]:
        yield c("noise-bound", "ctor", "raise", cls="IntensityConfig", field="uniform_noise_min", value=v)
    for v in [0.0, 0.3, 1.0]:
        yield c("noise-bound", "ctor", "accept", cls="IntensityConfig", field="uniform_noise_min", value=v)
    for v in [1.1, 1.0 + 1e-9, INF, NAN]:
        yield c("noise-bound", "ctor", "raise", cls="IntensityConfig", field="uniform_noise_max", value=v)
    for v in [1.0, 0.5, 0.0]:
        yield c("noise-bound", "ctor", "accept", cls="IntensityConfig", field="uniform_noise_max", value=v)
    # preprocessing scale
    for v in [-0.5, -1e-9, -1.0, NAN, -INF, [-1.0, 1.0], [1.0, -0.5]]:
        yield c("scale", "ctor", "raise", cls="PreprocessingConfig", field="scale", value=v)
        if not isinstance(v, list):  # the builder documents a float only
            yield c("scale", "data_builder", "raise", cls="PreprocessingConfig", field="scale", value=v)
    for v in [1.0, 0.5, 0.25, 2.0, 1e-3]:
        yield c("scale", "ctor", "accept", cls="PreprocessingConfig", field="scale", value=v)
        yield c("scale", "data_builder", "accept", cls="PreprocessingConfig", field="scale", value=v)
    # backbone sizes
    for fam, classes in BACKBONE_SIZE_CLASSES.items():
        bad = UNKNOWN_SIZES + (["large"] if fam == "swint" else [])
        for cls in classes:
            for v in bad:
                yield c("unknown-backbone-size", "ctor", "raise", cls=cls, field="model_type", value=v, group=fam)
            for v in VALID_SIZES[fam]:
                yield c("unknown-backbone-size", "ctor", "accept", cls=cls, field="model_type", value=v, group=fam)
        for v in bad:
            yield c("unknown-backbone-size", "backbone_builder", "raise", family=fam, field="model_type", value=v, group=fam)
        for v in VALID_SIZES[fam]:
            yield c("unknown-backbone-size", "backbone_builder", "accept", family=fam, field="model_type", value=v, group=fam)
    # one-of unions
    for cls, members in (("BackboneConfig", FAMILY_CLASS), ("HeadConfig", {
        "single_instance": "SingleInstanceConfig", "centroid": "CentroidConfig",
        "centered_instance": "CenteredInstanceConfig", "bottomup": "BottomUpConfig"})):
        names = list(members)
        for k in range(1, len(names) + 1):
            for combo in itertools.combinations(names, k):
                yield c(
                    "one-of", "oneof", "accept" if k == 1 else "raise", cls=cls,
                    members={n: members[n] for n in combo}, group=cls,
                )
    # other validated fields
    for v in [0.0, -1e-3, -INF, NAN]:
        yield c("learning-rate", "ctor", "raise", cls="OptimizerConfig", field="lr", value=v)
        yield c("learning-rate", "trainer_builder", "raise", cls="OptimizerConfig", field="learning_rate", value=v)
    for v in [1e-3, 1e-8, 1.0]:
        yield c("learning-rate", "ctor", "accept", cls="OptimizerConfig", field="lr", value=v)
        yield c("learning-rate", "trainer_builder", "accept", cls="OptimizerConfig", field="learning_rate", value=v)
    for v in ["SGD", "adam", "", "AdamW "]:
        yield c("optimizer-name", "ctor", "raise", cls="TrainerConfig", field="optimizer_name", value=v)
        yield c("optimizer-name", "trainer_builder", "raise", cls="TrainerConfig", field="optimizer", value=v)
    for v in ["Adam", "AdamW"]:
        yield c("optimizer-name", "ctor", "accept", cls="TrainerConfig", field="optimizer_name", value=v)
        yield c("optimizer-name", "trainer_builder", "accept", cls="TrainerConfig", field="optimizer", value=v)
    for v in [0, -1]:
        yield c("step-size", "ctor", "raise", cls="StepLRConfig", field="step_size", value=v)
    for v in [1, 10]:
        yield c("step-size", "ctor", "accept", cls="StepLRConfig", field="step_size", value=v)
    for v in [-1e-6, [1e-4, -1e-4]]:
        yield c("min-lr", "ctor", "raise", cls="ReduceLROnPlateauConfig", field="min_lr", value=v)
    for v in [0.0, 1e-6, [0.0, 1e-5]]:
        yield c("min-lr", "ctor", "accept", cls="ReduceLROnPlateauConfig", field="min_lr", value=v)
    for f, bad, good in (("min_delta", [-1e-6, -1.0], [0.0, 0.01]), ("patience", [-1], [0, 1, 5])):
        for v in bad:
            yield c("early-stopping", "ctor", "raise", cls="EarlyStoppingConfig", field=f, value=v)
        for v in good:
            yield c("early-stopping", "ctor", "accept", cls="EarlyStoppingConfig", field=f, value=v)
    for v in [-1, [0, -1]]:
        yield c("trainer-devices", "ctor", "raise", cls="TrainerConfig", field="trainer_devices", value=v)
    for v in ["auto", 0, 1, 4, [0, 1]]:
        yield c("trainer-devices", "ctor", "accept", cls="TrainerConfig", field="trainer_devices", value=v)


def evaluate_size_census(case):
    """Guard for the table above: every backbone class with a model_type field is covered."""
    import attrs
    from sleap_nn.config import model_config as M

    res = Result()
    res.cls("census")
    res.nontrivial = True
    have = set()
    for name in dir(M):
        obj = getattr(M, name)
        if isinstance(obj, type) and attrs.has(obj) and any(a.name in ("model_type", "size") for a in attrs.fields(obj)):
            have.add(name)
    listed = {c for v in BACKBONE_SIZE_CLASSES.values() for c in v}
    if have != listed:
        raise runner.HarnessError(f"backbone classes with a size field changed: {sorted(have)} vs table {sorted(listed)}")
    return res


def strategy_invalid():
    from hypothesis import strategies as st

    @st.composite
    def one(draw):
        clause = draw(st.sampled_from(["probability", "probability", "scale", "unknown-backbone-size"]))
        if clause == "probability":
            cls = draw(st.sampled_from(sorted(P_FIELDS)))
            f = draw(st.sampled_from(P_FIELDS[cls]))
            side = draw(st.sampled_from(["below", "above", "inside"]))
            if side == "below":
                v = -draw(st.floats(min_value=1e-12, max_value=1e6, allow_nan=False))
            elif side == "above":
                v = 1.0 + draw(st.floats(min_value=1e-9, max_value=1e6, allow_nan=False))
                if v <= 1.0:
                    v = 1.5
            else:
                v = draw(st.floats(min_value=0.0, max_value=1.0, allow_nan=False))
            via = draw(st.sampled_from(["ctor", "aug_builder"]))
            return {"clause": clause, "via": via, "expect": "accept" if side == "inside" else "raise",
                    "cls": cls, "field": f, "value": v, "group": cls}
        if clause == "scale":
            neg = draw(st.booleans())
            mag = draw(st.floats(min_value=1e-6, max_value=16.0, allow_nan=False))
            via = draw(st.sampled_from(["ctor", "data_builder"]))
            return {"clause": clause, "via": via, "expect": "raise" if neg else "accept",
                    "cls": "PreprocessingConfig", "field": "scale", "value": -mag if neg else mag}
        fam = draw(st.sampled_from(sorted(BACKBONE_SIZE_CLASSES)))
        valid = draw(st.booleans())
        if valid:
            v = draw(st.sampled_from(VALID_SIZES[fam]))
        else:
            v = draw(st.text(alphabet="abcdeghilmnrstyxSTB_ 0123", min_size=0, max_size=7))
            if v in VALID_SIZES[fam]:
                v = v + "x"
        via = draw(st.sampled_from(["ctor", "ctor", "backbone_builder"]))
        d = {"clause": clause, "via": via, "expect": "accept" if valid else "raise", "field": "model_type",
             "value": v, "group": fam}
        if via == "ctor":
            d["cls"] = draw(st.sampled_from(BACKBONE_SIZE_CLASSES[fam]))
        else:
            d["family"] = fam
        return d

    return one()


def enum_invalid_with_census(tier):
    yield {"census": True}
    yield from enum_invalid(tier)


def evaluate_invalid_or_census(case):
    if case.get("census"):
        return evaluate_size_census(case)
    return evaluate_invalid(case)


# ---------------------------------------------------------------------------------------
# Hypothesis strategies for builder keyword arguments


def _strategies():
    from hypothesis import strategies as st

    ident = st.text(alphabet="abcXYZ019_-. ", min_size=1, max_size=10)
    text = st.one_of(st.sampled_from(TRICKY_STRINGS), ident)
    path = st.one_of(
        st.builds(lambda a, b, e: f"/data/{a}/{b}{e}", ident, ident, st.sampled_from([".slp", ".pkg.slp", ".mp4", ".ckpt", ""])),
        st.sampled_from(["train.slp", "./x/y.slp", "C:\\data\\labels.v001.slp", "/tmp/a b/c.slp", "~/m.ckpt"]),
        text,
    )
    # floats that are exactly representable in short decimal form as well as arbitrary ones
    nice = st.sampled_from([0.1, 0.25, 0.5, 0.75, 1.5, 2.0, 1e-4, 3e-5, 1e-5, 0.001, 0.3, 1 / 3, 5.0, 2.5])
    posfloat = st.one_of(nice, st.floats(min_value=1e-6, max_value=4.0, allow_nan=False, exclude_min=True))
    unit = st.one_of(st.sampled_from([0.0, 1.0, 0.5]), st.floats(min_value=0.0, max_value=1.0, allow_nan=False))
    gens = {
        "path": path,
        "optpath": st.one_of(st.none(), path),
        "optstr": st.one_of(st.none(), text),
        "provider": st.just("LabelsReader"),
        "bool": st.booleans(),
        "fw": st.sampled_from(["litdata", "torch_dataset", "torch_dataset_np_chunks"]),
        "posint": st.integers(1, 5000),
        "posint_small": st.integers(1, 64),
        "smallint": st.integers(0, 16),
        "topk": st.integers(-1, 5),
        "posfloat": posfloat,
        "nonnegfloat": st.one_of(st.just(0.0), posfloat),
        "optint": st.one_of(st.none(), st.integers(1, 4096)),
        "crop": st.one_of(st.none(), st.lists(st.integers(8, 1024), min_size=2, max_size=2)),
        "init": st.sampled_from(["default", "xavier"]),
        "devices": st.one_of(st.just("auto"), st.integers(0, 8), st.lists(st.integers(0, 7), min_size=1, max_size=3)),
        "accel": st.sampled_from(["cpu", "gpu", "tpu", "ipu", "auto"]),
        "seed": st.integers(0, 2**31 - 1),
        "wandb_mode": st.sampled_from([None, "offline", "online"]),
        "optimizer": st.sampled_from(["Adam", "AdamW"]),
        "lr": st.one_of(nice, st.floats(min_value=1e-8, max_value=1.0, allow_nan=False)),
    }

    def subdict(fields):
        """Random subset of a {field: strategy} table."""

        @st.composite
        def s(draw):
            mode = draw(st.sampled_from(["few", "few", "many", "all"]))
            names = sorted(fields)
            if mode == "all":
                chosen = names
            else:
                chosen = draw(st.lists(st.sampled_from(names), unique=True, min_size=0 if mode == "few" else 2,
                                       max_size=3 if mode == "few" else len(names)))
            return {n: draw(fields[n]) for n in sorted(chosen)}

        return s()

    maybe_int_float = lambda lo, hi: st.one_of(st.integers(lo, hi), st.floats(min_value=lo, max_value=hi, allow_nan=False))  # noqa: E731
    intensity_fields = {
        "uniform_noise_min": st.floats(min_value=0.0, max_value=1.0, allow_nan=False),
        "uniform_noise_max": st.floats(min_value=0.0, max_value=1.0, allow_nan=False),
        "uniform_noise_p": unit,
        "gaussian_noise_mean": st.floats(min_value=-5, max_value=5, allow_nan=False),
        "gaussian_noise_std": posfloat,
        "gaussian_noise_p": unit,
        "contrast_min": st.floats(min_value=0.0, max_value=1.0, allow_nan=False),
        "contrast_max": st.floats(min_value=1.0, max_value=4.0, allow_nan=False),
        "contrast_p": unit,
        "brightness": st.lists(st.floats(min_value=0.0, max_value=2.0, allow_nan=False), min_size=2, max_size=2),
        "brightness_p": unit,
    }
    geometric_fields = {
        "rotation": maybe_int_float(0, 180),
        "scale": st.one_of(
            st.lists(st.floats(min_value=0.5, max_value=1.5, allow_nan=False), min_size=2, max_size=2),
            st.lists(st.floats(min_value=0.5, max_value=1.5, allow_nan=False), min_size=4, max_size=4),
        ),
        "translate_width": st.floats(min_value=0.0, max_value=1.0, allow_nan=False),
        "translate_height": st.floats(min_value=0.0, max_value=1.0, allow_nan=False),
        "affine_p": unit,
        "erase_scale_min": st.floats(min_value=1e-5, max_value=0.01, allow_nan=False),
        "erase_scale_max": st.floats(min_value=0.01, max_value=0.3, allow_nan=False),
        "erase_ratio_min": st.floats(min_value=0.3, max_value=1.0, allow_nan=False),
        "erase_ratio_max": st.floats(min_value=1.0, max_value=3.0, allow_nan=False),
        "erase_p": unit,
        "mixup_lambda": st.lists(st.floats(min_value=0.0, max_value=1.0, allow_nan=False), min_size=2, max_size=2),
        "mixup_p": unit,
    }

    def aug(names, fields):
        return st.one_of(
            st.none(),
            st.sampled_from(names),
            st.lists(st.sampled_from(names), unique=True, min_size=1, max_size=len(names)),
            st.lists(st.sampled_from(names), unique=True, min_size=2, max_size=len(names)),
            subdict(fields),
        )

    unet_fields = {
        "in_channels": st.sampled_from([1, 3]),
        "kernel_size": st.sampled_from([3, 5, 7]),
        "filters": st.sampled_from([8, 16, 24, 32, 64]),
        "filters_rate": st.sampled_from([1.5, 2, 2.0, 1.25]),
        "max_stride": st.sampled_from([8, 16, 32, 64]),
        "stem_stride": st.sampled_from([None, 2, 4]),
        "middle_block": st.booleans(),
        "up_interpolate": st.booleans(),
        "stacks": st.sampled_from([1, 2, 3]),
        "convs_per_block": st.sampled_from([1, 2, 3]),
        "output_stride": st.sampled_from([1, 2, 4, 8]),
    }
    common_tf = {
        "stem_patch_stride": st.sampled_from([2, 4]),
        "in_channels": st.sampled_from([1, 3]),
        "kernel_size": st.sampled_from([3, 5]),
        "filters_rate": st.sampled_from([1.5, 2, 2.0]),
        "convs_per_block": st.sampled_from([1, 2, 3]),
        "up_interpolate": st.booleans(),
        "output_stride": st.sampled_from([1, 2, 4]),
        "max_stride": st.sampled_from([16, 32]),
    }
    ints4 = lambda lo, hi: st.lists(st.integers(lo, hi), min_size=4, max_size=4)  # noqa: E731
    convnext_fields = dict(common_tf)
    convnext_fields.update({
        "model_type": st.sampled_from(VALID_SIZES["convnext"]),
        "arch": st.fixed_dictionaries({"depths": ints4(1, 27), "channels": ints4(8, 1536)}),
        "stem_patch_kernel": st.sampled_from([2, 4]),
    })
    swint_fields = dict(common_tf)
    swint_fields.update({
        "model_type": st.sampled_from(VALID_SIZES["swint"]),
        "arch": st.fixed_dictionaries({"embed": st.sampled_from([48, 96, 128]), "depths": ints4(1, 18), "channels": ints4(1, 32)}),
        "patch_size": st.sampled_from([[4, 4], [2, 2]]),
        "window_size": st.sampled_from([[7, 7], [5, 5]]),
    })
    backbone = st.one_of(
        st.sampled_from(sorted(BACKBONE_PRESETS)),
        st.sampled_from(sorted(BACKBONE_PRESETS)),
        subdict(unet_fields).map(lambda d: {"unet": d}),
        subdict(convnext_fields).map(lambda d: {"convnext": d}),
        subdict(swint_fields).map(lambda d: {"swint": d}),
    )
    part_names = st.one_of(st.none(), st.lists(ident, min_size=1, max_size=4, unique=True))
    sigma = st.one_of(st.sampled_from([1.5, 2.5, 5.0, 10.0]), st.floats(min_value=0.5, max_value=30, allow_nan=False))
    ostride = st.sampled_from([1, 2, 4, 8, 16])
    loss_w = st.one_of(st.none(), st.floats(min_value=0.0, max_value=10.0, allow_nan=False))
    layer_fields = {
        "SingleInstanceConfMapsConfig": {"part_names": part_names, "sigma": sigma, "output_stride": ostride},
        "CentroidConfMapsConfig": {"anchor_part": st.one_of(st.none(), st.integers(0, 12)), "sigma": sigma, "output_stride": ostride},
        "CenteredInstanceConfMapsConfig": {"part_names": part_names, "anchor_part": st.one_of(st.none(), st.integers(0, 12)),
                                           "sigma": sigma, "output_stride": ostride},
        "BottomUpConfMapsConfig": {"part_names": part_names, "sigma": sigma, "output_stride": ostride, "loss_weight": loss_w},
        "PAFConfig": {"edges": st.one_of(st.none(), st.lists(st.lists(ident, min_size=2, max_size=2), min_size=1, max_size=3)),
                      "sigma": sigma, "output_stride": ostride, "loss_weight": loss_w},
    }

    @st.composite
    def head_dict(draw):
        ht = draw(st.sampled_from(HEAD_TYPES))
        d = {}
        others = draw(st.lists(st.sampled_from([h for h in HEAD_TYPES if h != ht]), unique=True, max_size=3))
        for o in sorted(others):
            d[o] = None  # "others should be None"
        d[ht] = {layer: draw(subdict(layer_fields[c])) for layer, c in HEAD_CLASSES[ht].items()}
        keys = draw(st.permutations(sorted(d)))
        return {k: d[k] for k in keys}

    head = st.one_of(st.none(), st.sampled_from(HEAD_TYPES), head_dict(), head_dict())
    step_fields = {"step_size": st.integers(1, 100), "gamma": st.sampled_from([0.1, 0.5, 0.9, 0.3])}
    plateau_fields = {
        "threshold": st.sampled_from([1e-4, 1e-5, 1e-6, 0.01]),
        "threshold_mode": st.sampled_from(["rel", "abs"]),
        "cooldown": st.integers(0, 10),
        "patience": st.integers(0, 50),
        "factor": st.sampled_from([0.1, 0.5, 0.25]),
        "min_lr": st.one_of(st.sampled_from([0.0, 1e-8, 1e-6]), st.lists(st.sampled_from([0.0, 1e-7]), min_size=1, max_size=2)),
    }

    @st.composite
    def sched(draw):
        form = draw(st.sampled_from(["none", "str", "dict", "dict"]))
        if form == "none":
            return None
        name = draw(st.sampled_from(sorted(SCHEDULERS)))
        if form == "str":
            return name
        d = {name: draw(subdict(step_fields if name == "step_lr" else plateau_fields))}
        if draw(st.booleans()):
            other = [k for k in SCHEDULERS if k != name][0]
            d = {other: None, name: d[name]} if draw(st.booleans()) else {name: d[name], other: None}
        return d

    special = {
        "intensity_aug": aug(INTENSITY_NAMES, intensity_fields),
        "geometry_aug": aug(GEOMETRIC_NAMES, geometric_fields),
        "backbone_config": backbone,
        "head_configs": head,
        "lr_scheduler": sched(),
    }

    @st.composite
    def kwargs_for(draw, section, mode=None):
        table = SECTION_ARGS[section]
        names = [a for a, _p, d, _g in table if d is not REQ] + SPECIAL_ARGS[section]
        mode = mode or draw(st.sampled_from(["few", "some", "some", "many", "all"]))
        if mode == "all":
            chosen = list(names)
        elif mode == "few":
            chosen = draw(st.lists(st.sampled_from(names), unique=True, max_size=3))
        elif mode == "some":
            chosen = draw(st.lists(st.sampled_from(names), unique=True, min_size=3, max_size=8))
        else:
            chosen = draw(st.lists(st.sampled_from(names), unique=True, min_size=min(8, len(names)), max_size=len(names)))
        kw = {}
        gen_of = {a: g for a, _p, _d, g in table}
        for a, _p, d, _g in table:
            if d is REQ:
                kw[a] = draw(gens["path"])
        if section == "data":
            # the augmentation arguments only take effect with use_augmentations_train=True
            if any(c in chosen for c in ("intensity_aug", "geometry_aug")) and draw(st.integers(0, 9)) < 9:
                kw["use_augmentations_train"] = True
                chosen = [c for c in chosen if c != "use_augmentations_train"]
        for a in sorted(chosen):
            if a in special:
                kw[a] = draw(special[a])
            elif gen_of[a] == "weights":
                continue
            else:
                kw[a] = draw(gens[gen_of[a]])
        if section == "model" and "pre_trained_weights" in chosen:
            fam = family_of(kw.get("backbone_config"))
            kw["pre_trained_weights"] = None if fam == "unet" else draw(st.sampled_from(WEIGHTS[fam] + [None]))
        return kw

    return st, kwargs_for


def strategy_single():
    st, kwargs_for = _strategies()

    @st.composite
    def case(draw):
        section = draw(st.sampled_from(["data", "data", "model", "model", "trainer", "trainer", "trainer"]))
        return {"builder": section, "kwargs": draw(kwargs_for(section)), "as_tuple": draw(st.booleans())}

    return case()


def _all_kwargs(st, kwargs_for):
    @st.composite
    def allkw(draw):
        kw = {}
        for section in ("data", "model", "trainer"):
            kw.update(draw(kwargs_for(section)))
        return kw

    return allkw()


def strategy_train():
    st, kwargs_for = _strategies()

    @st.composite
    def case(draw):
        return {"kwargs": draw(_all_kwargs(st, kwargs_for)), "as_tuple": draw(st.booleans())}

    return case()


def strategy_normalise():
    st, kwargs_for = _strategies()

    @st.composite
    def case(draw):
        return {
            "kwargs": draw(_all_kwargs(st, kwargs_for)),
            "as_tuple": draw(st.booleans()),
            "form": draw(st.sampled_from(["structured", "structured", "plain"])),
        }

    return case()


def enum_presets(tier):
    """Every documented backbone preset x every head type (string forms), plus every backbone
    family / head type in dict form with one non-default value: through train() and, for one
    head per preset, through normalisation + YAML round trip."""
    base = {"train_labels_path": "train.pkg.slp", "val_labels_path": "val.pkg.slp"}
    for i, preset in enumerate(sorted(BACKBONE_PRESETS)):
        for j, head in enumerate(HEAD_TYPES):
            kw = dict(base, backbone_config=preset, head_configs=head, max_epochs=5 + i, batch_size=2 + j)
            fam, _cls, size = BACKBONE_PRESETS[preset]
            if fam != "unet":
                kw["pre_trained_weights"] = SIZE_WEIGHTS[fam][size]
            yield {"do": "train", "kwargs": kw, "as_tuple": False}
            if j == i % len(HEAD_TYPES):
                yield {"do": "normalise", "kwargs": kw, "as_tuple": False, "form": "structured"}
    dict_backbones = {"unet": {"filters": 16, "max_stride": 8}, "convnext": {"model_type": "base", "in_channels": 3},
                      "swint": {"model_type": "small", "window_size": [5, 5]}}
    for j, (fam, sub) in enumerate(sorted(dict_backbones.items())):
        for head in HEAD_TYPES:
            hd = {head: {layer: {"sigma": 2.5, "output_stride": 2} for layer in HEAD_CLASSES[head]}}
            kw = dict(base, backbone_config={fam: sub}, head_configs=hd, lr_scheduler=sorted(SCHEDULERS)[j % 2])
            yield {"do": "train", "kwargs": kw, "as_tuple": False}
            yield {"do": "normalise", "kwargs": kw, "as_tuple": False, "form": "plain" if j % 2 else "structured"}


def evaluate_preset(case):
    res = evaluate_train(case) if case["do"] == "train" else evaluate_normalise(case)
    res.cls("do=" + case["do"])
    res.nontrivial = True  # a documented preset/head combination, each one distinct
    return res


# ---------------------------------------------------------------------------------------


def parts(tier):
    return [
        Part(
            name="auglists",
            evaluate=evaluate_auglist,
            enumerate=enum_auglists,
            shards={"quick": 1, "thorough": 1},
            exhaustive={"quick": True, "thorough": True},
            min_nontrivial={"quick": 300, "thorough": 300},
        ),
        Part(
            name="presets",
            evaluate=evaluate_preset,
            enumerate=enum_presets,
            shards={"quick": 1, "thorough": 1},
            exhaustive={"quick": True, "thorough": True},
            min_nontrivial={"quick": 60, "thorough": 60},
        ),
        Part(
            name="invalid",
            evaluate=evaluate_invalid_or_census,
            enumerate=enum_invalid_with_census,
            shards={"quick": 1, "thorough": 1},
            exhaustive={"quick": True, "thorough": True},
            min_nontrivial={"quick": 100, "thorough": 100},
        ),
        Part(
            name="invalid_rand",
            evaluate=evaluate_invalid,
            strategy=strategy_invalid,
            budget={"quick": 300, "thorough": 60000},
            shards={"quick": 1, "thorough": 4},
            min_nontrivial={"quick": 60, "thorough": 4000},
        ),
        Part(
            name="single",
            evaluate=evaluate_single,
            strategy=strategy_single,
            budget={"quick": 500, "thorough": 48000},
            shards={"quick": 1, "thorough": 16},
            min_nontrivial={"quick": 100, "thorough": 3000},
        ),
        Part(
            name="train",
            evaluate=evaluate_train,
            strategy=strategy_train,
            budget={"quick": 120, "thorough": 18000},
            shards={"quick": 1, "thorough": 16},
            min_nontrivial={"quick": 35, "thorough": 1500},
        ),
        Part(
            name="normalise",
            evaluate=evaluate_normalise,
            strategy=strategy_normalise,
            budget={"quick": 90, "thorough": 18000},
            shards={"quick": 1, "thorough": 16},
            min_nontrivial={"quick": 25, "thorough": 1500},
        ),
    ]


def extra_coverage():
    return {
        "exhaustive_domain": "all 325 ordered lists of distinct geometric names and all 64 of distinct intensity "
        "names; all 12 backbone preset strings x 4 head type strings and 3 backbone x 4 head dict forms; the grid "
        "of invalid/boundary values of part (d)",
        "doc_inconsistencies": [
            "get_trainer_config/train: shuffle_train docstring 'Default: False', signature default True, docs/config.md True",
            "get_trainer_config/train: ckpt_save_last docstring 'Default: False', signature default True, docs/config.md "
            "False, schema default None",
        ],
    }


if __name__ == "__main__":
    runner.main(__name__)
