"""C18 - interchangeable data-pipeline implementations produce the same samples.

Parts `frameworks` (joint axis; carries the thorough budget, regression inputs name it) and
`fw-<model type>-scale-<1|down|up>` (quick tier: one stratum each, so that every model
type x scale class is explored under every seed) - differential between the three
user-selectable data frameworks: a synthesised label set (1-2 PNG videos of possibly different size and channel count,
NaN patterns incl. missing anchor, empty instances, all-empty frames, predicted
instances, user+predicted pairs) and a configuration (model type x scale, source
channels x is_rgb, max_stride x head strides, sigmas, max_hw x route, anchor, crop) are
fed to
  (A) the in-memory `*Dataset`,
  (B) the same class with `np_chunks=True` (.npz files in a scratch directory),
  (C) `*_data_chunks` (called exactly like `training/get_bin_files.py` does) -> litdata
      chunk files -> the repo's `*StreamingDataset` (real `__init__`, real
      `super().__getitem__`).  In the quick tier the chunk files are written in-process by
      `litdata.streaming.cache.Cache` - the writer `ld.optimize` itself uses, same item
      serialisers (probed: identical `data_format` ['pil','tensor',...,'int']; the PIL
      serialiser stores raw bytes, it is lossless) - which takes 20 ms instead of the 8 s
      `ld.optimize` needs to spawn a worker.  Part `litdata_optimize` (thorough tier only)
      runs the real `ld.optimize(..., num_workers=1)`.
Samples are matched by (video_idx, frame_idx, k-th sample of that frame), never by
position, and the compared keys are exactly network input / keypoints the targets are
drawn from / targets / frame metadata (DESIGN.md C18 "Compared keys").

Part `datapipes`: every legacy DataPipe block is fed a one-element source list and every
key it produces is compared with its functional counterpart on the same input.

Sensitivity aid: the environment variable VERIF_C18_MUTE (comma separated bucket
prefixes, default empty) routes the named buckets into `excluded` instead of failing, so
that the mutation matrix stays informative while a genuine finding is still unrepaired.
"""

import functools
import inspect
import math
import os
import shutil

from vlib import env, runner, synth
from vlib.runner import Part, Result

PROPERTY = "C18"
LEVEL = "exploration"
RULE = (
    "frameworks part: a case is a label-set spec + (model type, scale, is_rgb, max_stride, head strides/sigmas, max_hw "
    "and the route it reaches the chunk function by, anchor, crop size); every (frame, instance) sample is obtained from "
    "the in-memory Dataset, the np_chunks Dataset and chunk function -> litdata chunk file -> StreamingDataset and "
    "compared pairwise; non-trivial = (scale != 1 or size matching changes some frame or an anchor keypoint is missing) "
    "and at least two frameworks produced a comparable sample; datapipes part: a case is (block, example dict, block "
    "parameters); non-trivial = the block is not a no-op on that example (scale != 1, padding needed, dtype/channel "
    "conversion, or a NaN keypoint for the target generators)"
)
ASSUMPTIONS = [
    "augmentation is off: with augmentation on the in-memory datasets augment the stride-padded image while the streaming datasets pad after augmenting, i.e. the documented orders differ (and samples are random)",
    "centered-instance at scale != 1 is generated and run through all three frameworks but compared only between the in-memory and np_chunks modes (same class); the streaming path crops first and resizes the crop, the Dataset resizes first and crops at the unscaled crop size - documented in both places - so those samples are counted (class 'centered-scaled:stream-not-compared'), not judged",
    "the centroid chunk function rescales only `centroids`; its raw `instances` key feeds no target and is not compared against the streaming path",
    "frames whose instances are all empty are skipped by the Dataset classes; the chunk functions raise ValueError (np.stack of an empty list in process_lf) on such a frame, so the litdata path is fed only frames with a non-empty instance (counted as class 'all-empty-frame:chunk-fn-raises'); reported, not judged - the statement compares samples, not the crash behaviour of chunk generation",
    "centered-instance `num_instances` is frame metadata that feeds no target: the Dataset counts empty instances of the frame, process_lf does not; it is compared only for frames without an empty instance (class 'centered:num_instances-metadata-differs' otherwise)",
    "single-instance label sets have exactly one non-empty (user) instance per frame after the documented user_instances_only filter; a predicted instance may accompany it (SLEAP keeps the prediction a user instance was corrected from)",
    "DataPipe SizeMatcher only pads while apply_sizematcher also rescales; they are compared on their common documented domain (the image already matches the target in one dimension, so the scale ratio is 1) and on float images (it follows Normalizer in every pipeline)",
    "MultiConfidenceMapGenerator(centroids=False) does not slice to num_instances while generate_multiconfmaps does; rows beyond num_instances are NaN padding in every pipeline, which is what is generated",
    "quick tier: litdata chunk files are written by litdata.streaming.cache.Cache in-process (the writer ld.optimize uses) instead of ld.optimize's worker processes; the real ld.optimize runs in the thorough tier",
]

KINDS = ["single", "bottomup", "centroid", "centered"]
IMG_KEY = {"single": "image", "bottomup": "image", "centroid": "image", "centered": "instance_image"}
KP_KEYS = {"single": ["instances"], "bottomup": ["instances"], "centroid": ["centroids"], "centered": ["instance", "centroid"]}
MAP_KEYS = {
    "single": [("confidence_maps", "cm")],
    "bottomup": [("confidence_maps", "cm"), ("part_affinity_fields", "paf")],
    "centroid": [("centroids_confidence_maps", "cm")],
    "centered": [("confidence_maps", "cm")],
}
META_KEYS = ["frame_idx", "video_idx", "num_instances", "orig_size"]

# tolerances (DESIGN.md C18 oracle)
TOL_IMG = 1.0 / 255.0 + 1e-6  # one 8-bit quantisation step (ToPILImage truncates) + float32 rounding
TOL_KP = 1e-4  # float32 products of coordinates < 1e3 px in a different association order
TOL_MAP = 1e-5  # same float32 formula on (nearly) the same keypoints
GAUSS_LIP = 0.607  # max slope of exp(-r^2/2s^2) is exp(-1/2)/s: map slack per unit keypoint difference

_MUTED = [s for s in os.environ.get("VERIF_C18_MUTE", "").split(",") if s]


def _fail(res, bucket, msg):
    if any(bucket.startswith(m) for m in _MUTED):
        res.excluded += 1
        return
    res.fail(bucket, msg)


# ----------------------------------------------------------------------------------
# frameworks part: construction


def _eff_max_hw(cfg):
    return tuple(cfg["max_hw"])


def _data_config(cfg):
    mh, mw = (cfg["max_hw"] if cfg["hw_route"] == "config" else (None, None))
    return synth.data_config(is_rgb=cfg["is_rgb"], user_instances_only=cfg["uio"], max_height=mh, max_width=mw)


def _heads(cfg):
    from omegaconf import OmegaConf

    head = OmegaConf.create({"sigma": cfg["sigma"], "output_stride": cfg["stride"], "anchor_part": cfg["anchor"]})
    pafs = OmegaConf.create({"sigma": cfg["paf_sigma"], "output_stride": cfg["paf_stride"]})
    return head, pafs


def _make_dataset(kind, labels, cfg, np_chunks, chunks_dir):
    from sleap_nn.data.custom_datasets import BottomUpDataset, CenteredInstanceDataset, CentroidDataset, SingleInstanceDataset

    head, pafs = _heads(cfg)
    common = dict(
        labels=labels, data_config=_data_config(cfg), max_stride=cfg["max_stride"], scale=cfg["scale"], apply_aug=False,
        max_hw=_eff_max_hw(cfg), np_chunks=np_chunks, np_chunks_path=chunks_dir,
    )
    if kind == "single":
        return SingleInstanceDataset(confmap_head_config=head, **common)
    if kind == "centroid":
        return CentroidDataset(confmap_head_config=head, **common)
    if kind == "centered":
        return CenteredInstanceDataset(crop_hw=(cfg["crop"], cfg["crop"]), confmap_head_config=head, **common)
    return BottomUpDataset(confmap_head_config=head, pafs_head_config=pafs, **common)


def _chunk_fn(kind, labels, cfg):
    """functools.partial of the chunk function, built the way training/get_bin_files.py builds it."""
    from sleap_nn.data import get_data_chunks as g
    from sleap_nn.data.providers import get_max_height_width, get_max_instances

    dc = _data_config(cfg)
    max_instances = get_max_instances(labels)
    # route "param": the trainer leaves preprocessing.max_height/width None and passes the size as max_hw;
    # route "config": the user set preprocessing.max_height/width, max_hw carries the labels' own maximum
    max_hw = _eff_max_hw(cfg) if cfg["hw_route"] == "param" else get_max_height_width(labels)
    uio, scale = cfg["uio"], cfg["scale"]
    if kind == "single":
        return functools.partial(g.single_instance_data_chunks, data_config=dc, user_instances_only=uio, max_hw=max_hw, scale=scale)
    if kind == "centroid":
        return functools.partial(g.centroid_data_chunks, data_config=dc, max_instances=max_instances, anchor_ind=cfg["anchor"],
                                 user_instances_only=uio, max_hw=max_hw, scale=scale)
    if kind == "centered":
        return functools.partial(g.centered_instance_data_chunks, data_config=dc, max_instances=max_instances,
                                 crop_size=(cfg["crop"], cfg["crop"]), anchor_ind=cfg["anchor"], user_instances_only=uio,
                                 max_hw=max_hw, scale=scale)
    return functools.partial(g.bottomup_data_chunks, data_config=dc, max_instances=max_instances, user_instances_only=uio,
                             max_hw=max_hw, scale=scale)


def _stream_dataset(kind, cfg, edge_inds, input_dir):
    from sleap_nn.data import streaming_datasets as s

    head, pafs = _heads(cfg)
    if kind == "single":
        return s.SingleInstanceStreamingDataset(confmap_head=head, max_stride=cfg["max_stride"], apply_aug=False, input_dir=input_dir, shuffle=False)
    if kind == "centroid":
        return s.CentroidStreamingDataset(confmap_head=head, max_stride=cfg["max_stride"], apply_aug=False, input_dir=input_dir, shuffle=False)
    if kind == "centered":
        return s.CenteredInstanceStreamingDataset(confmap_head=head, max_stride=cfg["max_stride"], crop_hw=(cfg["crop"], cfg["crop"]),
                                                  input_scale=cfg["scale"], apply_aug=False, input_dir=input_dir, shuffle=False)
    return s.BottomUpStreamingDataset(confmap_head=head, pafs_head=pafs, edge_inds=edge_inds, max_stride=cfg["max_stride"],
                                      apply_aug=False, input_dir=input_dir, shuffle=False)


def _frame_has_nonempty(fspec, uio):
    insts = fspec["instances"]
    if uio and any(not i.get("predicted") for i in insts):
        insts = [i for i in insts if not i.get("predicted")]
    return any(any(p is not None for p in i["pts"]) for i in insts)


def _expected_keys(spec, cfg, kind):
    """Label-order enumeration of the samples the statement expects: (video, frame_idx, k)."""
    out = []
    for f in spec["frames"]:
        insts = f["instances"]
        if cfg["uio"] and any(not i.get("predicted") for i in insts):
            insts = [i for i in insts if not i.get("predicted")]
        nonempty = [i for i in insts if any(p is not None for p in i["pts"])]
        if not nonempty:
            continue
        n = len(nonempty) if kind == "centered" else 1
        out.extend((f["video"], f["frame_idx"], k) for k in range(n))
    return sorted(out)


class _Quiet:
    """fd-level silence for ld.optimize (its worker process inherits the descriptors)."""

    def __enter__(self):
        import sys

        sys.stdout.flush()
        sys.stderr.flush()
        self.saved = (os.dup(1), os.dup(2))
        self.null = os.open(os.devnull, os.O_WRONLY)
        os.dup2(self.null, 1)
        os.dup2(self.null, 2)

    def __exit__(self, *a):
        import sys

        sys.stdout.flush()
        sys.stderr.flush()
        os.dup2(self.saved[0], 1)
        os.dup2(self.saved[1], 2)
        for fd in (*self.saved, self.null):
            os.close(fd)


def _write_chunks(res, kind, fn, inputs, outdir, real_optimize):
    """chunk function -> litdata chunk files. Returns number of items or runner.FAILED."""
    if real_optimize:
        import litdata as ld

        # litdata's intermediate folders default to <tempdir>/chunks and <tempdir>/data: keep them in the case's scratch dir
        saved = {k: os.environ.get(k) for k in ("DATA_OPTIMIZER_CACHE_FOLDER", "DATA_OPTIMIZER_DATA_CACHE_FOLDER")}
        os.environ["DATA_OPTIMIZER_CACHE_FOLDER"] = outdir + "-tmp/chunks"
        os.environ["DATA_OPTIMIZER_DATA_CACHE_FOLDER"] = outdir + "-tmp/data"
        try:
            with _Quiet():
                ld.optimize(fn=fn, inputs=inputs, output_dir=outdir, num_workers=1, chunk_size=100)
        except Exception as e:  # noqa: BLE001  (a chunk function failing in the worker surfaces as a litdata error here)
            _fail(res, f"frameworks:{kind}:ld.optimize:raise", f"ld.optimize failed on valid labelled frames: {type(e).__name__}: {str(e)[:300]}")
            return runner.FAILED
        finally:
            for k, v in saved.items():
                if v is None:
                    os.environ.pop(k, None)
                else:
                    os.environ[k] = v
        if not any(f.endswith(".bin") for f in os.listdir(outdir)):
            _fail(res, f"frameworks:{kind}:ld.optimize:no-chunks", "ld.optimize finished without writing a chunk file (worker failed)")
            return runner.FAILED
        return -1
    from litdata.streaming.cache import Cache

    cache = Cache(outdir, chunk_size=100)
    n = 0
    for x in inputs:
        out = runner.guarded(res, f"frameworks:{kind}:chunk-fn", lambda: (lambda o: list(o) if inspect.isgenerator(o) else [o])(fn(x)))
        if out is runner.FAILED:
            return out
        for item in out:
            cache[n] = item
            n += 1
    if n == 0:  # litdata's merge() would wait for an index file forever
        _fail(res, f"frameworks:{kind}:chunk-fn:no-items", f"the chunk function produced no item for {len(inputs)} labelled frames with a non-empty instance")
        return runner.FAILED
    cache.done()
    cache.merge()
    return n


def _read_all(res, prefix, ds):
    n = runner.guarded(res, prefix + ":len", len, ds)
    if n is runner.FAILED:
        return None
    out = []
    for i in range(n):
        s = runner.guarded(res, prefix + ":getitem", ds.__getitem__, i)
        if s is runner.FAILED:
            return None
        out.append(s)
    return out


def _keyed(samples):
    seen, out = {}, {}
    for s in samples:
        fk = (int(s["video_idx"]), int(s["frame_idx"]))
        k = seen.get(fk, 0)
        seen[fk] = k + 1
        out[fk + (k,)] = s
    return out


# ----------------------------------------------------------------------------------
# frameworks part: comparison


def _t64(v):
    import numpy as np
    import torch

    if isinstance(v, torch.Tensor):
        return v.detach().to(torch.float64)
    if isinstance(v, np.ndarray):
        return torch.from_numpy(np.asarray(v, dtype=np.float64))
    return torch.tensor(float(v), dtype=torch.float64)


def _diff(x, y, squeeze=False):
    """('shape'|'nan', text) or ('ok', max abs difference over the commonly finite entries)."""
    import torch

    x, y = _t64(x), _t64(y)
    if squeeze:
        x, y = x.squeeze(), y.squeeze()
    if x.shape != y.shape:
        return "shape", f"{tuple(x.shape)} vs {tuple(y.shape)}"
    if x.numel() == 0:
        return "ok", 0.0
    nx, ny = torch.isnan(x), torch.isnan(y)
    if not torch.equal(nx, ny):
        return "nan", f"{int(nx.sum())} vs {int(ny.sum())} NaN entries"
    d = (torch.nan_to_num(x, nan=0.0, posinf=1e30, neginf=-1e30) - torch.nan_to_num(y, nan=0.0, posinf=1e30, neginf=-1e30)).abs()
    return "ok", float(d.max())


def _compare(res, kind, pair, key3, a, b, cfg, exact_img, flags):
    """Pairwise differential on one (frame, instance). `pair` e.g. 'mem-vs-stream'."""
    pre = f"frameworks:{kind}:{pair}"
    where = f"video {key3[0]} frame {key3[1]} sample {key3[2]}"
    res.n_evals += 1
    vs_stream = pair.endswith("stream")
    # ---- metadata
    for k in META_KEYS:
        if k == "num_instances" and kind == "centered" and vs_stream and flags["frame_has_empty"].get(key3[:2]):
            res.cls("centered:num_instances-metadata-differs")
            continue
        st, d = _diff(a[k], b[k], squeeze=True)
        if st != "ok" or d != 0.0:
            _fail(res, f"{pre}:meta:{k}", f"{where}: {k} = {a[k]} vs {b[k]}")
    # ---- network input
    ik = IMG_KEY[kind]
    st, d = _diff(a[ik], b[ik])
    if st != "ok":
        _fail(res, f"{pre}:image-shape", f"{where}: {ik} {d}")
    else:
        tol = 0.0 if exact_img else TOL_IMG
        if not d <= tol:
            _fail(res, f"{pre}:image:{'no-resampling' if exact_img else 'resampled'}",
                  f"{where}: {ik} differs by {d:.6f} (> {tol:.6f}); scale {cfg['scale']} max_hw {cfg['max_hw']} is_rgb {cfg['is_rgb']}")
    # ---- keypoints the targets are drawn from
    kpdiff, kp_ok = 0.0, True
    for k in KP_KEYS[kind] + (["instances"] if kind == "centroid" and not vs_stream else []):
        st, d = _diff(a[k], b[k], squeeze=True)
        if st == "shape":
            kp_ok = False
            if kind == "single" and flags["has_pair"]:
                _fail(res, "frameworks:single:channels:user+predicted-frame",
                      f"{where}: `{k}` {tuple(a[k].shape)} vs {tuple(b[k].shape)}: the Dataset pads single-instance keypoints to the unfiltered instance count of the label set, "
                      f"the chunk function does not; confidence-map channel counts differ accordingly")
            else:
                _fail(res, f"{pre}:keypoints-shape:{k}", f"{where}: {k} {d}")
        elif st == "nan":
            kp_ok = False
            _fail(res, f"{pre}:keypoints-nan:{k}", f"{where}: {k} {d}")
        else:
            kpdiff = max(kpdiff, d)
            if not d <= TOL_KP:
                _fail(res, f"{pre}:keypoints:{k}", f"{where}: {k} differ by {d:.5f} px (> {TOL_KP}); scale {cfg['scale']} max_hw {cfg['max_hw']} anchor {cfg['anchor']}")
    # ---- targets
    for k, typ in MAP_KEYS[kind]:
        st, d = _diff(a[k], b[k])
        if st != "ok":
            if kind == "single" and flags["has_pair"] and not kp_ok:
                continue  # same root cause, already reported in its own bucket
            _fail(res, f"{pre}:targets-shape:{k}", f"{where}: {k} {d}")
            continue
        if not kp_ok:
            continue
        if typ == "cm":
            tol = TOL_MAP + GAUSS_LIP / (cfg["sigma"] * cfg["stride"]) * kpdiff
        else:  # PAF = unit vector x exp(-d^2/2s^2)-like weight; both vary at most ~1/px near an edge of >= 1 px
            tol = TOL_MAP + 2.0 * kpdiff
        if not d <= tol:
            _fail(res, f"{pre}:targets:{k}", f"{where}: {k} differ by {d:.6f} (> {tol:.6f}) with keypoints equal within {kpdiff:.2e}")


def _eval_frameworks(case, real_optimize=False):
    import sleap_io as sio  # noqa: F401  (after env.setup)

    res = Result()
    res.n_evals = 0
    spec, cfg, kind = case["spec"], case["cfg"], case["kind"]
    d = env.scratch_dir("c18")
    try:
        # one independent Labels object per framework: the user-instance filter rewrites lf.instances in place
        labels_a, _ = synth.build_labels(spec, d + "/src")
        labels_b, _ = synth.build_labels(spec, d + "/src")
        labels_c, _ = synth.build_labels(spec, d + "/src")
        got = {}
        ds_a = runner.guarded(res, f"frameworks:{kind}:mem:construct", _make_dataset, kind, labels_a, cfg, False, d + "/unused")
        second = int(case.get("epochs", 1)) >= 2  # judge the SECOND pass over each dataset (epoch 2 of a training run)
        if ds_a is not runner.FAILED:
            got["mem"] = _read_all(res, f"frameworks:{kind}:mem", ds_a)
            if second and got["mem"] is not None:
                got["mem"] = _read_all(res, f"frameworks:{kind}:mem:second-pass", ds_a)
        if case.get("reuse_dir"):
            # history: the chunk directory was used before, in this process, by a dataset over DIFFERENT labels (every
            # keypoint moved by 3 px) that was read completely; the judged dataset then regenerates its chunks there
            import copy

            spec0 = copy.deepcopy(spec)
            for f in spec0["frames"]:
                v = spec0["videos"][f["video"]]
                for i in f["instances"]:
                    i["pts"] = [None if p_ is None else [p_[0] + (3.0 if p_[0] < v["w"] / 2 else -3.0), p_[1] + (3.0 if p_[1] < v["h"] / 2 else -3.0)] for p_ in i["pts"]]
            labels_0, _ = synth.build_labels(spec0, d + "/src")
            ds_0 = runner.guarded(res, f"frameworks:{kind}:npz:earlier-dataset-in-same-directory", _make_dataset, kind, labels_0, cfg, True, d + "/npz")
            if ds_0 is not runner.FAILED:
                _read_all(res, f"frameworks:{kind}:npz:earlier-dataset-in-same-directory", ds_0)
            res.cls("history=chunk-directory-used-before")
        ds_b = runner.guarded(res, f"frameworks:{kind}:npz:construct", _make_dataset, kind, labels_b, cfg, True, d + "/npz")
        if ds_b is not runner.FAILED:
            got["npz"] = _read_all(res, f"frameworks:{kind}:npz", ds_b)
            if second and got["npz"] is not None:
                got["npz"] = _read_all(res, f"frameworks:{kind}:npz:second-pass", ds_b)
        # ---- litdata path, fed like get_bin_files.py feeds it (label order, (lf, video index))
        fn = _chunk_fn(kind, labels_c, cfg)
        inputs, n_all_empty = [], 0
        for lf, fs in zip(labels_c, spec["frames"]):
            if _frame_has_nonempty(fs, cfg["uio"]):
                inputs.append((lf, labels_c.videos.index(lf.video)))
            else:
                n_all_empty += 1
                if not real_optimize:
                    try:
                        o = fn((lf, labels_c.videos.index(lf.video)))
                        list(o) if inspect.isgenerator(o) else None
                        res.cls("all-empty-frame:chunk-fn-returns")
                    except ValueError:
                        res.cls("all-empty-frame:chunk-fn-raises")
        if not inputs:  # nothing to optimise (litdata's writer would wait for chunks forever)
            raise runner.HarnessError("generator produced a label set without any non-empty frame")
        nw = _write_chunks(res, kind, fn, inputs, d + "/bin", real_optimize)
        if nw is not runner.FAILED:
            ds_c = runner.guarded(res, f"frameworks:{kind}:stream:construct", _stream_dataset, kind, cfg, labels_c.skeletons[0].edge_inds, d + "/bin")
            if ds_c is not runner.FAILED:
                got["stream"] = _read_all(res, f"frameworks:{kind}:stream", ds_c)
                if second and got["stream"] is not None:
                    got["stream"] = _read_all(res, f"frameworks:{kind}:stream:second-pass", ds_c)
        got = {k: _keyed(v) for k, v in got.items() if v is not None}

        # ---- classes / flags
        eff = _eff_max_hw(cfg)
        vids = spec["videos"]
        sizematch = any(eff[0] is not None and (v["h"], v["w"]) != tuple(eff) for v in vids)
        anchor_missing = cfg["anchor"] is not None and any(
            i["pts"][cfg["anchor"]] is None and any(p is not None for p in i["pts"]) for f in spec["frames"] for i in f["instances"]
        )
        flags = {
            "has_pair": kind == "single" and any(len(f["instances"]) > 1 for f in spec["frames"]),
            "frame_has_empty": {(f["video"], f["frame_idx"]): any(all(p is None for p in i["pts"]) for i in f["instances"]) for f in spec["frames"]},
        }
        has_empty = any(flags["frame_has_empty"].values())
        src_ch = sorted({synth.channels_of(v) for v in vids})
        res.cls(
            f"{kind}|scale={cfg['scale']}", f"src_ch={'+'.join(map(str, src_ch))}|is_rgb={cfg['is_rgb']}",
            f"max_stride={cfg['max_stride']}|stride={cfg['stride']}", f"max_hw={cfg['hw_class']}|route={cfg['hw_route']}",
            f"{kind}|scale{'=1' if cfg['scale'] == 1.0 else ('<1' if cfg['scale'] < 1 else '>1')}|max_hw={cfg['hw_class']}",
            "sizematch-active" if sizematch else "sizematch-idle", "anchor-missing" if anchor_missing else "anchor-present-or-none",
            f"n_videos={len(vids)}", f"uio={cfg['uio']}",
        )
        fr_ = spec["frames"]
        if any(a["video"] != b["video"] and a["frame_idx"] == b["frame_idx"] for a, b in zip(fr_, fr_[1:])):
            res.cls("adjacent-frames:same-index-different-video")
        res.cls("pass=second" if second else "pass=first")
        if has_empty:
            res.cls("has-empty-instance")
        if n_all_empty:
            res.cls("has-all-empty-frame")
        if flags["has_pair"]:
            res.cls("single:user+predicted-pair")
        if any(i.get("predicted") for f in spec["frames"] for i in f["instances"]):
            res.cls("has-predicted-instance")
        if real_optimize:
            res.cls("real-ld.optimize")

        # ---- sample sets
        want = _expected_keys(spec, cfg, kind)
        for fw, m in got.items():
            if sorted(m) != want:
                _fail(res, f"frameworks:{kind}:{fw}:sample-set", f"{fw} produced samples {sorted(m)} but the labels hold {want} (video, frame, k)")
        # ---- pairwise differential
        stream_comparable = not (kind == "centered" and cfg["scale"] != 1.0)
        if not stream_comparable:
            res.cls("centered-scaled:stream-not-compared")
        pairs = [("mem", "npz"), ("mem", "stream"), ("npz", "stream")]
        compared = 0
        for fa, fb in pairs:
            if fa not in got or fb not in got:
                continue
            if fb == "stream" and not stream_comparable:
                continue
            for key3 in sorted(set(got[fa]) & set(got[fb])):
                v = vids[key3[0]]
                exact = (
                    kind != "centered" and cfg["scale"] == 1.0 and (eff[0] is None or (v["h"], v["w"]) == tuple(eff))
                    and not (synth.channels_of(v) == 3 and not cfg["is_rgb"])
                )
                _compare(res, kind, f"{fa}-vs-{fb}", key3, got[fa][key3], got[fb][key3], cfg, exact, flags)
                compared += 1
        res.cls(f"frameworks-read={len(got)}")
        res.nontrivial = compared > 0 and len(got) >= 2 and (cfg["scale"] != 1.0 or sizematch or anchor_missing)
        res.n_evals = max(1, res.n_evals)
        return res
    finally:
        shutil.rmtree(d, ignore_errors=True)


def eval_frameworks(case):
    return _eval_frameworks(case, real_optimize=False)


def eval_frameworks_optimize(case):
    return _eval_frameworks(case, real_optimize=True)


# ----------------------------------------------------------------------------------
# frameworks part: generator


def _instance(st, draw, n_nodes, h, w, pattern):
    pts = [[draw(st.integers(2, w - 3)) + draw(st.sampled_from([0.0, 0.25, 0.5])), draw(st.integers(2, h - 3)) + draw(st.sampled_from([0.0, 0.5, 0.75]))]
           for _ in range(n_nodes)]
    if pattern == "random":
        keep = draw(st.integers(0, n_nodes - 1))
        pts = [p if (i == keep or draw(st.booleans())) else None for i, p in enumerate(pts)]
    elif pattern == "single":
        keep = draw(st.integers(0, n_nodes - 1))
        pts = [p if i == keep else None for i, p in enumerate(pts)]
    elif pattern == "none":
        pts = [None] * n_nodes
    return pts


# joint axis (kind, scale class, max_hw class): ONE draw; the concrete value inside a class is a secondary draw
SCALE_CLASSES = {"single": ("1", "1", "down", "up"), "bottomup": ("1", "1", "down", "up"), "centroid": ("1", "1", "down", "up"),
                 "centered": ("1", "1", "1", "down", "up")}
HW_CLASSES = ["exact", "rescale", "wide", "none"]
JOINT = [(k, s, hc) for k in KINDS for s in SCALE_CLASSES[k] for hc in HW_CLASSES]
STRIDES = [(1, 1, 2), (8, 2, 4), (16, 2, 4), (16, 4, 8), (32, 1, 2), (16, 1, 4), (32, 4, 4)]  # (max_stride, confmap stride, paf stride)
VIDKINDS = [("texture", False), ("texture", True), ("texture_rgb", False), ("texture_rgb", True), ("rgb", True), ("rgb", False), ("gray_x", False), ("gray_y", True)]


def _rot(lst, k):
    k %= len(lst)
    return lst[k:] + lst[:k]


def strategy_frameworks(fixed_kind=None, fixed_scale_class=None):
    """Cases for one (model type, scale class) stratum, or for the whole joint axis when nothing is fixed.

    Hypothesis' joint coverage of (model type x scale x max_hw) stayed lumpy even when drawn as ONE choice
    (450 cases never paired single-instance with scale<1 and max_hw 'exact'), so the quick/thorough tiers run one
    Part per (model type, scale class) stratum with its own budget; max_hw class is the remaining single draw.
    """
    from hypothesis import strategies as st

    # all strata run under the same Hypothesis seed: rotate the choice lists per stratum so that they do not all
    # receive the same sequence of secondary classes
    rot = 0 if fixed_kind is None else 1 + KINDS.index(fixed_kind) * 3 + ("1", "down", "up").index(fixed_scale_class)

    @st.composite
    def case(draw):
        if fixed_kind is None:
            kind, scale_class, hw_class = draw(st.sampled_from(JOINT))
        else:
            kind, scale_class = fixed_kind, fixed_scale_class
            hw_class = draw(st.sampled_from(_rot(HW_CLASSES, rot)))
        scale = {"1": 1.0, "down": draw(st.sampled_from([0.5, 0.75])), "up": 1.5}[scale_class]
        vkind, is_rgb = draw(st.sampled_from(_rot(VIDKINDS, rot)))
        max_stride, stride, paf_stride = draw(st.sampled_from(_rot(STRIDES, rot)))
        n_nodes = draw(st.integers(2, 4)) if kind == "bottomup" else draw(st.integers(1, 4))
        nv = draw(st.sampled_from([1, 2]))
        videos = []
        for v in range(nv):
            vk = vkind if (v == 0 or draw(st.integers(0, 4)) > 0) else draw(st.sampled_from(["texture", "texture_rgb"]))
            videos.append({"h": draw(st.sampled_from([40, 48, 64])), "w": draw(st.sampled_from([48, 64, 80])), "kind": vk, "n_frames": 3, "seed": draw(st.integers(0, 99))})
        if nv == 2 and draw(st.booleans()) and (videos[0]["h"], videos[0]["w"]) == (videos[1]["h"], videos[1]["w"]):
            videos[1]["w"] = 48 if videos[1]["w"] != 48 else 80  # two videos of different size
        anchor = None
        if kind in ("centroid", "centered"):
            anchor = draw(st.one_of(st.none(), st.integers(0, n_nodes - 1), st.integers(0, n_nodes - 1), st.integers(0, n_nodes - 1)))
        pair_class = kind == "single" and draw(st.integers(0, 3)) == 0  # user + predicted instance in one frame
        uio = True if pair_class else draw(st.booleans())
        frames, used = [], set()
        # "mirrored": the same frame index labelled in both videos, listed one after the other (what label sets
        # of several short clips look like: every clip has its frame 0 labelled)
        mirrored = nv == 2 and draw(st.booleans())
        slots = None
        if mirrored:
            k0 = draw(st.integers(0, 2))
            first = draw(st.integers(0, 1))
            slots = [(first, k0), (1 - first, k0)] + ([(draw(st.integers(0, 1)), (k0 + 1) % 3)] if draw(st.booleans()) else [])
        for fi_ in range(len(slots) if slots else draw(st.integers(1, 3))):
            v = slots[fi_][0] if slots else draw(st.integers(0, nv - 1))
            fidx = slots[fi_][1] if slots else draw(st.integers(0, 2))
            if (v, fidx) in used:
                continue
            used.add((v, fidx))
            h, w = videos[v]["h"], videos[v]["w"]
            if kind == "single":
                pat = draw(st.sampled_from(["full", "full", "random", "single"]))
                insts = [{"pts": _instance(st, draw, n_nodes, h, w, pat), "predicted": (not pair_class) and draw(st.integers(0, 3)) == 0, "score": 0.8}]
                if pair_class and (fi_ == 0 or draw(st.booleans())):
                    pred = {"pts": _instance(st, draw, n_nodes, h, w, "full"), "predicted": True, "score": 0.7}
                    insts = [pred] + insts if draw(st.booleans()) else insts + [pred]
            else:
                fclass = draw(st.sampled_from(["normal"] * 4 + ["with_empty", "with_empty", "all_empty", "all_empty"]))
                insts = []
                for k in range(draw(st.integers(1, 3))):
                    if fclass == "all_empty":
                        pat = "none"
                    elif fclass == "with_empty" and k == 0:
                        pat = "none"
                    else:
                        pat = draw(st.sampled_from(["full", "full", "random", "anchor_missing", "anchor_missing", "single"]))
                    pts = _instance(st, draw, n_nodes, h, w, "full" if pat == "anchor_missing" else pat)
                    if pat == "anchor_missing" and anchor is not None and n_nodes > 1:
                        pts[anchor] = None
                    insts.append({"pts": pts, "predicted": draw(st.integers(0, 3)) == 0, "score": 0.8})
                if fclass == "with_empty" and len(insts) == 1:
                    insts.append({"pts": _instance(st, draw, n_nodes, h, w, "full"), "predicted": False, "score": 0.8})
                if fclass == "with_empty" and draw(st.booleans()):
                    insts = insts[1:] + insts[:1]  # the empty instance is not always the first
                if fclass == "normal" and not any(any(p is not None for p in i["pts"]) for i in insts):
                    insts[0]["pts"] = _instance(st, draw, n_nodes, h, w, "full")
            frames.append({"video": v, "frame_idx": fidx, "instances": insts})
        if not any(_frame_has_nonempty(f, uio) for f in frames):
            # every frame came out all-empty (after the user-instance filter): append a labelled frame AFTER them
            v = draw(st.integers(0, nv - 1))
            fidx = min(set(range(3)) - {fi for (vv, fi) in used if vv == v}, default=None)
            if fidx is None:
                v, fidx = 0, 0
                frames = [f for f in frames if (f["video"], f["frame_idx"]) != (0, 0)]
            frames.append({"video": v, "frame_idx": fidx, "instances": [
                {"pts": _instance(st, draw, n_nodes, videos[v]["h"], videos[v]["w"], "full"), "predicted": False, "score": 0.8}]})
        mh, mw = max(v["h"] for v in videos), max(v["w"] for v in videos)
        if hw_class == "none" and nv > 1:
            hw_class = "exact"
        if hw_class == "rescale":
            hw_class = draw(st.sampled_from(["bigger", "smaller"]))
        max_hw = {"exact": [mh, mw], "bigger": [mh + 16, mw + 8], "smaller": [mh - 8, mw - 16], "wide": [mh, mw + 24], "none": [None, None]}[hw_class]
        hw_route = "param" if hw_class == "none" else draw(st.sampled_from(["param", "param", "config"]))
        cfg = {
            "is_rgb": is_rgb, "uio": uio, "sigma": draw(st.sampled_from([1.0, 1.5, 2.5])), "stride": stride,
            "paf_sigma": draw(st.sampled_from([1.5, 4.0, 10.0])), "paf_stride": paf_stride, "anchor": anchor, "max_stride": max_stride,
            "scale": scale, "max_hw": max_hw, "hw_class": hw_class, "hw_route": hw_route, "crop": draw(st.sampled_from([24, 32, 40])),
        }
        spec = {"skeleton": {"n_nodes": n_nodes, "edges": [[i, i + 1] for i in range(n_nodes - 1)]}, "videos": videos, "frames": frames}
        # half of the cases compare what the frameworks return on a second pass over the data (state written back
        # by the first pass - caches, in-place edits - shows there)
        return {"kind": kind, "spec": spec, "cfg": cfg, "epochs": draw(st.sampled_from([1, 2])), "reuse_dir": draw(st.sampled_from([False, False, True]))}

    return case()


def summarize_frameworks(case):
    return {
        "kind": case["kind"], "cfg": case["cfg"],
        "videos": [(v["h"], v["w"], v["kind"]) for v in case["spec"]["videos"]],
        "frames": [
            {"video": f["video"], "frame_idx": f["frame_idx"], "instances": [{"pts": i["pts"], "predicted": i.get("predicted", False)} for i in f["instances"]]}
            for f in case["spec"]["frames"]
        ],
    }


# ----------------------------------------------------------------------------------
# datapipes part

BLOCKS = [
    "normalizer", "normalizer", "centroid_finder", "resizer", "resizer_instance", "pad_to_stride", "pad_to_stride_instance", "size_matcher", "centroid_finder",
    "instance_cropper", "confmaps", "confmaps_instance", "multi_confmaps", "multi_confmaps_centroids", "pafs",
]
TOL_DP = 1e-6  # same float32 formula on identical inputs; DESIGN.md: torch.equal / allclose(1e-6)


def _dp_tensors(case):
    import torch

    g = torch.Generator().manual_seed(case["seed"])
    img_u8 = (torch.rand(1, case["channels"], case["h"], case["w"], generator=g) * 255).to(torch.uint8)
    rows = [[[math.nan, math.nan] if p is None else [float(p[0]), float(p[1])] for p in inst] for inst in case["instances"]]
    n_nodes = len(case["instances"][0])
    rows += [[[math.nan, math.nan]] * n_nodes for _ in range(case["n_pad"])]
    instances = torch.tensor(rows, dtype=torch.float32).unsqueeze(0)  # (1, n_inst + n_pad, n_nodes, 2)
    return img_u8, instances


def _np_centroids(case):
    """Centroid per instance row computed by the harness (anchor if visible else bbox midpoint of the visible nodes, NaN if none)."""
    import torch

    out = []
    a = case["anchor"]
    for inst in case["instances"]:
        vis = [p for p in inst if p is not None]
        if a is not None and inst[a] is not None:
            out.append([float(inst[a][0]), float(inst[a][1])])
        elif vis:
            xs, ys = [p[0] for p in vis], [p[1] for p in vis]
            out.append([(max(xs) + min(xs)) * 0.5, (max(ys) + min(ys)) * 0.5])
        else:
            out.append([math.nan, math.nan])
    out += [[math.nan, math.nan]] * case["n_pad"]
    return torch.tensor(out, dtype=torch.float32).unsqueeze(0)


def eval_datapipes(case):
    import torch
    from sleap_nn.data.confidence_maps import ConfidenceMapGenerator, MultiConfidenceMapGenerator, generate_confmaps, generate_multiconfmaps
    from sleap_nn.data.edge_maps import PartAffinityFieldsGenerator, generate_pafs
    from sleap_nn.data.instance_centroids import InstanceCentroidFinder, generate_centroids
    from sleap_nn.data.instance_cropping import InstanceCropper, generate_crops
    from sleap_nn.data.normalization import Normalizer, apply_normalization, convert_to_grayscale, convert_to_rgb
    from sleap_nn.data.resizing import PadToStride, Resizer, SizeMatcher, apply_pad_to_stride, apply_resizer, apply_sizematcher

    res = Result()
    res.n_evals = 0
    block = case["block"]
    img_u8, instances = _dp_tensors(case)
    img = img_u8.to(torch.float32) / 255.0
    h, w = case["h"], case["w"]
    n_inst = len(case["instances"])
    has_nan = any(p is None for inst in case["instances"] for p in inst)
    res.cls(f"block={block}")

    def same(name, got, exp):
        res.n_evals += 1
        if isinstance(exp, torch.Tensor) and (not isinstance(got, torch.Tensor) or got.dtype != exp.dtype):
            res.fail(f"datapipes:{block}:{name}:dtype", f"{name}: {getattr(got, 'dtype', type(got))} vs function {exp.dtype}")
            return
        st, d = _diff(got, exp)
        if st != "ok":
            res.fail(f"datapipes:{block}:{name}:{st}", f"DataPipe {block} key '{name}': {d} (block vs function)")
        elif not d <= TOL_DP:
            res.fail(f"datapipes:{block}:{name}", f"DataPipe {block} key '{name}' differs from the function by {d:.3e}")

    # For half of the cases the judged example is the SECOND of the stream, behind a leading example whose images
    # have another size (one pass over a mixed-resolution stream): per-pass state must not leak between examples.
    lead_on = case["seed"] % 2 == 1
    if lead_on:
        res.cls("datapipes:behind-differently-sized-example")

    def stream(ex):
        if not lead_on:
            return [ex]
        lead = dict(ex)
        for key in ("image", "instance_image", "original_image"):
            if key in lead and isinstance(lead[key], torch.Tensor) and lead[key].dim() >= 3:
                t = lead[key]
                lead[key] = torch.zeros(tuple(t.shape[:-2]) + (max(8, t.shape[-2] // 2), max(8, t.shape[-1] - 4)), dtype=t.dtype)
        for key, v in list(lead.items()):
            if isinstance(v, torch.Tensor) and key not in ("image", "instance_image", "original_image"):
                lead[key] = v.clone()
        return [lead, ex]

    def run(dp):
        out = runner.guarded(res, f"datapipes:{block}", lambda: list(dp))
        if out is not runner.FAILED and lead_on:
            if len(out) != 2:
                res.fail(f"datapipes:{block}:stream-length", f"{len(out)} examples for a 2-element stream")
                return runner.FAILED
            out = out[1:]
        return out

    base = {"video_idx": torch.tensor(0, dtype=torch.int32), "frame_idx": torch.tensor(3, dtype=torch.int32), "num_instances": n_inst,
            "orig_size": torch.Tensor([h, w])}

    if block == "normalizer":
        src = img_u8 if case["uint8"] else img
        out = run(Normalizer(stream(dict(base, image=src.clone(), instances=instances.clone())), is_rgb=case["is_rgb"]))
        if out is not runner.FAILED:
            exp = apply_normalization(src.clone())
            exp = convert_to_rgb(exp) if case["is_rgb"] else convert_to_grayscale(exp)
            same("image", out[0]["image"], exp)
        res.nontrivial = case["uint8"] or (case["channels"] == 3) != case["is_rgb"]
        res.cls(f"normalizer:uint8={case['uint8']}|ch={case['channels']}|is_rgb={case['is_rgb']}")
    elif block in ("resizer", "resizer_instance"):
        ik, kk = ("image", "instances") if block == "resizer" else ("instance_image", "instance")
        kp = instances if block == "resizer" else instances[:, 0]
        ex = dict(base, **{ik: img.clone(), kk: kp.clone()})
        if case["keep_original"]:
            ex["image"] = img.clone()
        out = run(Resizer(stream(ex), scale=case["scale"], keep_original=case["keep_original"], image_key=ik, instances_key=kk))
        if out is not runner.FAILED:
            e_img, e_kp = apply_resizer(img.clone(), kp.clone(), scale=case["scale"])
            same(ik, out[0][ik], e_img)
            same(kk, out[0][kk], e_kp)
            if case["keep_original"]:  # no functional counterpart: the documented meaning is "the image as it came in"
                same("original_image", out[0]["original_image"], img)
        res.nontrivial = case["scale"] != 1.0
        res.cls(f"resizer:scale={case['scale']}")
    elif block in ("pad_to_stride", "pad_to_stride_instance"):
        ik = "image" if block == "pad_to_stride" else "instance_image"
        out = run(PadToStride(stream(dict(base, **{ik: img.clone()})), max_stride=case["max_stride"], image_key=ik))
        if out is not runner.FAILED:
            same(ik, out[0][ik], apply_pad_to_stride(img.clone(), max_stride=case["max_stride"]))
        res.nontrivial = case["max_stride"] > 1 and (h % case["max_stride"] != 0 or w % case["max_stride"] != 0)
        res.cls(f"pad:max_stride={case['max_stride']}")
    elif block == "size_matcher":
        mh, mw = case["max_hw"]
        out = run(SizeMatcher(stream(dict(base, image=img.clone(), instances=instances.clone())), max_height=mh, max_width=mw))
        if out is not runner.FAILED:
            e_img, eff = apply_sizematcher(img.clone(), mh, mw)
            if eff != 1.0:
                raise AssertionError("generator left the common domain of SizeMatcher / apply_sizematcher")
            same("image", out[0]["image"], e_img)
            same("instances", out[0]["instances"], instances)
        res.nontrivial = (mh is not None and mh != h) or (mw is not None and mw != w)
        res.cls(f"size_matcher:{'pad' if res.nontrivial else 'idle'}")
    elif block == "centroid_finder":
        out = run(InstanceCentroidFinder(stream(dict(base, image=img.clone(), instances=instances.clone())), anchor_ind=case["anchor"]))
        if out is not runner.FAILED:
            same("centroids", out[0]["centroids"], generate_centroids(instances.clone(), anchor_ind=case["anchor"]))
            same("instances", out[0]["instances"], instances)
        res.nontrivial = has_nan
        if case["anchor"] is not None and any(inst[case["anchor"]] is None for inst in case["instances"]):
            res.cls("centroid_finder:anchor-missing")
    elif block == "instance_cropper":
        cents = _np_centroids(case)
        crop = (case["crop"][0], case["crop"][1])
        ex = dict(base, image=img.clone(), instances=instances.clone(), centroids=cents.clone())
        n_out = 0

        def consume():
            nonlocal n_out
            for k, o in enumerate(InstanceCropper([ex], crop_hw=crop)):  # the block re-yields ONE dict: compare while iterating
                exp = generate_crops(img.clone(), instances[0, k].clone(), cents[0, k].clone(), crop)
                for key in ("instance_image", "instance_bbox", "instance", "centroid"):
                    same(key, o[key], exp[key])
                n_out += 1

        r = runner.guarded(res, f"datapipes:{block}", consume)
        if r is not runner.FAILED and n_out != n_inst:
            res.fail(f"datapipes:{block}:count", f"InstanceCropper yielded {n_out} crops for num_instances={n_inst}")
        res.nontrivial = True
        res.cls(f"cropper:n_inst={n_inst}|square={crop[0] == crop[1]}")
    elif block in ("confmaps", "confmaps_instance"):
        kk = "instances" if block == "confmaps" else "instance"
        kp = instances[:, :1] if block == "confmaps" else instances[:, 0]  # single-instance pipelines carry one instance
        out = run(ConfidenceMapGenerator(stream(dict(base, image=img.clone(), **{kk: kp.clone()})), sigma=case["sigma"], output_stride=case["stride"],
                                         image_key="image", instance_key=kk))
        if out is not runner.FAILED:
            same("confidence_maps", out[0]["confidence_maps"], generate_confmaps(kp.clone(), img_hw=(h, w), sigma=case["sigma"], output_stride=case["stride"]))
        res.nontrivial = True
        res.cls(f"confmaps:stride={case['stride']}")
    elif block == "multi_confmaps":
        out = run(MultiConfidenceMapGenerator(stream(dict(base, image=img.clone(), instances=instances.clone())), sigma=case["sigma"], output_stride=case["stride"],
                                              centroids=False))
        if out is not runner.FAILED:
            same("confidence_maps", out[0]["confidence_maps"],
                 generate_multiconfmaps(instances.clone(), img_hw=(h, w), num_instances=n_inst, sigma=case["sigma"], output_stride=case["stride"], is_centroids=False))
        res.nontrivial = True
        res.cls(f"multi_confmaps:stride={case['stride']}|n_inst={n_inst}")
    elif block == "multi_confmaps_centroids":
        cents = _np_centroids(case)
        out = run(MultiConfidenceMapGenerator(stream(dict(base, image=img.clone(), instances=instances.clone(), centroids=cents.clone())), sigma=case["sigma"],
                                              output_stride=case["stride"], centroids=True))
        if out is not runner.FAILED:
            same("centroids_confidence_maps", out[0]["centroids_confidence_maps"],
                 generate_multiconfmaps(cents.clone(), img_hw=(h, w), num_instances=n_inst, sigma=case["sigma"], output_stride=case["stride"], is_centroids=True))
        res.nontrivial = True
        res.cls(f"multi_confmaps_centroids:stride={case['stride']}|n_inst={n_inst}")
    elif block == "pafs":
        edges = torch.Tensor(case["edges"])
        out = run(PartAffinityFieldsGenerator(stream(dict(base, image=img.clone(), instances=instances.clone())), sigma=case["paf_sigma"], output_stride=case["stride"],
                                              edge_inds=edges, flatten_channels=case["flatten"]))
        if out is not runner.FAILED:
            same("part_affinity_fields", out[0]["part_affinity_fields"],
                 generate_pafs(instances.clone(), img_hw=(h, w), sigma=case["paf_sigma"], output_stride=case["stride"], edge_inds=edges, flatten_channels=case["flatten"]))
        res.nontrivial = True
        res.cls(f"pafs:stride={case['stride']}|flatten={case['flatten']}")
    else:
        raise AssertionError(block)
    if has_nan:
        res.cls("datapipes:has-nan-keypoint")
    res.n_evals = max(1, res.n_evals)
    return res


def strategy_datapipes():
    from hypothesis import strategies as st

    @st.composite
    def case(draw):
        block = draw(st.sampled_from(BLOCKS))
        h, w = draw(st.integers(17, 48)), draw(st.integers(17, 56))
        n_nodes = draw(st.integers(2, 4)) if block == "pafs" else draw(st.integers(1, 4))
        n_inst = draw(st.integers(1, 3))
        anchor = draw(st.one_of(st.none(), st.integers(0, n_nodes - 1), st.integers(0, n_nodes - 1)))
        insts = []
        for _ in range(n_inst):
            pat = draw(st.sampled_from(["full", "full", "random", "anchor_missing", "single", "none" if block in ("multi_confmaps", "pafs", "centroid_finder") else "full"]))
            pts = _instance(st, draw, n_nodes, h, w, "full" if pat == "anchor_missing" else pat)
            if pat == "anchor_missing" and anchor is not None and n_nodes > 1:
                pts[anchor] = None
            insts.append(pts)
        sm = draw(st.sampled_from(["same", "pad_w", "pad_h", "none", "none_h"]))
        max_hw = {"same": [h, w], "pad_w": [h, w + draw(st.integers(1, 20))], "pad_h": [h + draw(st.integers(1, 20)), w], "none": [None, None],
                  "none_h": [None, w + draw(st.integers(0, 9))]}[sm]
        cs = draw(st.sampled_from([8, 11, 16, 24]))
        norm = draw(st.sampled_from([(u, c, r) for u in (True, False) for c in (1, 3) for r in (True, False)]))  # (uint8 input, channels, is_rgb)
        return {
            "block": block, "h": h, "w": w, "channels": norm[1], "seed": draw(st.integers(0, 10**6)),
            "instances": insts, "n_pad": draw(st.sampled_from([0, 0, 1, 2])), "anchor": anchor,
            "uint8": norm[0], "is_rgb": norm[2],
            "scale": draw(st.sampled_from([1.0, 0.5, 0.75, 1.5, 2.0])), "keep_original": draw(st.booleans()),
            "max_stride": draw(st.sampled_from([1, 2, 8, 16, 32])), "max_hw": max_hw,
            "crop": [cs, cs if draw(st.booleans()) else cs + draw(st.sampled_from([4, 8]))],
            "sigma": draw(st.sampled_from([0.75, 1.5, 3.0])), "paf_sigma": draw(st.sampled_from([1.0, 4.0, 12.0])),
            "stride": draw(st.sampled_from([1, 2, 4])), "flatten": draw(st.booleans()),
            "edges": [[i, i + 1] for i in range(n_nodes - 1)] if draw(st.booleans()) or n_nodes < 3 else [[0, i] for i in range(1, n_nodes)],
        }

    return case()


# ----------------------------------------------------------------------------------


FW_BUDGET = {"1": 45, "down": 35, "up": 25}  # quick-tier examples per (model type, scale class) stratum
FW_BUDGET_CENTERED = {"1": 55, "down": 15, "up": 15}  # scale != 1: only mem-vs-npz is judged


def _fw_part(kind, sc):
    q = (FW_BUDGET_CENTERED if kind == "centered" else FW_BUDGET)[sc]
    return Part(
        name=f"fw-{kind}-scale-{sc}", evaluate=eval_frameworks, strategy=functools.partial(strategy_frameworks, kind, sc),
        summarize=summarize_frameworks, budget={"quick": q},
        # scale 1: non-trivial only when size matching is active or an anchor is missing (about half of the cases)
        min_nontrivial={"quick": max(2, q // (6 if sc == "1" else 3))},
    )


def parts(tier):
    """quick: one Part per (model type, scale class) stratum + a small joint Part; thorough: the joint Part carries the
    budget (16 spawned workers per Part cost ~40 s of imports, 13 sharded Parts took 12 min) + the real ld.optimize."""
    ps = []
    if tier == "quick":
        ps += [_fw_part(kind, sc) for kind in KINDS for sc in ("1", "down", "up")]
    # the joint Part exists in both tiers (regression inputs name it)
    ps.append(Part(name="frameworks", evaluate=eval_frameworks, strategy=strategy_frameworks, summarize=summarize_frameworks,
                   budget={"quick": 40, "thorough": 40000}, min_nontrivial={"quick": 8, "thorough": 8000}))
    ps.append(Part(name="datapipes", evaluate=eval_datapipes, strategy=strategy_datapipes,
                   budget={"quick": 700, "thorough": 48000}, min_nontrivial={"quick": 150, "thorough": 9000}))
    if tier == "thorough":
        # real ld.optimize: spawns its own worker process (not allowed inside the daemonic shard workers) -> one shard, main process
        ps.append(Part(name="litdata_optimize", evaluate=eval_frameworks_optimize, strategy=strategy_frameworks, summarize=summarize_frameworks,
                       budget={"thorough": 36}, shards={"quick": 1, "thorough": 1}, min_nontrivial={"thorough": 8}, shrink=False))
    return ps


if __name__ == "__main__":
    runner.main(__name__)
