"""C11 - datasets never alter or invent labels; same index gives the same sample.

Part `functional`: sequences of functional-API calls on fresh tensors (NaN patterns incl.
missing anchor): every argument tensor must be bit-identical (NaN-aware) after the call;
`generate_centroids` must return the anchor when visible, the bounding-box midpoint of the
visible nodes otherwise, NaN only for an instance with no visible node.

Part `dataset`: a synthesised label set (frames x animals x NaN patterns incl. missing
anchor, empty instances, predicted-only / mixed frames, two videos of different size), one
of the four Dataset classes (+ np_chunks mode), anchor choice, user_instances_only, and a
*history* of reads (`getitem i`, `len`, `next`).  Model-based oracle: the first read of an
index is stored and every later read must equal it field by field; label arrays are
snapshotted before construction and compared after every step; a keypoint missing in the
labels is NaN in the sample and its confidence-map channel carries nothing; finite
keypoints equal the label scaled by the documented transform; `len` equals the number of
non-empty instances (centered) / frames with a non-empty instance (others).

Missing-node encodings (class `missing_enc=nan|hidden|mixed`): a label file can encode a missing
node as NaN coordinates or as a point whose `visible` flag is False while the stored xy is still
finite (SLEAP GUI "hide node"; survives .slp save/load).  Ground truth for "missing" is what
`Instance.numpy()` reports as NaN, so both encodings have the same expected samples.  The dataset
part draws the encoding per case for all four dataset classes; the functional part has the op
`process_lf` (providers.process_lf on a one-frame label set) with the same encodings.
"""

import math
import shutil

from vlib import env, runner, synth
from vlib.runner import Part, Result

PROPERTY = "C11"
LEVEL = "exploration"
RULE = (
    "functional part: a case is a list of functional calls with generated tensors; dataset part: a case is a "
    "label-set spec (missing nodes stored as NaN, as hidden-with-finite-xy, or mixed: class missing_enc) + dataset "
    "class/config + a read history (list of getitem/len/next operations); "
    "non-trivial (dataset) = the history reads some index at least twice with another read in between AND the "
    "label set has a missing anchor, a missing node or an empty instance; non-trivial (functional) = an input "
    "has a NaN keypoint (missing anchor for generate_centroids)"
)
ASSUMPTIONS = [
    "augmentation is off for the repeat-read clause (with augmentation on samples are random by design)",
    "with user_instances_only the datasets replace lf.instances by lf.user_instances (documented filter); only coordinate arrays of instance objects are compared, not list membership",
    "frames whose instances are all empty are skipped by the datasets (statement: only non-empty instances produce samples)",
    "a node is 'missing in the labels' iff sio.Instance.numpy() reports NaN for it (NaN coordinates, or visible=False with finite stored xy); an instance whose nodes are all missing in either encoding is empty (sio.Instance.is_empty is `not visible.any()`, verified for sleap-io 0.9.2 in the harness before every case)",
    "functional op process_lf is only called on frames with at least one non-empty instance (its callers filter the other frames out)",
]

DATASETS = ["single", "bottomup", "centroid", "centered"]
MISSING_ENC = ["nan", "nan", "hidden", "mixed"]  # how missing nodes are stored in the label objects


def _hidden_mask(inst):
    """per node: missing AND stored as visible=False with finite xy (spec-level, no sleap_io)."""
    hid = inst.get("hidden") or []
    return [inst["pts"][k] is None and k < len(hid) and hid[k] is not None for k in range(len(inst["pts"]))]


def _raw_snapshot(labels):
    """Raw point storage (stored xy + visible flag) of every instance object."""
    return [(inst, inst.points["xy"].copy(), inst.points["visible"].copy()) for lf in labels for inst in lf.instances]


def _raw_changed(snap):
    import numpy as np

    for inst, xy, vis in snap:
        if not np.array_equal(inst.points["xy"], xy, equal_nan=True):
            return f"stored xy changed from {xy.tolist()} to {inst.points['xy'].tolist()}"
        if not np.array_equal(inst.points["visible"], vis):
            return f"visible flags changed from {vis.tolist()} to {inst.points['visible'].tolist()}"
    return None


def _verify_ground_truth(spec, labels):
    """Harness self-check (not an oracle): the label objects encode what the spec says, i.e.
    numpy() is NaN exactly for pts None, hidden nodes keep finite xy with visible False, and
    is_empty agrees with 'no node reported by numpy()'."""
    import numpy as np

    for f, lf in zip(spec["frames"], labels):
        for i, inst in zip(f["instances"], lf.instances):
            arr = inst.numpy()
            want = [p is None for p in i["pts"]]
            assert np.isnan(arr).any(-1).tolist() == want, ("synth: NaN pattern of numpy() differs from spec", i, arr.tolist())
            for k, h in enumerate(_hidden_mask(i)):
                if h:
                    assert np.isfinite(inst.points["xy"][k]).all() and not bool(inst.points["visible"][k]), ("synth: hidden node not stored as finite xy + visible False", i)
            assert bool(inst.is_empty) == all(want), ("synth: is_empty disagrees with numpy()", i)


# ----------------------------------------------------------------------------------
# functional part


def _tensor(spec):
    import torch

    t = torch.tensor(
        [[[math.nan, math.nan] if p is None else [float(p[0]), float(p[1])] for p in inst] for inst in spec],
        dtype=torch.float32,
    )
    return t


def _same(a, b):
    import torch

    return a.shape == b.shape and a.dtype == b.dtype and bool(torch.equal(torch.nan_to_num(a, nan=-12345.0), torch.nan_to_num(b, nan=-12345.0))) and bool(
        torch.equal(torch.isnan(a), torch.isnan(b))
    )


def eval_functional(case):
    import torch
    from sleap_nn.data.augmentation import apply_geometric_augmentation, apply_intensity_augmentation
    from sleap_nn.data.confidence_maps import generate_confmaps, generate_multiconfmaps
    from sleap_nn.data.edge_maps import generate_pafs
    from sleap_nn.data.instance_centroids import find_points_bbox_midpoint, generate_centroids
    from sleap_nn.data.instance_cropping import generate_crops, make_centered_bboxes
    from sleap_nn.data.normalization import apply_normalization
    from sleap_nn.data.resizing import apply_pad_to_stride, apply_resizer, apply_sizematcher

    res = Result()
    insts = _tensor(case["instances"])  # (n_inst, n_nodes, 2)
    n_inst, n_nodes = insts.shape[:2]
    h, w = case["h"], case["w"]
    torch.manual_seed(case["torch_seed"])
    image = (torch.rand(1, case["channels"], h, w) * 255).to(torch.uint8)
    imagef = image.to(torch.float32) / 255.0
    anchor = case["anchor"]
    has_nan = bool(torch.isnan(insts).any())
    res.nontrivial = has_nan
    res.n_evals = 0

    def check(name, fn, args, kwargs=None):
        """call fn(*args) and verify every tensor argument is untouched."""
        kwargs = kwargs or {}
        before = [a.clone() if isinstance(a, torch.Tensor) else None for a in args]
        out = runner.guarded(res, f"functional:{name}", fn, *args, **kwargs)
        res.n_evals += 1
        for i, (a, b) in enumerate(zip(args, before)):
            if b is not None and not _same(a, b):
                cls = "missing-anchor" if name == "generate_centroids" else "any"
                res.fail(
                    f"functional:input-mutated:{name}:{cls}",
                    f"argument {i} of {name} changed: before {b.flatten()[:12].tolist()} after {a.flatten()[:12].tolist()}",
                )
        return out

    for op in case["ops"]:
        res.cls(f"op={op}")
        if op == "generate_centroids":
            x = insts.unsqueeze(0).clone()  # (1, n_inst, n_nodes, 2)
            out = check(op, generate_centroids, [x], {"anchor_ind": anchor})
            if out is not runner.FAILED:
                # semantic clause: anchor if visible, else bbox midpoint of visible nodes
                for k in range(n_inst):
                    pts = insts[k]
                    vis = ~torch.isnan(pts).any(dim=-1)
                    got = out[0, k]
                    if anchor is not None and bool(vis[anchor]):
                        exp = pts[anchor]
                    elif bool(vis.any()):
                        v = pts[vis]
                        exp = (v.max(dim=0).values + v.min(dim=0).values) * 0.5
                    else:
                        exp = None
                    if exp is None:
                        # an instance without any visible node has no centroid
                        if not bool(torch.isnan(got).all()) and not bool(torch.isinf(got).any()):
                            res.fail("functional:centroid:invented-for-empty-instance", f"centroid {got.tolist()} for an all-NaN instance")
                    elif not torch.allclose(got, exp, atol=1e-4):
                        res.fail("functional:centroid:value", f"centroid {got.tolist()} expected {exp.tolist()} (anchor {anchor}, pts {pts.tolist()})")
                if anchor is not None and bool(torch.isnan(insts[:, anchor]).any()):
                    res.cls("missing-anchor")
        elif op == "find_points_bbox_midpoint":
            check(op, find_points_bbox_midpoint, [insts.clone()])
        elif op == "process_lf":
            _functional_process_lf(res, case)
        elif op == "make_centered_bboxes":
            c = torch.nan_to_num(insts[:, 0].clone(), nan=5.0)
            check(op, make_centered_bboxes, [c, case["crop"], case["crop"]])
        elif op == "generate_crops":
            c = torch.nan_to_num(insts[0, 0].clone(), nan=float(w // 2))
            check(op, generate_crops, [imagef.clone(), insts[0].clone(), c, (case["crop"], case["crop"])])
        elif op == "generate_confmaps":
            check(op, generate_confmaps, [insts[:1].clone()], {"img_hw": (h, w), "sigma": 1.5, "output_stride": case["stride"]})
        elif op == "generate_multiconfmaps":
            check(
                op, generate_multiconfmaps, [insts.unsqueeze(0).clone()],
                {"img_hw": (h, w), "num_instances": n_inst, "sigma": 1.5, "output_stride": case["stride"], "is_centroids": False},
            )
        elif op == "generate_multiconfmaps_centroids":
            check(
                op, generate_multiconfmaps, [insts[:, 0].unsqueeze(0).clone()],
                {"img_hw": (h, w), "num_instances": n_inst, "sigma": 1.5, "output_stride": case["stride"], "is_centroids": True},
            )
        elif op == "generate_pafs":
            if n_nodes >= 2:
                edges = torch.Tensor([[i, i + 1] for i in range(n_nodes - 1)])
                check(
                    op, generate_pafs, [insts.unsqueeze(0).clone()],
                    {"img_hw": (h, w), "sigma": 1.5, "output_stride": case["stride"], "edge_inds": edges, "flatten_channels": True},
                )
        elif op == "apply_resizer":
            check(op, apply_resizer, [imagef.clone(), insts.unsqueeze(0).clone()], {"scale": case["scale"]})
        elif op == "apply_sizematcher":
            check(op, apply_sizematcher, [imagef.clone(), h + case["pad"], w + 2 * case["pad"]])
        elif op == "apply_pad_to_stride":
            check(op, apply_pad_to_stride, [imagef.clone(), 16])
        elif op == "apply_normalization":
            check(op, apply_normalization, [image.clone()])
        elif op == "apply_intensity_augmentation":
            torch.manual_seed(case["torch_seed"] + 1)
            check(
                op, apply_intensity_augmentation, [imagef.clone(), insts.unsqueeze(0).clone()],
                {"uniform_noise_p": 1.0, "gaussian_noise_p": 1.0, "contrast_p": 1.0, "brightness_p": 1.0},
            )
        elif op == "apply_geometric_augmentation":
            torch.manual_seed(case["torch_seed"] + 2)
            check(
                op, apply_geometric_augmentation, [imagef.clone(), insts.unsqueeze(0).clone()],
                {"rotation": 30.0, "scale": (0.9, 1.1), "translate_width": 0.1, "translate_height": 0.1, "affine_p": 1.0},
            )
    res.n_evals = max(1, res.n_evals)
    return res


def _functional_process_lf(res, case):
    """providers.process_lf on a one-frame label set: keypoints of the non-empty instances in label
    order, missing (NaN or hidden-with-xy) nodes NaN, NaN padding, labels untouched."""
    import numpy as np
    from sleap_nn.data.providers import process_lf

    enc = case.get("missing_enc", "nan")
    hidden = case.get("hidden") or [None] * len(case["instances"])
    specs = [{"pts": pts, "hidden": hid, "predicted": False} for pts, hid in zip(case["instances"], hidden)]
    nonempty = [i for i in specs if any(p is not None for p in i["pts"])]
    if not nonempty:
        res.cls("process_lf:skipped-all-empty")
        return
    n_nodes = len(case["instances"][0])
    spec = {
        "skeleton": {"n_nodes": n_nodes, "edges": []},
        "videos": [{"h": case["h"], "w": case["w"], "kind": "texture", "channels": case["channels"], "n_frames": 1, "seed": case["torch_seed"] % 100}],
        "frames": [{"video": 0, "frame_idx": 0, "instances": specs}],
    }
    has_hidden = any(any(_hidden_mask(i)) for i in nonempty)
    res.cls(f"process_lf|missing_enc={enc}", "process_lf:hidden-node" if has_hidden else "process_lf:no-hidden-node")
    if any(all(p is None for p in i["pts"]) and any(_hidden_mask(i)) for i in specs):
        res.cls("process_lf:empty-instance-with-hidden-nodes")
    d = env.scratch_dir("c11f")
    try:
        labels, _ = synth.build_labels(spec, d + "/src")
        _verify_ground_truth(spec, labels)
        snap, raw = synth.labels_snapshot(labels), _raw_snapshot(labels)
        max_inst = len(specs) + case.get("extra_instances", 0)
        out = runner.guarded(res, "functional:process_lf", process_lf, labels[0], 0, max_inst, case.get("uio", True))
        res.n_evals += 1
        why = synth.snapshot_changed(snap) or _raw_changed(raw)
        if why:
            res.fail("functional:process_lf:labels-mutated", why)
        if out is runner.FAILED:
            return
        lab = np.array([[[math.nan, math.nan] if p is None else p for p in i["pts"]] for i in nonempty], dtype=np.float64)
        hid = np.array([_hidden_mask(i) for i in nonempty], dtype=bool)
        got = out["instances"].numpy().reshape(-1, n_nodes, 2).astype(np.float64)
        if int(out["num_instances"]) != lab.shape[0]:
            res.fail("functional:process_lf:num-instances", f"num_instances {int(out['num_instances'])} expected {lab.shape[0]} non-empty instances")
        if got.shape[0] < lab.shape[0]:
            res.fail("functional:process_lf:keypoint-shape", f"instances shape {got.shape}, {lab.shape[0]} non-empty instances in the labels")
            return
        if not np.isnan(got[lab.shape[0]:]).all():
            res.fail("functional:process_lf:invented-instance", f"padding rows beyond the {lab.shape[0]} labelled instances are not NaN: {got.tolist()}")
        got = got[: lab.shape[0]]
        lab_nan, got_nan = np.isnan(lab).any(-1), np.isnan(got).any(-1)
        if (lab_nan & ~got_nan).any():
            cls = "hidden-xy" if (lab_nan & ~got_nan & hid).any() else "nan-xy"
            res.fail(f"functional:process_lf:invented-keypoint:{cls}", f"label {lab.tolist()} (hidden-with-xy mask {hid.tolist()}) -> instances {got.tolist()}")
        if (~lab_nan & got_nan).any():
            res.fail("functional:process_lf:lost-keypoint", f"label {lab.tolist()} -> instances {got.tolist()}")
        both = ~lab_nan & ~got_nan
        # tolerance: float64 -> float32 conversion of coordinates < 1e3 px
        if both.any() and np.abs(got[both] - lab[both]).max() > 1e-3:
            res.fail("functional:process_lf:keypoint-value", f"label {lab.tolist()} -> instances {got.tolist()}")
    finally:
        shutil.rmtree(d, ignore_errors=True)


OPS = [
    "generate_centroids", "generate_centroids", "find_points_bbox_midpoint", "make_centered_bboxes", "generate_crops",
    "generate_confmaps", "generate_multiconfmaps", "generate_multiconfmaps_centroids", "generate_pafs",
    "apply_resizer", "apply_sizematcher", "apply_pad_to_stride", "apply_normalization",
    "apply_intensity_augmentation", "apply_geometric_augmentation", "process_lf", "process_lf",
]


def _points_strategy(st, n_nodes, h, w, force_missing=None):
    """One instance: list of [x,y]|None with a drawn NaN pattern."""

    @st.composite
    def inst(draw):
        pattern = draw(st.sampled_from(["full", "full", "random", "anchor_missing", "single", "none"]))
        pts = []
        # one instance in five hugs the frame border: every node in the first / last row or column band (legal labels:
        # 0 <= x <= w-1), where grid-extent filters and crop windows behave differently from the interior
        hug = draw(st.integers(0, 3)) == 0
        side = draw(st.sampled_from(["left", "right", "top", "bottom"])) if hug else None
        on_line = hug and draw(st.booleans())  # every node exactly on the outermost row / column
        for n in range(n_nodes):
            x = draw(st.integers(2, w - 3)) + draw(st.sampled_from([0.0, 0.25, 0.5]))
            y = draw(st.integers(2, h - 3)) + draw(st.sampled_from([0.0, 0.5, 0.75]))
            if side == "left":
                x = 0.0 if on_line else draw(st.sampled_from([0.0, 0.0, 0.25, 1.0]))
            elif side == "right":
                x = float(w - 1) - (0.0 if on_line else draw(st.sampled_from([0.0, 0.0, 0.5, 1.0, 2.0, 3.0])))
            elif side == "top":
                y = 0.0 if on_line else draw(st.sampled_from([0.0, 0.0, 0.25, 1.0]))
            elif side == "bottom":
                y = float(h - 1) - (0.0 if on_line else draw(st.sampled_from([0.0, 0.0, 0.5, 1.0, 2.0, 3.0])))
            pts.append([x, y])
        full = [list(p) for p in pts]  # coordinates of every node before the NaN pattern is applied
        if pattern == "random":
            keep = draw(st.integers(0, n_nodes - 1))
            pts = [p if (i == keep or draw(st.booleans())) else None for i, p in enumerate(pts)]
        elif pattern == "single":
            keep = draw(st.integers(0, n_nodes - 1))
            pts = [p if i == keep else None for i, p in enumerate(pts)]
        elif pattern == "none":
            pts = [None] * n_nodes
        return pattern, pts, full

    return inst()


def _hidden_strategy(st, enc, pts, full):
    """Encoding of the missing nodes of one instance: list ([x,y] = hidden with that stored xy | None = NaN)
    or None when every missing node is NaN-encoded.  `enc`: "nan" | "hidden" (all) | "mixed" (drawn per node)."""

    @st.composite
    def hid(draw):
        if enc == "nan":
            return None
        out = []
        for k, p in enumerate(pts):
            if p is None and (enc == "hidden" or draw(st.booleans())):
                out.append(list(full[k]))
            else:
                out.append(None)
        return out if any(h is not None for h in out) else None

    return hid()


def strategy_functional():
    from hypothesis import strategies as st

    @st.composite
    def case(draw):
        n_nodes = draw(st.integers(1, 5))
        n_inst = draw(st.integers(1, 3))
        h, w = draw(st.integers(24, 64)), draw(st.integers(24, 64))
        anchor = draw(st.one_of(st.none(), st.integers(0, n_nodes - 1)))
        enc = draw(st.sampled_from(MISSING_ENC))
        insts, hidden = [], []
        for _ in range(n_inst):
            pattern, pts, full = draw(_points_strategy(st, n_nodes, h, w))
            if pattern == "anchor_missing" and anchor is not None and n_nodes > 1:
                pts[anchor] = None
            insts.append(pts)
            hidden.append(draw(_hidden_strategy(st, enc, pts, full)))
        ops = draw(st.lists(st.sampled_from(OPS), min_size=1, max_size=5))
        return {
            "missing_enc": enc, "hidden": hidden, "uio": draw(st.booleans()), "extra_instances": draw(st.integers(0, 2)),
            "instances": insts, "h": h, "w": w, "channels": draw(st.sampled_from([1, 3])), "anchor": anchor,
            "ops": ops, "crop": draw(st.sampled_from([16, 21, 32])), "stride": draw(st.sampled_from([1, 2, 4])),
            "scale": draw(st.sampled_from([0.5, 1.0, 1.5])), "pad": draw(st.integers(0, 9)),
            "torch_seed": draw(st.integers(0, 10**6)),
        }

    return case()


# ----------------------------------------------------------------------------------
# dataset part


def _make_dataset(kind, labels, cfg, chunks_dir):
    from omegaconf import OmegaConf
    from sleap_nn.data.custom_datasets import BottomUpDataset, CenteredInstanceDataset, CentroidDataset, SingleInstanceDataset

    dc = synth.data_config(is_rgb=cfg["is_rgb"], user_instances_only=cfg["user_instances_only"])
    head = OmegaConf.create({"sigma": cfg["sigma"], "output_stride": cfg["stride"], "anchor_part": cfg["anchor"]})
    common = dict(
        labels=labels, data_config=dc, max_stride=cfg["max_stride"], scale=cfg["scale"], apply_aug=False,
        max_hw=tuple(cfg["max_hw"]), np_chunks=cfg["np_chunks"], np_chunks_path=chunks_dir,
    )
    if kind == "single":
        return SingleInstanceDataset(confmap_head_config=head, **common)
    if kind == "centroid":
        return CentroidDataset(confmap_head_config=head, **common)
    if kind == "centered":
        return CenteredInstanceDataset(crop_hw=tuple(cfg["crop_hw"]), confmap_head_config=head, **common)
    pafs = OmegaConf.create({"sigma": 4.0, "output_stride": cfg["paf_stride"]})
    return BottomUpDataset(confmap_head_config=head, pafs_head_config=pafs, **common)


def _sample_equal(a, b):
    import numpy as np
    import torch

    if set(a.keys()) != set(b.keys()):
        return f"keys differ: {sorted(a.keys())} vs {sorted(b.keys())}"
    for k in a:
        x, y = a[k], b[k]
        if isinstance(x, torch.Tensor):
            if not isinstance(y, torch.Tensor) or not _same(x, y):
                return f"field '{k}' differs between two reads of the same index"
        elif isinstance(x, np.ndarray):
            if not np.array_equal(x, y, equal_nan=True):
                return f"field '{k}' differs between two reads of the same index"
        elif x != y:
            return f"field '{k}' differs: {x} vs {y}"
    return None


def _expected_units(spec, cfg, kind):
    """Label-order enumeration of what must produce samples, with the expected keypoints."""
    import numpy as np

    uio = cfg["user_instances_only"]
    units = []
    for fi, f in enumerate(spec["frames"]):
        insts = f["instances"]
        if uio and any(not i.get("predicted") for i in insts):
            insts = [i for i in insts if not i.get("predicted")]
        nonempty = [i for i in insts if any(p is not None for p in i["pts"])]
        if not nonempty:
            continue
        v = spec["videos"][f["video"]]
        if kind == "centered":
            for i in nonempty:
                units.append({"frame": fi, "video": f["video"], "frame_idx": f["frame_idx"], "insts": [i], "hw": (v["h"], v["w"])})
        else:
            units.append({"frame": fi, "video": f["video"], "frame_idx": f["frame_idx"], "insts": nonempty, "hw": (v["h"], v["w"])})
    return units


def _total_scale(hw, cfg):
    """Scale applied to keypoints: aspect-preserving size matching, then `scale`."""
    mh, mw = cfg["max_hw"]
    h, w = hw
    mh = h if mh is None else mh
    mw = w if mw is None else mw
    eff = 1.0
    if (h, w) != (mh, mw):
        eff = min(mh / h, mw / w)
    return eff * cfg["scale"]


def eval_dataset(case):
    import numpy as np
    import torch

    res = Result()
    spec, cfg, kind = case["spec"], case["cfg"], case["kind"]
    d = env.scratch_dir("c11")
    try:
        labels, info = synth.build_labels(spec, d + "/src")
        _verify_ground_truth(spec, labels)
        snap = synth.labels_snapshot(labels)
        raw = _raw_snapshot(labels)
        ds = runner.guarded(res, f"dataset:{kind}:construct", _make_dataset, kind, labels, cfg, d + "/chunks")
        if ds is runner.FAILED:
            return res
        why = synth.snapshot_changed(snap) or _raw_changed(raw)
        if why:
            res.fail(f"dataset:{kind}:labels-mutated-by-construction", why)
        units = _expected_units(spec, cfg, kind)
        n = runner.guarded(res, f"dataset:{kind}:len", len, ds)
        if n is runner.FAILED:
            return res
        if n != len(units):
            res.fail(f"dataset:{kind}:len", f"len(ds)={n}, expected {len(units)} samples from non-empty {'instances' if kind == 'centered' else 'frames'}")
        has_missing = any(p is None for f in spec["frames"] for i in f["instances"] for p in i["pts"])
        first, order = {}, []
        res.n_evals = 0
        nxt = 0
        for op in case["history"]:
            if op[0] == "len":
                if len(ds) != n:
                    res.fail(f"dataset:{kind}:len-changed", f"len changed from {n} to {len(ds)}")
                continue
            if n == 0:
                continue
            if op[0] == "next":
                idx = nxt
                if idx >= n:
                    continue
                sample = runner.guarded(res, f"dataset:{kind}:next", next, ds)
                nxt += 1
            else:
                idx = op[1] % n
                sample = runner.guarded(res, f"dataset:{kind}:getitem", ds.__getitem__, idx)
            if sample is runner.FAILED:
                break
            res.n_evals += 1
            order.append(idx)
            why = synth.snapshot_changed(snap) or _raw_changed(raw)
            if why:
                res.fail(f"dataset:{kind}:labels-mutated-by-read", why)
            if idx in first:
                why = _sample_equal(first[idx], sample)
                if why:
                    res.fail(f"dataset:{kind}:repeat-read", f"index {idx}: {why} (reads so far {order})")
                continue
            first[idx] = {k: (v.clone() if isinstance(v, torch.Tensor) else v) for k, v in sample.items()}
            if idx >= len(units):
                continue
            u = units[idx]
            s = _total_scale(u["hw"], cfg)
            if int(sample["frame_idx"]) != u["frame_idx"] or int(sample["video_idx"]) != u["video"]:
                res.fail(f"dataset:{kind}:wrong-frame", f"index {idx}: sample from video {int(sample['video_idx'])} frame {int(sample['frame_idx'])}, expected video {u['video']} frame {u['frame_idx']}")
                continue
            lab = np.array([[[math.nan, math.nan] if p is None else p for p in i["pts"]] for i in u["insts"]], dtype=np.float64)
            hid = np.array([_hidden_mask(i) for i in u["insts"]], dtype=bool)  # missing nodes stored as finite xy + visible False
            if kind == "centered":
                # crop coordinates: compare up to the crop translation (its convention is C04's
                # business) by centring both on the mean of the commonly visible nodes
                got_abs = sample["instance"].numpy().reshape(-1, 2)[None].astype(np.float64)
                lab_s = lab * s
                common = ~np.isnan(got_abs).any(-1) & ~np.isnan(lab_s).any(-1)
                if common.any():
                    got_abs = got_abs - got_abs[common].mean(0)
                    lab_s = lab_s - lab_s[common].mean(0)
            else:
                key = "instances"
                got_abs = sample[key].numpy().reshape(-1, lab.shape[1], 2)[: lab.shape[0]]
                extra = sample[key].numpy().reshape(-1, lab.shape[1], 2)[lab.shape[0]:]
                if extra.size and not np.isnan(extra).all():
                    res.fail(f"dataset:{kind}:invented-instance", f"index {idx}: padding rows beyond the {lab.shape[0]} labelled instances are not NaN")
                lab_s = lab * s
                if int(sample["num_instances"]) != lab.shape[0]:
                    res.fail(f"dataset:{kind}:num-instances", f"index {idx}: num_instances {int(sample['num_instances'])} expected {lab.shape[0]}")
            # missing stays missing / visible stays where it was
            lab_nan = np.isnan(lab_s).any(-1)
            got_nan = np.isnan(got_abs).any(-1)
            if got_abs.shape == lab_s.shape:
                if (lab_nan & ~got_nan).any():
                    a = cfg["anchor"]
                    cls = "missing-anchor" if (a is not None and kind in ("centered",) and lab_nan[..., a].any()) else "missing-node"
                    if (lab_nan & ~got_nan & hid).any():
                        cls += ":hidden-xy"
                    res.fail(f"dataset:{kind}:invented-keypoint:{cls}", f"index {idx}: label {lab.tolist()} (hidden-with-xy mask {hid.tolist()}) -> sample keypoints {np.round(got_abs, 2).tolist()}")
                if (~lab_nan & got_nan).any():
                    res.fail(f"dataset:{kind}:lost-keypoint", f"index {idx}: label {lab.tolist()} -> sample keypoints {np.round(got_abs, 2).tolist()}")
                both = ~lab_nan & ~got_nan
                # tolerance: float32 arithmetic on coordinates < 1e3 px
                if both.any() and np.abs(got_abs[both] - lab_s[both]).max() > 2e-3 * max(1.0, s):
                    res.fail(f"dataset:{kind}:keypoint-value", f"index {idx}: label*{s:.4f} {np.round(lab_s, 3).tolist()} but sample has {np.round(got_abs, 3).tolist()}")
            else:
                res.fail(f"dataset:{kind}:keypoint-shape", f"index {idx}: keypoints shape {got_abs.shape}, labels {lab_s.shape}")
            # confidence maps of missing nodes carry nothing
            if kind in ("single", "centered"):
                cm = sample["confidence_maps"].numpy()
                cm = cm.reshape(-1, cm.shape[-2], cm.shape[-1])
                for node in range(lab.shape[1]):
                    if lab_nan[0, node] and cm.shape[0] == lab.shape[1] and np.abs(cm[node]).max() != 0:
                        a = cfg["anchor"]
                        cls = "missing-anchor" if (a == node and kind == "centered") else "missing-node"
                        if hid[0, node]:
                            cls += ":hidden-xy"
                        res.fail(f"dataset:{kind}:confmap-for-missing-node:{cls}", f"index {idx}: node {node} is missing in the labels but its confidence map peaks at {float(cm[node].max()):.3f}")
            elif kind == "bottomup":
                cm = sample["confidence_maps"].numpy()
                cm = cm.reshape(-1, cm.shape[-2], cm.shape[-1])
                for node in range(lab.shape[1]):
                    if lab_nan[:, node].all() and cm.shape[0] == lab.shape[1] and np.abs(cm[node]).max() != 0:
                        cls = "missing-node:hidden-xy" if hid[:, node].any() else "missing-node"
                        res.fail(f"dataset:{kind}:confmap-for-missing-node:{cls}", f"index {idx}: node {node} missing in every animal but its map peaks at {float(cm[node].max()):.3f}")
                # part-affinity fields: a missing keypoint contributes nothing - never NaN, and an edge whose source or
                # destination is missing in every animal of the frame has an all-zero field (channels 2e, 2e+1)
                paf = sample.get("part_affinity_fields")
                if paf is not None:
                    pf = paf.numpy()
                    pf = pf.reshape(-1, pf.shape[-2], pf.shape[-1])
                    edges = [tuple(e) for e in spec["skeleton"]["edges"]]
                    if not np.isfinite(pf).all():
                        bad = sorted({int(c) // 2 for c in np.argwhere(~np.isfinite(pf))[:, 0]})
                        n_lab = int((~lab_nan.all(axis=1)).sum())
                        res.fail(
                            f"dataset:{kind}:paf-not-finite:{'one' if n_lab == 1 else 'several'}-labelled-animal(s)",
                            f"index {idx}: part-affinity field has non-finite values in the channels of edge(s) {[edges[e] for e in bad if e < len(edges)]}; labels {lab.tolist()}",
                        )
                    elif pf.shape[0] == 2 * len(edges):
                        for e, (a_, b_) in enumerate(edges):
                            if (lab_nan[:, a_] | lab_nan[:, b_]).all() and np.abs(pf[2 * e : 2 * e + 2]).max() != 0:
                                res.fail(f"dataset:{kind}:paf-for-missing-node", f"index {idx}: edge {(a_, b_)} has a missing end in every animal but its field peaks at {float(np.abs(pf[2 * e : 2 * e + 2]).max()):.3f}")
            elif kind == "centroid":
                cen = sample["centroids"].numpy().reshape(-1, 2)[: lab.shape[0]]
                a = cfg["anchor"]
                for k in range(lab.shape[0]):
                    vis = ~lab_nan[k]
                    if a is not None and vis[a]:
                        exp = lab_s[k, a]
                    else:
                        vpts = lab_s[k][vis]
                        exp = (vpts.max(0) + vpts.min(0)) / 2
                    if not np.allclose(cen[k], exp, atol=2e-3 * max(1.0, s)):
                        res.fail(f"dataset:{kind}:centroid-value", f"index {idx}: centroid {cen[k].tolist()} expected {exp.tolist()}")
        # non-triviality
        interleaved = False
        seen_at = {}
        for pos, i in enumerate(order):
            if i in seen_at and any(j != i for j in order[seen_at[i] + 1 : pos]):
                interleaved = True
            seen_at.setdefault(i, pos)
        has_empty = any(all(p is None for p in i["pts"]) for f in spec["frames"] for i in f["instances"])
        res.nontrivial = interleaved and (has_missing or has_empty)
        mixed = any(len({bool(i.get("predicted")) for i in f["instances"]}) == 2 for f in spec["frames"])
        enc = case.get("missing_enc", "nan")
        all_insts = [i for f in spec["frames"] for i in f["instances"]]
        hidden_in_nonempty = any(any(_hidden_mask(i)) and any(p is not None for p in i["pts"]) for i in all_insts)
        hidden_empty = any(any(_hidden_mask(i)) and all(p is None for p in i["pts"]) for i in all_insts)
        a = cfg["anchor"]
        hidden_anchor = a is not None and any(_hidden_mask(i)[a] and any(p is not None for p in i["pts"]) for i in all_insts)
        res.cls(f"missing_enc={enc}", f"ds={kind}|missing_enc={enc}",
                "hidden_xy_node_in_nonempty_instance" if hidden_in_nonempty else "no_hidden_xy_node_in_nonempty_instance")
        if hidden_empty:
            res.cls("empty_instance_with_hidden_xy_nodes")
        if hidden_anchor:
            res.cls("hidden_xy_anchor")
        if hidden_in_nonempty:
            res.cls(f"ds={kind}|hidden_xy_node")
        res.cls("mixed_user_predicted_frame" if mixed else "unmixed")
        res.cls(f"ds={kind}", f"np_chunks={cfg['np_chunks']}", f"anchor={'none' if cfg['anchor'] is None else 'set'}",
                "has_missing" if has_missing else "all_visible", "has_empty_instance" if has_empty else "no_empty",
                f"uio={cfg['user_instances_only']}", f"scale={cfg['scale']}")
        res.n_evals = max(1, res.n_evals)
        return res
    finally:
        shutil.rmtree(d, ignore_errors=True)


def strategy_dataset():
    from hypothesis import strategies as st

    @st.composite
    def case(draw):
        kind, scale0, enc = draw(st.sampled_from([(k, sc, e) for k in DATASETS + ["centered"] for sc in (1.0, 1.0, 0.5, 1.5) for e in MISSING_ENC]))  # one draw: even joint coverage
        n_nodes = draw(st.integers(1, 4)) if kind != "bottomup" else draw(st.integers(2, 4))
        rgb = draw(st.booleans())
        nv = draw(st.sampled_from([1, 1, 2]))
        videos = []
        for v in range(nv):
            videos.append({"h": draw(st.sampled_from([48, 64, 80])), "w": draw(st.sampled_from([48, 64, 96])), "kind": "texture_rgb" if rgb else "texture", "n_frames": 3, "seed": draw(st.integers(0, 99))})
        anchor = draw(st.one_of(st.none(), st.integers(0, n_nodes - 1), st.integers(0, n_nodes - 1), st.integers(0, n_nodes - 1)))
        frames = []
        n_frames = draw(st.integers(1, 4))
        used = set()
        for _ in range(n_frames):
            v = draw(st.integers(0, nv - 1))
            fi = draw(st.integers(0, 2))
            if (v, fi) in used:
                continue
            used.add((v, fi))
            n_inst = 1 if kind == "single" else draw(st.integers(1, 3))
            insts = []
            for _ in range(n_inst):
                pattern, pts, full = draw(_points_strategy(st, n_nodes, videos[v]["h"], videos[v]["w"]))
                if pattern == "anchor_missing" and anchor is not None and n_nodes > 1:
                    pts[anchor] = None
                predicted = draw(st.integers(0, 2)) == 0
                inst = {"pts": pts, "predicted": predicted, "score": 0.8}
                hid = draw(_hidden_strategy(st, enc, pts, full))
                if hid is not None:  # specs of the NaN-only class stay exactly what they were
                    inst["hidden"] = hid
                insts.append(inst)
            if kind != "single" and len(insts) >= 2 and draw(st.integers(0, 4)) == 0:
                # an empty instance listed BEFORE a labelled one in the same frame (instance positions in the frame then
                # differ from positions among the non-empty instances)
                insts[0]["pts"] = [None] * n_nodes
                insts[0].pop("hidden", None)
                if all(p is None for p in insts[1]["pts"]):
                    insts[1]["pts"][0] = [12.5, 13.0]
                    if insts[1].get("hidden"):
                        insts[1]["hidden"][0] = None
            if kind != "single" and n_frames > 1 and draw(st.integers(0, 4)) == 0:
                # a frame whose instances are all empty (dropped by the datasets' frame filter): later frames then have
                # a dataset position different from their position in the labels
                for inst in insts:
                    inst["pts"] = [None] * n_nodes
                    inst.pop("hidden", None)
            if kind == "single":  # single-instance data has exactly one (non-empty) instance per frame
                if all(p is None for p in insts[0]["pts"]):
                    insts[0]["pts"][0] = [10.5, 11.0]
                    if insts[0].get("hidden"):
                        insts[0]["hidden"][0] = None
            frames.append({"video": v, "frame_idx": fi, "instances": insts})
        if enc != "nan" and n_nodes > 1 and frames and not any(any(_hidden_mask(i)) and any(p is not None for p in i["pts"]) for f in frames for i in f["instances"]):
            # construct the class instead of hoping for it: hide one node (keeping its coordinates as
            # stored xy) of a non-empty instance that keeps at least one other visible node
            cands = [i for f in frames for i in f["instances"] if sum(p is not None for p in i["pts"]) >= 2]
            if cands:
                i = cands[draw(st.integers(0, len(cands) - 1))]
                vis = [k for k, p in enumerate(i["pts"]) if p is not None]
                k = anchor if (anchor in vis and draw(st.booleans())) else vis[draw(st.integers(0, len(vis) - 1))]
                i["hidden"] = i.get("hidden") or [None] * n_nodes
                i["hidden"][k] = list(i["pts"][k])
                i["pts"][k] = None
        if not frames:
            frames.append({"video": 0, "frame_idx": 0, "instances": [{"pts": [[10.0, 12.0]] * n_nodes, "predicted": False}]})
        edges = [[i, i + 1] for i in range(n_nodes - 1)]
        spec = {"skeleton": {"n_nodes": n_nodes, "edges": edges}, "videos": videos, "frames": frames}
        mh = max(v["h"] for v in videos)
        mw = max(v["w"] for v in videos)
        max_hw = draw(st.sampled_from([[mh, mw], [mh, mw], [mh + 16, mw + 8], [None, None] if nv == 1 else [mh, mw]]))
        cfg = {
            "is_rgb": rgb, "user_instances_only": draw(st.booleans()), "sigma": 1.5, "stride": draw(st.sampled_from([1, 2, 4])),
            "paf_stride": draw(st.sampled_from([2, 4])), "anchor": anchor if kind in ("centered", "centroid") else None,
            "max_stride": draw(st.sampled_from([8, 16])), "scale": scale0,
            "max_hw": max_hw, "np_chunks": draw(st.integers(0, 3)) == 0, "crop_hw": [draw(st.sampled_from([32, 48]))] * 2,
        }
        history = draw(
            st.lists(
                st.one_of(st.tuples(st.just("get"), st.integers(0, 3)), st.tuples(st.just("get"), st.integers(0, 7)), st.tuples(st.just("len")), st.tuples(st.just("next"))),
                min_size=4, max_size=12,
            )
        )
        return {"kind": kind, "missing_enc": enc, "spec": spec, "cfg": cfg, "history": [list(h) for h in history]}

    return case()


def summarize_dataset(case):
    return {
        "kind": case["kind"], "missing_enc": case.get("missing_enc", "nan"), "cfg": case["cfg"], "history": case["history"],
        "videos": [(v["h"], v["w"], v["kind"]) for v in case["spec"]["videos"]],
        "frames": [
            {"video": f["video"], "frame_idx": f["frame_idx"], "instances": [{"pts": i["pts"], "hidden": i.get("hidden"), "predicted": i.get("predicted", False)} for i in f["instances"]]}
            for f in case["spec"]["frames"]
        ],
    }


def parts(tier):
    return [
        Part(name="functional", evaluate=eval_functional, strategy=strategy_functional,
             budget={"quick": 400, "thorough": 60000}, min_nontrivial={"quick": 80, "thorough": 12000}),
        Part(name="dataset", evaluate=eval_dataset, strategy=strategy_dataset, summarize=summarize_dataset,
             budget={"quick": 520, "thorough": 24000}, min_nontrivial={"quick": 30, "thorough": 2400}),
    ]


if __name__ == "__main__":
    runner.main(__name__)
