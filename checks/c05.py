"""C05 - part-affinity-field targets point along each edge and vanish where they must.

Observed APIs: `generate_pafs` and the legacy DataPipe `PartAffinityFieldsGenerator`
(`flatten_channels` both ways).

Oracle (from the statement; no formula for the weight is imposed):
  the single-animal field F_a is obtained by calling the API on animal a alone, then
  additivity  : F(all animals) == sum_a F_a;
  per (a, e)  : F_ae(cell) = w(cell) * u with u the unit vector src->dst (reference, float64),
                |cross component| small, 0 <= w <= 1, w ~ 1 on cells lying on the segment,
                w non-increasing in the *reference* point-to-segment distance (vlib.ref_render);
  exact zeros : edge with a missing endpoint or zero length, all-NaN animal, animal wholly outside
                the image on one side;
  always      : finite, shape (2E, H/stride, W/stride) (or (E,2,..) unflattened), channel order
                e0.x, e0.y, e1.x, ... (verified through the direction test per channel pair).
"""

import math

import numpy as np

from vlib import ref_render as rr
from vlib import runner
from vlib.runner import Part, Result

PROPERTY = "C05"
LEVEL = "exploration"
RULE = (
    "cases = (H, W up to 96 px with stride in {1,2,4,8} or 512..4096 px with stride in {32,64}, sigma in [0.5,20], flatten_channels, random rooted tree on 2..6 nodes "
    "plus extra/duplicate/reversed edges in random order, 0..4 animals each built from a drawn class: inside / "
    "partly outside / wholly outside on one side (mostly within reach of the border) / all-NaN / border strip; "
    "nodes placed relative to their tree parent by a drawn class: free (sub-pixel or on a grid cell, sometimes "
    "axis-aligned or diagonal so that cells lie exactly on the segment) / coincident / sub-pixel offset / NaN "
    "(both, x only, y only)); every case goes through generate_pafs and PartAffinityFieldsGenerator; "
    "non-trivial = at least one (animal, edge) pair that must contribute (normal edge of an animal with a node "
    "strictly inside) AND at least one pair that must be exactly zero, in the same call; distinct by case hash"
)
ASSUMPTIONS = [
    "the weight formula is not imposed (the code uses exp(-d^4 / (2 sigma^2))): only range, ~1 on the segment, monotone in the reference distance",
    "exclusion (i) sub-pixel edges (0 < length < 1 px): the code divides the projection by max(|d|^2, 1), so its distance is exact only up to the edge length; such edges are exempt from 'w ~ 1 on the segment' and the monotonicity margin is enlarged by the edge length (class count edge=subpixel)",
    "exclusion (ii) in-image filter: an animal is rendered iff some node lies strictly inside (0, last grid coordinate) in x and y; animals whose visible nodes all lie on the zero border / in the last-stride strip (or otherwise neither strictly inside nor wholly outside on one side) may legitimately be dropped; for them only direction, range and finiteness are asserted (class count animal=exempt)",
    "'wholly outside' is generated and asserted only as: every visible node beyond the same image side by at least half a pixel (x <= -0.5, x >= W-0.5, y <= -0.5 or y >= H-0.5)",
    "n_samples is 1 (generate_pafs takes instances[0]); coordinates are rounded to float32 before the call and the float64 reference; edge lengths below 1e-3 px and infinite coordinates are not generated",
    "for H or W not a multiple of the stride floor or ceil grid sizes are both accepted",
    "self-loop edges (s == d) are not generated; coincident coordinates cover zero-length edges",
]

STRIDES = [1, 2, 4, 8]

# F = w * u computed in float32 from float32 coordinates; u differs from the float64 reference by
# ~1e-7 relative, so the cross component is <= ~2e-7 per animal.  1e-5 as in DESIGN.
TOL_CROSS = 1e-5
TOL_RANGE = 1e-5
# additivity: the code sums the per-animal float32 fields in the same order -> exact in practice;
# 1e-5 absolute allows any summation order of <= 5 terms of magnitude <= 1.
TOL_ADD = 1e-5
# cells within NEAR of the segment must have w >= 1 - TOL_ON (d^4 ~ 1e-16 there for any sigma >= 0.5;
# float32 position error of the projected point is ~1e-4 at worst, still d^4 < 1e-14)
NEAR = 1e-4
TOL_ON = 1e-4
# monotonicity: d_i + EPS_D <= d_j  =>  w_i >= w_j - TOL_MONO.  The float32 distance error of the
# code is <= ~1e-4 px for coordinates within +-150 px, well below EPS_D, so any inversion beyond
# TOL_MONO cannot come from rounding.
EPS_D = 1e-3
TOL_MONO = 1e-5
# frames larger than 256 px: cell-to-keypoint offsets reach ~6000 px, where one float32 ulp is 5e-4 px; the
# distance computed by sum((t*d - r)^2) then carries up to a few 1e-3 px of rounding -> 0.02 px separation
EPS_D_LARGE = 2e-2


def f32(v):
    return float(np.float32(v))


def last_grid(size, stride):
    return float(stride * ((size - 1) // stride))


def expected_shapes(size, stride):
    return {size // stride, -(-size // stride)}


def animal_kind(P, H, W, stride):
    """'inside' (some finite node strictly inside (0,last grid coord)^2), 'outside' (no finite node, or
    all finite nodes beyond one image side by >= 0.5 px), else 'exempt'."""
    fin = np.isfinite(P).all(axis=1)
    Q = P[fin]
    if Q.shape[0] == 0:
        return "outside"
    xl, yl = last_grid(W, stride), last_grid(H, stride)
    if np.any((Q[:, 0] > 0) & (Q[:, 0] < xl) & (Q[:, 1] > 0) & (Q[:, 1] < yl)):
        return "inside"
    if (
        np.all(Q[:, 0] <= -0.5)
        or np.all(Q[:, 0] >= W - 0.5)
        or np.all(Q[:, 1] <= -0.5)
        or np.all(Q[:, 1] >= H - 0.5)
    ):
        return "outside"
    return "exempt"


def edge_kind(src, dst):
    if not (np.isfinite(src).all() and np.isfinite(dst).all()):
        return "nan-endpoint", 0.0
    L = math.hypot(dst[0] - src[0], dst[1] - src[1])
    if L == 0.0:
        return "zero-length", 0.0
    if L < 1.0:
        return "subpixel", L
    return "normal", L


def to_field(res, prefix, out, E, H, W, stride, flatten):
    """Validate shape and return float64 (E, 2, gh, gw) or None."""
    arr = out.detach().cpu().numpy()
    shp = tuple(arr.shape)
    if flatten:
        ok = len(shp) == 3 and shp[0] == 2 * E
    else:
        ok = len(shp) == 4 and shp[0] == E and shp[1] == 2
    ok = ok and shp[-2] in expected_shapes(H, stride) and shp[-1] in expected_shapes(W, stride)
    if not ok:
        res.fail(
            f"{prefix}:shape",
            f"shape {shp} for E={E} H={H} W={W} stride={stride} flatten={flatten}",
        )
        return None
    gh, gw = shp[-2:]
    F = arr.astype(np.float64)
    if flatten:
        # statement: channels ordered e0.x, e0.y, e1.x, ... -> channel 2e+c
        F = np.stack([np.stack([F[2 * e], F[2 * e + 1]]) for e in range(E)]) if E else F.reshape(0, 2, gh, gw)
    return F


def check_call(res, prefix, call, P_all, edges, case):
    """Run the full oracle against one API (`call(instances float32 (n,nodes,2)) -> tensor`)."""
    H, W, stride, flatten = case["H"], case["W"], case["stride"], bool(case["flatten"])
    E = len(edges)
    n_inst = P_all.shape[0]
    out = runner.guarded(res, prefix, call, P_all)
    if out is runner.FAILED:
        return
    res.n_evals += 1
    held = out.detach().clone() if hasattr(out, "detach") else None  # what the caller was handed, as it was handed over
    F = to_field(res, prefix, out, E, H, W, stride, flatten)
    if F is None:
        return
    gh, gw = F.shape[-2:]
    if not np.isfinite(F).all():
        e, c, r, col = np.argwhere(~np.isfinite(F))[0]
        res.fail(
            f"{prefix}:nonfinite",
            f"non-finite value at edge {e} comp {c} cell ({r},{col}); edge {edges[e]} coords "
            f"{P_all[:, edges[e][0]].tolist()} -> {P_all[:, edges[e][1]].tolist()}",
        )
    cells = rr.cell_positions(H, W, stride)[:gh, :gw]

    total = np.zeros_like(F)
    singles_ok = True
    for a in range(n_inst):
        Pa = P_all[a]
        kind = animal_kind(Pa.astype(np.float64), H, W, stride)
        Fa_t = runner.guarded(res, prefix + ":single-animal", call, P_all[a : a + 1])
        if Fa_t is runner.FAILED:
            singles_ok = False
            continue
        Fa = to_field(res, prefix + ":single-animal", Fa_t, E, H, W, stride, flatten)
        if Fa is None or Fa.shape != F.shape:
            singles_ok = False
            continue
        if not np.isfinite(Fa).all():
            singles_ok = False
            res.fail(f"{prefix}:nonfinite:single-animal", f"non-finite values for animal {Pa.tolist()} alone")
            continue
        total += Fa
        for e, (s, d) in enumerate(edges):
            res.n_evals += 1
            src = Pa[s].astype(np.float64)
            dst = Pa[d].astype(np.float64)
            ek, L = edge_kind(src, dst)
            Fe = Fa[e]
            where = f"edge {e}=({s}->{d}) src={src.tolist()} dst={dst.tolist()} H={H} W={W} stride={stride} sigma={case['sigma']}"
            if kind == "outside":
                if np.any(Fe != 0.0):
                    res.fail(
                        f"{prefix}:zero:animal-wholly-outside",
                        f"animal wholly outside / all-NaN contributes max |F|={np.abs(Fe).max():.3g}; nodes={Pa.tolist()}; {where}",
                    )
                continue
            if ek in ("nan-endpoint", "zero-length"):
                if np.any(Fe != 0.0):
                    res.fail(f"{prefix}:zero:{ek}", f"{ek} edge contributes max |F|={np.abs(Fe).max():.3g}; {where}")
                continue
            u = (dst - src) / L
            w = Fe[0] * u[0] + Fe[1] * u[1]
            cross = Fe[0] * u[1] - Fe[1] * u[0]
            if np.abs(cross).max() > TOL_CROSS:
                r, c = np.unravel_index(int(np.abs(cross).argmax()), cross.shape)
                res.fail(
                    f"{prefix}:direction:not-parallel",
                    f"field not parallel to src->dst: F=({Fe[0, r, c]:.5g},{Fe[1, r, c]:.5g}) at cell ({r},{c}), u=({u[0]:.5g},{u[1]:.5g}); {where}",
                )
                continue
            if w.min() < -TOL_RANGE:
                r, c = np.unravel_index(int(w.argmin()), w.shape)
                res.fail(
                    f"{prefix}:direction:reversed",
                    f"field points dst->src: F.u={w[r, c]:.5g} at cell ({r},{c}); {where}",
                )
                continue
            if w.max() > 1.0 + TOL_RANGE:
                res.fail(f"{prefix}:weight-range", f"weight {w.max():.6g} > 1; {where}")
            if kind != "inside":
                continue  # exclusion (ii): may be dropped by the in-image filter
            dist = rr.ref_point_segment_distance(cells, src, dst)
            if ek == "normal":
                on = dist <= NEAR
                if on.any() and w[on].min() < 1.0 - TOL_ON:
                    idx = np.argwhere(on & (w < 1.0 - TOL_ON))[0]
                    res.fail(
                        f"{prefix}:weight-on-segment",
                        f"cell ({idx[0]},{idx[1]}) lies on the segment (d={dist[tuple(idx)]:.2g}) but weight={w[tuple(idx)]:.6g}; {where}",
                    )
                if on.any():
                    res.cls("edge-has-cell-on-segment")
            elif ek == "subpixel":
                # exclusion (i) concerns the projection along the edge only: at the SOURCE keypoint itself the
                # projection is 0 whatever the divisor, so a cell coinciding with the source is at distance 0 and
                # the field there must be the full unit vector (weight 1)
                dsrc = np.hypot(cells[..., 0] - src[0], cells[..., 1] - src[1])
                at = dsrc <= NEAR
                if at.any():
                    res.cls("subpixel-edge-source-on-a-cell")
                    if w[at].min() < 1.0 - TOL_ON:
                        idx = np.argwhere(at & (w < 1.0 - TOL_ON))[0]
                        res.fail(
                            f"{prefix}:weight-at-source:subpixel-edge",
                            f"cell ({idx[0]},{idx[1]}) coincides with the source keypoint of a {L:.3g} px edge but |F.u|={w[tuple(idx)]:.6g} (unit vector expected); {where}",
                        )
            # monotone in the reference distance
            eps = (EPS_D if max(H, W) <= 256 else EPS_D_LARGE) + (L if ek == "subpixel" else 0.0)
            order = np.argsort(dist, axis=None, kind="stable")
            ds = dist.ravel()[order]
            ws = w.ravel()[order]
            sufmax = np.maximum.accumulate(ws[::-1])[::-1]
            j = np.searchsorted(ds, ds + eps, side="left")
            valid = j < ds.shape[0]
            if valid.any():
                viol = np.zeros_like(valid)
                viol[valid] = ws[valid] < sufmax[j[valid]] - TOL_MONO
                if viol.any():
                    i = int(np.argmax(viol))
                    jj = int(j[i] + np.argmax(ws[j[i] :]))
                    res.fail(
                        f"{prefix}:monotone:{ek}",
                        f"weight increases with distance: cell at d={ds[i]:.4g} has w={ws[i]:.6g} but a cell at d={ds[jj]:.4g} has w={ws[jj]:.6g}; {where}",
                    )
    # a target handed to the caller stays what it was while further targets are generated (a data loader holds the
    # targets of a whole batch): the tensor returned by the first call is compared with its snapshot after the
    # single-animal calls above
    if held is not None and n_inst >= 1 and hasattr(out, "shape") and tuple(out.shape) == tuple(held.shape):
        import torch

        same = torch.equal(torch.nan_to_num(out.detach(), nan=1234.5), torch.nan_to_num(held, nan=1234.5))
        res.cls("held-result-rechecked-after-later-calls")
        if not same:
            d = float((torch.nan_to_num(out.detach()) - torch.nan_to_num(held)).abs().max())
            res.fail(
                f"{prefix}:earlier-result-changed-by-later-call",
                f"the tensor returned for all {n_inst} animals changed (max |diff| {d:.3g}) after {n_inst} further calls of the same API "
                f"(H={H} W={W} stride={stride} E={E} flatten={flatten})",
            )
    if singles_ok and np.isfinite(F).all():
        res.n_evals += 1
        err = np.abs(F - total)
        if err.size and err.max() > TOL_ADD:
            e, c, r, col = np.unravel_index(int(err.argmax()), err.shape)
            res.fail(
                f"{prefix}:additivity",
                f"F(all {n_inst} animals) != sum of single-animal fields: |diff|={err.max():.3g} at edge {e} comp {c} cell ({r},{col}): "
                f"{F[e, c, r, col]:.6g} vs {total[e, c, r, col]:.6g}",
            )


def evaluate(case):
    import torch

    from sleap_nn.data import edge_maps as emod

    res = Result()
    res.n_evals = 0
    H, W, stride, sigma = case["H"], case["W"], case["stride"], float(case["sigma"])
    flatten = bool(case["flatten"])
    n_nodes = case["n_nodes"]
    edges = [tuple(e) for e in case["edges"]]
    E = len(edges)
    animals = case["animals"]
    P_all = np.array([a["pts"] for a in animals], dtype=np.float64).reshape(len(animals), n_nodes, 2).astype(np.float32)

    # ---- classes / non-triviality (derived from the coordinates, not from the drawn labels)
    res.cls(f"stride={stride}", f"flatten={flatten}", f"n_inst={len(animals)}", "frame=large(>256px)" if max(H, W) > 256 else "frame=small")
    if H % stride or W % stride:
        res.cls("size=non-multiple")
    contributing = zero_pairs = 0
    kinds = set()
    for a in range(P_all.shape[0]):
        k = animal_kind(P_all[a].astype(np.float64), H, W, stride)
        res.cls(f"animal={k}", f"animal-drawn={animals[a].get('cls')}")
        for s, d in edges:
            ek, _ = edge_kind(P_all[a, s].astype(np.float64), P_all[a, d].astype(np.float64))
            kinds.add(f"edge={ek}")
            if k == "outside" or ek in ("nan-endpoint", "zero-length"):
                zero_pairs += 1
            elif k == "inside" and ek == "normal":
                contributing += 1
            if k == "inside" and ek == "subpixel":
                kinds.add("exempt:subpixel-edge")
    res.cls(*sorted(kinds))
    res.nontrivial = contributing > 0 and zero_pairs > 0

    if case.get("edge_dtype") == "int":
        edge_t = torch.tensor(edges, dtype=torch.int64).reshape(E, 2)
    else:
        edge_t = torch.Tensor([list(e) for e in edges]).reshape(E, 2)  # as every caller does

    def T(arr):
        return torch.tensor(np.ascontiguousarray(arr), dtype=torch.float32).reshape(1, arr.shape[0], n_nodes, 2)

    def call_func(arr):
        return emod.generate_pafs(
            T(arr), (H, W), sigma=sigma, output_stride=stride, edge_inds=edge_t, flatten_channels=flatten
        )

    def call_dp(arr):
        ex = {"image": torch.zeros((1, 1, H, W), dtype=torch.float32), "instances": T(arr)}
        # for half of the cases the judged example sits behind a leading example of another image size
        # (one pass over a mixed-resolution stream): per-pass state must not leak between examples
        lead_on = (int(H) + int(W) + int(round(float(sigma) * 10))) % 2 == 1
        stream = [ex]
        if lead_on:
            stream = [{"image": torch.zeros((1, 1, max(int(stride), int(H) // 2), int(W) + 3 * int(stride)), dtype=torch.float32), "instances": T(arr)}, ex]
        got = list(
            emod.PartAffinityFieldsGenerator(
                stream, sigma=sigma, output_stride=stride, edge_inds=edge_t, flatten_channels=flatten
            )
        )
        assert len(got) == len(stream)
        return got[-1]["part_affinity_fields"]

    check_call(res, "func", call_func, P_all, edges, case)
    check_call(res, "dp", call_dp, P_all, edges, case)
    res.n_evals = max(res.n_evals, 1)
    return res


# --------------------------------------------------------------------------------------
# generator


def strategy():
    from hypothesis import strategies as st

    nan = float("nan")

    @st.composite
    def case(draw):
        # "large": frames of 512..4096 px sampled at a coarse stride (the grid stays small): coordinates and
        # cell-to-keypoint offsets of thousands of pixels, where float32 arithmetic has ~1e-4 px resolution and
        # any formula that subtracts large squared terms loses the distance altogether
        large = draw(st.integers(0, 5)) == 0
        stride = draw(st.sampled_from([32, 64])) if large else draw(st.sampled_from(STRIDES))

        def size():
            if large:
                return stride * draw(st.integers(512 // stride, 4096 // stride)) + (draw(st.integers(1, stride - 1)) if draw(st.integers(0, 5)) == 0 else 0)
            if draw(st.integers(0, 99)) < 15:
                return draw(st.integers(16, 96))
            return stride * draw(st.integers(16 // stride, 96 // stride))

        # keep stride-1 maps moderate in area: cost is linear in cells x edges x animals
        H, W = size(), size()
        sigma = draw(st.one_of(st.sampled_from([0.5, 1.0, 1.5, 5.0, 20.0]), st.floats(0.5, 20.0, allow_nan=False)))
        flatten = draw(st.booleans())
        n_nodes = draw(st.integers(2, 6))
        # rooted tree over a random relabelling
        order = list(draw(st.permutations(list(range(n_nodes)))))
        parent = {order[0]: None}
        for k in range(1, n_nodes):
            parent[order[k]] = order[draw(st.integers(0, k - 1))]
        tree_edges = [[parent[v], v] for v in order[1:]]
        keep = draw(st.lists(st.booleans(), min_size=len(tree_edges), max_size=len(tree_edges)))
        edges = [e for e, k in zip(tree_edges, keep) if k] or [tree_edges[0]]
        for _ in range(draw(st.sampled_from([0, 0, 1, 2]))):
            kind = draw(st.sampled_from(["random", "duplicate", "reversed"]))
            if kind == "random":
                s = draw(st.integers(0, n_nodes - 1))
                d = draw(st.integers(0, n_nodes - 2))
                d = d if d < s else d + 1
                edges.append([s, d])
            else:
                e = draw(st.sampled_from(edges))
                edges.append(list(e) if kind == "duplicate" else [e[1], e[0]])
        edges = list(draw(st.permutations(edges)))

        xl, yl = last_grid(W, stride), last_grid(H, stride)

        def free_inside():
            """A point strictly inside (0,xl) x (0,yl): sub-pixel or on an interior grid cell."""
            if draw(st.booleans()) and xl >= 2 * stride and yl >= 2 * stride:
                return [
                    float(stride * draw(st.integers(1, int(xl) // stride - 1))),
                    float(stride * draw(st.integers(1, int(yl) // stride - 1))),
                ]
            return [
                draw(st.floats(0.25, xl - 0.25, allow_nan=False)),
                draw(st.floats(0.25, yl - 0.25, allow_nan=False)),
            ]

        def aligned(p):
            """Grid point sharing a row / column / diagonal with grid point p (cells fall on the segment)."""
            px, py = int(round(p[0] / stride)), int(round(p[1] / stride))
            nx, ny = int(xl) // stride, int(yl) // stride
            mode = draw(st.sampled_from(["row", "col", "diag"]))
            if mode == "row":
                return [float(stride * draw(st.integers(0, nx))), float(stride * py)]
            if mode == "col":
                return [float(stride * px), float(stride * draw(st.integers(0, ny)))]
            sx, sy = draw(st.sampled_from([-1, 1])), draw(st.sampled_from([-1, 1]))
            kmax = min(px if sx < 0 else nx - px, py if sy < 0 else ny - py)
            k = draw(st.integers(0, max(0, kmax)))
            return [float(stride * (px + sx * k)), float(stride * (py + sy * k))]

        def outside_coord(size_, near):
            u = draw(st.floats(0.5, 3.0, allow_nan=False)) if near else draw(st.floats(0.5, 60.0, allow_nan=False))
            return -u if draw(st.booleans()) else (size_ - 0.5) + u

        def place_nodes(rel_weights):
            """Coordinates for all nodes, children placed relative to the tree parent."""
            pts = {}
            root = order[0]
            pts[root] = free_inside()
            for v in order[1:]:
                p = pts[parent[v]]
                rel = draw(st.sampled_from(rel_weights))
                if rel == "nan":
                    # the node is missing; children of a missing node are placed freely
                    pts[v] = None
                    continue
                if p is None:
                    pts[v] = free_inside()
                    continue
                if rel == "coincident":
                    pts[v] = list(p)
                elif rel == "subpixel":
                    L = draw(st.floats(1e-3, 0.95, allow_nan=False))
                    ang = draw(st.floats(0.0, 2 * math.pi, allow_nan=False))
                    pts[v] = [p[0] + L * math.cos(ang), p[1] + L * math.sin(ang)]
                elif rel == "aligned" and p[0] % stride == 0 and p[1] % stride == 0:
                    pts[v] = aligned(p)
                else:
                    pts[v] = free_inside()
            return pts

        REL = ["free"] * 8 + ["aligned"] * 4 + ["coincident"] * 2 + ["subpixel"] * 2 + ["nan"] * 3

        def nan_style():
            return draw(st.sampled_from(["both", "both", "x", "y"]))

        def finish(pts):
            out = []
            for v in range(n_nodes):
                p = pts[v]
                if p is None:
                    stl = nan_style()
                    q = free_inside()
                    p = [nan, nan] if stl == "both" else ([nan, q[1]] if stl == "x" else [q[0], nan])
                out.append([f32(p[0]), f32(p[1])])
            return out

        animals = []
        n_inst = draw(st.sampled_from([2, 1, 3, 2, 1, 4, 2, 0, 3, 2, 3, 1]))  # 0 kept rare on purpose
        for _ in range(n_inst):
            cls = draw(
                st.sampled_from(
                    ["inside"] * 5 + ["partly_outside"] * 3 + ["wholly_outside"] * 3 + ["all_nan"] * 2 + ["border_strip"] * 1
                )
            )
            if cls == "all_nan":
                animals.append({"cls": cls, "pts": finish({v: None for v in range(n_nodes)})})
                continue
            pts = place_nodes(REL)
            if cls == "partly_outside":
                vis = [v for v in range(n_nodes) if pts[v] is not None]
                if len(vis) >= 2:
                    stay = draw(st.sampled_from(vis))
                    for v in vis:
                        if v != stay and draw(st.booleans()):
                            ax = draw(st.integers(0, 1))
                            pts[v] = list(pts[v])
                            pts[v][ax] = outside_coord(W if ax == 0 else H, near=draw(st.booleans()))
            elif cls == "wholly_outside":
                side = draw(st.sampled_from(["left", "right", "top", "bottom"]))
                near = draw(st.integers(0, 3)) > 0
                base = draw(st.floats(0.0, 2.5, allow_nan=False)) if near else draw(st.floats(0.0, 60.0, allow_nan=False))
                for v in range(n_nodes):
                    if pts[v] is None:
                        continue
                    p = list(pts[v])
                    # keep the animal's shape but push it across the chosen side
                    if side == "left":
                        p[0] = -0.5 - base - abs(xl - p[0]) * 0.2
                    elif side == "right":
                        p[0] = (W - 0.5) + base + abs(p[0]) * 0.2
                    elif side == "top":
                        p[1] = -0.5 - base - abs(yl - p[1]) * 0.2
                    else:
                        p[1] = (H - 0.5) + base + abs(p[1]) * 0.2
                    pts[v] = p
            elif cls == "border_strip":
                for v in range(n_nodes):
                    if pts[v] is None:
                        continue
                    p = list(pts[v])
                    where = draw(st.sampled_from(["x0", "y0", "xlast", "ylast"]))
                    if where == "x0":
                        p[0] = 0.0
                    elif where == "y0":
                        p[1] = 0.0
                    elif where == "xlast":
                        p[0] = draw(st.floats(xl, float(W - 1), allow_nan=False)) if W - 1 > xl else xl
                    else:
                        p[1] = draw(st.floats(yl, float(H - 1), allow_nan=False)) if H - 1 > yl else yl
                    pts[v] = p
            animals.append({"cls": cls, "pts": finish(pts)})
        return {
            "H": H,
            "W": W,
            "stride": stride,
            "sigma": float(sigma),
            "flatten": flatten,
            "n_nodes": n_nodes,
            "edges": [list(e) for e in edges],
            "edge_dtype": draw(st.sampled_from(["float", "float", "int"])),
            "animals": animals,
        }

    return case()


def parts(tier):
    return [
        Part(
            name="pafs",
            evaluate=evaluate,
            strategy=strategy,
            budget={"quick": 1000, "thorough": 256000},
            shards={"quick": 1, "thorough": 16},
            min_nontrivial={"quick": 90, "thorough": 6000},
        )
    ]


if __name__ == "__main__":
    runner.main(__name__)
