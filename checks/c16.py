"""C16 - evaluation metrics: perfect for perfect predictions, bounded, monotone.

Synthetic ``sio.Labels`` pairs are built on the video object of the asset file (the
Evaluator pairs frames through ``video.backend``): 1..6 frames, 1..4 animals placed in
separate grid cells, 2..6 nodes, GT NaN patterns, predictions = GT + noise (0, sub-pixel,
fractions and multiples of the animal size), missing / extra far-away / duplicated
predictions, NaN nodes, random and tied scores, varied OKS options and threshold vectors.

Oracles (none shares code with the implementation):
* fixed point (predictions == GT): mOKS 1, distances 0, AP/AR/mAP/mAR >= 1-1e-6, mPCK ==
  fraction of GT-visible keypoints, visibility precision/recall 1;
* bounds: every finite ratio in [0,1]; no NaN in mOKS/AP/AR/mAP/mAR/mPCK once a pair matched;
* monotone: AP, AR non-increasing along the match thresholds; PCK non-decreasing along the
  pixel thresholds and consistent under refinement of the threshold vector;
* AP / AR equal the values computed from the definitions (interpolated precision over the
  documented 101 recall thresholds, recall = matched-above-threshold / GT instances in paired
  frames) whenever the detection scores of the matched pairs are pairwise distinct;
* deletion metamorphic: removing predicted instances never increases AR / mAR - asserted on
  scenes where (checked with an independent OKS reference) every prediction can match at
  most one GT instance and every GT instance at most one prediction.
"""

import math

import numpy as np

from vlib import env, runner
from vlib.runner import Part, Result

PROPERTY = "C16"
LEVEL = "exploration"
RULE = (
    "cases = label pairs drawn class-first (perfect | clean | messy | nothing-matches | no-frame-pairs): frames x "
    "separated animals x GT NaN patterns x per-prediction noise level / missing / extra / duplicate / NaN nodes x "
    "scores with ties x (oks_stddev, oks_scale, match_threshold) x match-threshold vector x PCK threshold vector "
    "and its refinement x a subset of predictions to delete. Non-trivial = at least one matched pair and at least "
    "two GT instances in paired frames. Distinct by hash of the serialised case."
)
ASSUMPTIONS = [
    "ground-truth instances have >= 1 visible node (datasets drop empty instances); GT frames without instances are generated and are dropped by find_frame_pairs",
    "NaN in mOKS / mPCK (and the all-zero VOC dictionary) is the code's marker for 'no pair matched' and is accepted exactly in that situation",
    "Evaluator raising 'Empty Frame Pairs' when no frame can be paired is documented behaviour: counted as rejected input",
    "match-score thresholds lie in [0, 0.99]: at a threshold of exactly 1.0 'AP = 1 up to rounding' would hinge on OKS being bit-exactly 1.0",
    "deletion metamorphic: only predicted *instances* are removed, the (possibly empty) predicted LabeledFrame is kept - dropping a whole predicted frame removes its GT from the evaluated set (find_frame_pairs skips unpaired frames), which changes the denominator by definition",
    "deletion metamorphic is asserted only on scenes where each prediction is related (some node with d^2/normalisation <= 800, i.e. OKS possibly non-zero) to at most one GT and vice versa, because VOC greedy matching lets a high-score poor prediction steal a GT (DESIGN.md C16 soundness note); other scenes are generated for the remaining clauses",
    "AP/AR reference (DESIGN.md section 2 'VOC precision/recall from definitions'; docstring: 'AP = average precision over fixed set of recall thresholds'): asserted only when the matched pairs have pairwise distinct detection scores, because the order of tied detections is not defined",
    "fixed point uses animals in separate grid cells, so a copy of one GT animal never has OKS 1 with another GT animal",
]

ASSET = "tests/assets/minimal_instance.pkg.slp"
EPS = 2.0**-52
_ASSET = {}


def asset_video():
    if "video" not in _ASSET:
        import os

        import sleap_io as sio

        path = os.path.join(env.REPO, ASSET)
        if not os.path.exists(path):  # mutant copies contain the package only
            path = os.path.join("/repo", ASSET)
        _ASSET["video"] = sio.load_slp(path).videos[0]
    return _ASSET["video"]


def pose_arr(pose):
    a = np.full((len(pose), 2), np.nan)
    for k, pt in enumerate(pose):
        if pt is not None:
            a[k] = pt
    return a


def related(g, p, stddev, scale):
    """Independent test 'OKS(g, p) may be non-zero': some GT-visible, predicted node with
    d^2 / ((2 stddev)^2 * 2 (area + eps)) <= 800 (exp(-745.2) is the smallest positive double)."""
    vis = [k for k in range(len(g)) if g[k] is not None]
    if scale is None:
        xs = [g[k][0] for k in vis]
        ys = [g[k][1] for k in vis]
        area = (max(xs) - min(xs)) * (max(ys) - min(ys))
    else:
        area = float(scale)
    denom = (2.0 * stddev) ** 2 * 2.0 * (area + EPS)
    for k in vis:
        if p[k] is None:
            continue
        d2 = (g[k][0] - p[k][0]) ** 2 + (g[k][1] - p[k][1]) ** 2
        if d2 / denom <= 800.0:
            return True
    return False


def scene_is_clean(case):
    for fr in case["frames"]:
        if not fr["has_pr_frame"]:
            continue
        deg_p = [0] * len(fr["pr"])
        for g in fr["gt"]:
            deg_g = 0
            for j, p in enumerate(fr["pr"]):
                if related(g, p["pts"], case["oks_stddev"], case["oks_scale"]):
                    deg_g += 1
                    deg_p[j] += 1
            if deg_g > 1:
                return False
        if any(d > 1 for d in deg_p):
            return False
    return True


def _hide(inst, pose, on):
    """Encode the missing nodes of `pose` the way the SLEAP GUI hides a node: finite stored xy, visible=False
    (`Instance.numpy()` reports NaN for such a node; the raw `points["xy"]` buffer does not)."""
    if not on:
        return inst
    vis = [p for p in pose if p is not None]
    if not vis:
        return inst
    for k, p in enumerate(pose):
        if p is None:
            inst.points["xy"][k] = [vis[0][0] + 1.5 * (k + 1), vis[0][1] + 0.5 * (k + 1)]
            inst.points["visible"][k] = False
    return inst


def build_labels(case, deleted=()):
    import sleap_io as sio

    if case.get("videos") == "package":
        # ground truth and predictions over the two videos of one package file (shared filename, different HDF5
        # dataset), each side with its own Video objects as when two label files are loaded; frame indices may
        # coincide across the videos
        if "pkg" not in _ASSET:
            from vlib import pkg

            _ASSET["pkg"] = (pkg.load_videos(), pkg.load_videos())
        vids_gt, vids_pr = _ASSET["pkg"]
    else:
        vids_gt = vids_pr = [asset_video()]
    n = case["n_nodes"]
    skel = sio.Skeleton(nodes=[f"n{i}" for i in range(n)])
    deleted = {tuple(d) for d in deleted}
    lf_gt, lf_pr = [], []
    for fpos, fr in enumerate(case["frames"]):
        hid = bool(case.get("hidden_enc"))
        gi = [_hide(sio.Instance.from_numpy(points_data=pose_arr(g), skeleton=skel), g, hid) for g in fr["gt"]]
        video = vids_gt[fr.get("video", 0)]
        lf_gt.append(sio.LabeledFrame(video=video, frame_idx=fr["idx"], instances=gi))
        if fr["has_pr_frame"]:
            pi = [
                _hide(sio.PredictedInstance.from_numpy(points_data=pose_arr(p["pts"]), skeleton=skel, score=float(p["score"]), point_scores=np.ones(n)), p["pts"], hid)
                for ppos, p in enumerate(fr["pr"])
                if (fpos, ppos) not in deleted
            ]
            lf_pr.append(sio.LabeledFrame(video=vids_pr[fr.get("video", 0)], frame_idx=fr["idx"], instances=pi))
    gt = sio.Labels(labeled_frames=lf_gt, videos=list(vids_gt), skeletons=[skel])
    pr = sio.Labels(labeled_frames=lf_pr, videos=list(vids_pr), skeletons=[skel])
    return gt, pr


def ref_voc(pairs, npig, thresholds, recall_thresholds):
    """AP / AR per match threshold from the definitions: detections sorted by descending score
    (scores are distinct when this is used), precision_k = tp_k / (tp_k + fp_k), recall_k = tp_k / npig,
    interpolated precision at recall r = max precision over the detections reaching recall >= r (0 when
    r is never reached), AP = mean over the recall thresholds, AR = final recall."""
    order = sorted(range(len(pairs)), key=lambda i: -pairs[i][1])
    APs, ARs = [], []
    for t in thresholds:
        tp = fp = 0
        rc, pr = [], []
        for i in order:
            if pairs[i][0] >= t:
                tp += 1
            else:
                fp += 1
            rc.append(tp / npig)
            pr.append(tp / (tp + fp))
        ARs.append(rc[-1])
        interp = []
        for r in recall_thresholds:
            cand = [p for p, q in zip(pr, rc) if q >= r]
            interp.append(max(cand) if cand else 0.0)
        APs.append(math.fsum(interp) / len(interp))
    return np.array(APs), np.array(ARs)


def voc_arrays(d, name):
    """(AP, AR, mAP, mAR, precisions, recalls, match_scores) as float arrays; the 'nothing matched'
    dictionary holds integer zeros."""
    g = lambda k: np.atleast_1d(np.asarray(d[f"{name}.{k}"], dtype=np.float64))  # noqa: E731
    return g("AP"), g("AR"), g("mAP"), g("mAR"), g("precisions"), g("recalls"), g("match_scores")


def in01(x):
    x = np.asarray(x, dtype=np.float64)
    f = x[np.isfinite(x)]
    return bool(((f >= 0) & (f <= 1 + 1e-12)).all()) and not np.isinf(x).any()


def evaluate(case):
    from sleap_nn.evaluation import Evaluator

    res = Result()
    kind = case["kind"]
    n = case["n_nodes"]
    opts = dict(oks_stddev=case["oks_stddev"], oks_scale=case["oks_scale"], match_threshold=case["match_threshold"])
    paired = [fr for fr in case["frames"] if fr["has_pr_frame"] and fr["gt"]]
    n_gt_paired = sum(len(fr["gt"]) for fr in paired)
    n_pr_total = sum(len(fr["pr"]) for fr in paired)
    res.cls(
        f"kind={kind}",
        f"frames={len(case['frames'])}",
        f"paired-gt={'0' if n_gt_paired == 0 else '1' if n_gt_paired == 1 else '2-5' if n_gt_paired <= 5 else '6+'}",
        f"nodes={n}",
        "match_threshold=0" if case["match_threshold"] == 0 else "match_threshold>0",
        "oks_scale=None" if case["oks_scale"] is None else "oks_scale=scalar",
        f"videos={case.get('videos', 'asset')}",
        "missing-enc=hidden-with-xy" if case.get("hidden_enc") else "missing-enc=nan",
    )
    fv = [(fr.get("video", 0), fr["idx"]) for fr in case["frames"]]
    if len({i for _, i in fv}) < len(fv):
        res.cls("frame-index-shared-by-two-videos")
    if any(g_pt is None for fr in paired for g in fr["gt"] for g_pt in g):
        res.cls("gt-has-missing-nodes")
    if any(not fr["has_pr_frame"] for fr in case["frames"]):
        res.cls("has-unpaired-gt-frame")
    if any(not fr["gt"] for fr in case["frames"]):
        res.cls("has-empty-gt-frame")
    res.n_evals = 0

    def run(deleted=()):
        """Evaluator + all metric calls; dict of outputs, None when rejected, FAILED on a raise."""
        gt, pr = build_labels(case, deleted)
        if not paired:
            try:
                ev = Evaluator(gt, pr, **opts)
            except Exception as e:  # documented: raises when no frame pair exists
                if "Empty Frame Pairs" in str(e):
                    return None
                raise
        else:
            ev = runner.guarded(res, "evaluator", Evaluator, gt, pr, **opts)
            if ev is runner.FAILED:
                return runner.FAILED
        out = {"pairs": [(float(pp[2]), float(pp[1].instance.score)) for pp in ev.positive_pairs]}
        if not deleted:
            res.nontrivial = len(out["pairs"]) >= 1 and n_gt_paired >= 2
        for key, fn, kw in (
            ("all", ev.evaluate, {}),
            ("voc", ev.voc_metrics, {"match_score_thresholds": np.array(case["mst"], dtype=np.float64)}),
            ("vocpck", ev.voc_metrics, {"match_score_by": "pck", "match_score_thresholds": np.array(case["mst"], dtype=np.float64)}),
            ("pck", ev.pck_metrics, {"thresholds": np.array(case["pck_thr"], dtype=np.float64)}),
            ("pckref", ev.pck_metrics, {"thresholds": np.array(sorted(case["pck_thr"] + case["pck_extra"]), dtype=np.float64)}),
        ):
            r = runner.guarded(res, f"metrics:{key}", fn, **kw)
            res.n_evals += 1
            if r is runner.FAILED:
                return runner.FAILED
            out[key] = r
        return out

    base = run()
    if base is None:
        res.rejected = True
        res.cls("rejected:no-frame-pairs")
        res.n_evals = 1
        return res
    if base is runner.FAILED:
        res.n_evals = max(1, res.n_evals)
        return res
    m = base["all"]
    n_pairs = len(m["distance_metrics"]["frame_idxs"])
    res.cls("pairs=0" if n_pairs == 0 else "pairs=all-gt" if n_pairs == n_gt_paired else "pairs=some")
    default_thr = np.linspace(0.5, 0.95, 10)

    # ---------------- bounds + NaN rule
    ratios = {}
    for tag, d, name in (("voc", m["voc_metrics"], "oks_voc"), ("voc-custom", base["voc"], "oks_voc"), ("voc-pck", base["vocpck"], "pck_voc")):
        AP, AR, mAP, mAR, P, R, S = voc_arrays(d, name)
        for k, v in (("AP", AP), ("AR", AR), ("mAP", mAP), ("mAR", mAR), ("precisions", P), ("recalls", R), ("match_scores", S)):
            ratios[f"{tag}.{k}"] = v
    ratios["mOKS"] = np.atleast_1d(m["mOKS"]["mOKS"])
    for tag in ("pck", "pckref"):
        ratios[f"{tag}.mPCK"] = np.atleast_1d(base[tag]["mPCK"])
        ratios[f"{tag}.mPCK_parts"] = np.atleast_1d(base[tag]["mPCK_parts"])
    ratios["pck.default.mPCK"] = np.atleast_1d(m["pck_metrics"]["mPCK"])
    ratios["vis.precision"] = np.atleast_1d(m["visibility_metrics"]["precision"])
    ratios["vis.recall"] = np.atleast_1d(m["visibility_metrics"]["recall"])
    for k, v in ratios.items():
        # ratios of counts / means of values in [0,1]; 1e-12 for the rounding of a mean
        if not in01(v):
            res.fail(f"bounds:{k.split('.')[-1]}", f"{k} outside [0,1]: {np.asarray(v).ravel()[:12].tolist()}")
    if n_pairs >= 1:
        for k in ("voc.AP", "voc.AR", "voc.mAP", "voc.mAR", "voc-custom.AP", "voc-custom.AR", "voc-custom.mAP", "voc-custom.mAR", "mOKS", "pck.default.mPCK", "pck.mPCK"):
            if np.isnan(ratios[k]).any():
                res.fail(f"nan-with-matches:{k.split('.')[-1]}", f"{k} is NaN although {n_pairs} pairs matched")

    # ---------------- monotone in the match threshold (same arithmetic at every threshold: exact; 1e-9 as in DESIGN.md)
    for tag, d, name, thr in (
        ("default", m["voc_metrics"], "oks_voc", default_thr),
        ("custom", base["voc"], "oks_voc", case["mst"]),
        ("pck", base["vocpck"], "pck_voc", case["mst"]),
    ):
        AP, AR = voc_arrays(d, name)[:2]
        if n_pairs >= 1 and (len(AP) != len(thr) or len(AR) != len(thr)):
            res.fail("voc:shape", f"{tag}: {len(AP)} AP / {len(AR)} AR values for {len(thr)} thresholds")
            continue
        if (np.diff(AP) > 1e-9).any():
            res.fail("monotone:AP-increases-with-threshold", f"{tag}: thresholds {list(thr)} AP {AP.tolist()}")
        if (np.diff(AR) > 1e-9).any():
            res.fail("monotone:AR-increases-with-threshold", f"{tag}: thresholds {list(thr)} AR {AR.tolist()}")

    # ---------------- AP / AR against the definitions (only with pairwise distinct detection scores: the order of
    # tied detections is not defined).  npig comes from the case (GT instances in paired frames), not from the code.
    if n_pairs >= 1:
        pairs = base["pairs"]
        if len({sc for _, sc in pairs}) < len(pairs):
            res.cls("voc-reference:tied-scores(not-asserted)")
        else:
            res.cls("voc-reference:asserted")
            rts = np.linspace(0, 1, 101)  # documented default recall thresholds
            for tag, d, thr in (("default", m["voc_metrics"], default_thr), ("custom", base["voc"], case["mst"])):
                AP, AR = voc_arrays(d, "oks_voc")[:2]
                rAP, rAR = ref_voc(pairs, n_gt_paired, list(thr), rts)
                if AP.shape != rAP.shape or AR.shape != rAR.shape:
                    continue  # reported as voc:shape above
                # identical integer counts; the code adds spacing(1) to the precision denominator -> 1e-9
                if (np.abs(AR - rAR) > 1e-9).any():
                    res.fail("voc-reference:AR", f"{tag}: AR {AR.tolist()} vs definition {rAR.tolist()} ({n_pairs} pairs, {n_gt_paired} GT)")
                if (np.abs(AP - rAP) > 1e-9).any():
                    res.fail("voc-reference:AP", f"{tag}: AP {AP.tolist()} vs definition {rAP.tolist()} (pairs (oks, score) {pairs[:8]}, {n_gt_paired} GT)")

    # ---------------- PCK monotone in the pixel threshold and under refinement
    if n_pairs >= 1:
        T = case["pck_thr"]
        Tr = sorted(case["pck_thr"] + case["pck_extra"])
        pc = np.asarray(base["pck"]["pcks"], dtype=np.float64)
        pr_ = np.asarray(base["pckref"]["pcks"], dtype=np.float64)
        if pc.shape != (n_pairs, n, len(T)) or pr_.shape != (n_pairs, n, len(Tr)):
            res.fail("pck:shape", f"pcks shapes {pc.shape} / {pr_.shape} for {n_pairs} pairs, {n} nodes, {len(T)} / {len(Tr)} thresholds")
        else:
            per_t, per_tr = pc.mean(axis=(0, 1)), pr_.mean(axis=(0, 1))
            # means of booleans over the same set: exact
            if (np.diff(per_t) < 0).any() or (np.diff(per_tr) < 0).any():
                res.fail("monotone:PCK-decreases-with-threshold", f"thresholds {T} -> {per_t.tolist()}; refined {Tr} -> {per_tr.tolist()}")
            idx = [Tr.index(t) for t in T]
            if not np.array_equal(pc, pr_[:, :, idx]):
                res.fail("pck:refinement-changes-values", f"PCK at {T}: {per_t.tolist()} vs inside refined vector {per_tr[idx].tolist()}")

    # ---------------- fixed point
    if kind == "perfect":
        vis = np.array([[pt is not None for pt in g] for fr in paired for g in fr["gt"]], dtype=bool)  # (n_inst, n)
        if n_pairs != n_gt_paired:
            res.fail("fixed-point:unmatched-gt", f"{n_pairs} pairs for {n_gt_paired} GT instances with identical predictions")
        else:
            mo = float(m["mOKS"]["mOKS"])
            if not abs(mo - 1.0) <= 1e-9:  # identical poses: every distance is exactly 0
                res.fail("fixed-point:mOKS", f"mOKS = {mo!r}")
            d = np.asarray(m["distance_metrics"]["dists"], dtype=np.float64)
            if d.shape != vis.shape or int(np.isnan(d).sum()) != int((~vis).sum()) or not (d[~np.isnan(d)] == 0).all():
                res.fail("fixed-point:dists", f"dists {d.tolist()} (GT visibility {vis.astype(int).tolist()})")
            for k in ("avg", "p50", "p90", "p99"):
                if not float(m["distance_metrics"][k]) == 0.0:
                    res.fail("fixed-point:dists", f"distance_metrics[{k}] = {m['distance_metrics'][k]!r}")
            for tag in ("voc", "voc-custom"):
                for k in ("AP", "AR", "mAP", "mAR"):
                    v = ratios[f"{tag}.{k}"]
                    if not (v >= 1 - 1e-6).all():  # precision carries +spacing(1) in its denominator
                        res.fail(f"fixed-point:{k}", f"{tag}.{k} = {v.tolist()}")
            # PCK: a keypoint counts iff it is visible in the GT (distance 0 < every threshold > 0)
            want_parts = vis.mean(axis=0)
            for tag, pk in (("default", m["pck_metrics"]), ("custom", base["pck"])):
                if not abs(float(pk["mPCK"]) - float(want_parts.mean())) <= 1e-12:
                    res.fail("fixed-point:mPCK", f"{tag}: mPCK = {float(pk['mPCK'])!r}, GT-visible fraction = {float(want_parts.mean())!r}")
                elif not (np.abs(np.asarray(pk["mPCK_parts"]) - want_parts) <= 1e-12).all():
                    res.fail("fixed-point:mPCK", f"{tag}: mPCK_parts = {np.asarray(pk['mPCK_parts']).tolist()}, per-node visible fraction {want_parts.tolist()}")
            vm = m["visibility_metrics"]
            if (int(vm["tp"]), int(vm["fp"]), int(vm["fn"]), int(vm["tn"])) != (int(vis.sum()), 0, 0, int((~vis).sum())) or float(vm["precision"]) != 1.0 or float(vm["recall"]) != 1.0:
                res.fail("fixed-point:visibility", f"visibility metrics { {k: float(v) for k, v in vm.items()} } for {int(vis.sum())} visible / {int((~vis).sum())} missing nodes")

    # ---------------- deletion metamorphic
    if case["delete"]:
        if not scene_is_clean(case):
            res.cls("deletion:scene-not-clean(not-asserted)")
        else:
            after = run(case["delete"])
            if after is not None and after is not runner.FAILED:
                res.cls("deletion:asserted")
                n_after = len(after["all"]["distance_metrics"]["frame_idxs"])
                res.cls("deletion:removed-a-matched-pair" if n_after < n_pairs else "deletion:removed-unmatched-only")
                for tag, d0, d1 in (("default", m["voc_metrics"], after["all"]["voc_metrics"]), ("custom", base["voc"], after["voc"])):
                    AR0, mAR0 = voc_arrays(d0, "oks_voc")[1], voc_arrays(d0, "oks_voc")[3]
                    AR1, mAR1 = voc_arrays(d1, "oks_voc")[1], voc_arrays(d1, "oks_voc")[3]
                    if AR0.shape != AR1.shape:  # one side is the scalar 'nothing matched' zero
                        AR0, AR1 = np.broadcast_arrays(AR0, AR1) if 1 in (AR0.size, AR1.size) else (AR0, AR1)
                    # same matched pairs minus the deleted ones, same denominator: exact
                    if (AR1 > AR0 + 1e-12).any() or (mAR1 > mAR0 + 1e-12).any():
                        res.fail("deletion:recall-increased", f"{tag}: AR {AR0.tolist()} -> {AR1.tolist()} after deleting predictions {case['delete']}")
    res.n_evals = max(1, res.n_evals)
    return res


def strategy():
    from hypothesis import strategies as st

    KINDS = ["perfect"] * 3 + ["clean"] * 5 + ["messy"] * 3 + ["nothing-matches", "no-frame-pairs"]
    F = 40  # grid pitch in animal sizes: d >= (F-4)*size >> sqrt(800 * 0.16 * 2) * size for stddev <= 0.2

    @st.composite
    def case(draw):
        kind = draw(st.sampled_from(KINDS))
        n = draw(st.sampled_from([2, 2, 3, 3, 4, 5, 6]))
        n_frames = draw(st.sampled_from([1, 1, 2, 2, 3, 4, 6]))
        videos = draw(st.sampled_from(["asset", "asset", "package"]))
        if videos == "package":
            # two videos of one package file; small index range so that frame indices coincide across the videos
            n_frames = max(2, n_frames)
            vi = draw(st.lists(st.tuples(st.integers(0, 1), st.integers(0, 3)), min_size=n_frames, max_size=n_frames, unique=True))
            vids, idxs = [v for v, _ in vi], [i for _, i in vi]
        else:
            idxs = draw(st.lists(st.integers(0, 30), min_size=n_frames, max_size=n_frames, unique=True))
            vids = [0] * n_frames
        size = draw(st.sampled_from([4.0, 32.0, 128.0]))
        stddev = draw(st.sampled_from([0.025, 0.025, 0.05, 0.107, 0.2]))
        oks_scale = draw(st.sampled_from([None, None, None, size * size / 4, size * size]))
        match_threshold = draw(st.sampled_from([0, 0, 0, 0.1, 0.5, 0.9]))

        def offs(k):
            return [v / 64.0 for v in draw(st.lists(st.integers(0, 64), min_size=k, max_size=k))]

        def noise(k):
            return [v / 64.0 for v in draw(st.lists(st.integers(-64, 64), min_size=k, max_size=k))]

        frames = []
        for f in range(n_frames):
            n_an = draw(st.integers(1, 4))
            if kind != "perfect" and f > 0 and draw(st.sampled_from([False] * 7 + [True])):
                n_an = 0  # GT frame without user instances: dropped by find_frame_pairs
            cells = draw(st.lists(st.tuples(st.integers(0, 3), st.integers(0, 3)), min_size=n_an + 2, max_size=n_an + 2, unique=True))
            gts, fulls = [], []
            for a in range(n_an):
                cx, cy = cells[a]
                if kind == "messy" and draw(st.booleans()):
                    cx, cy = 0, 0  # overlapping animals
                off = offs(2 * n)
                pose = [[cx * F * size + off[2 * k] * size, cy * F * size + off[2 * k + 1] * size] for k in range(n)]
                pat = draw(st.sampled_from(["all", "all", "random", "single"]))
                if pat == "all":
                    mask = [True] * n
                elif pat == "single":
                    keep = draw(st.integers(0, n - 1))
                    mask = [k == keep for k in range(n)]
                else:
                    mask = draw(st.lists(st.booleans(), min_size=n, max_size=n))
                    if not any(mask):
                        mask[draw(st.integers(0, n - 1))] = True
                fulls.append(pose)
                gts.append([p if mk else None for p, mk in zip(pose, mask)])
            prs = []
            for a in range(n_an):
                sc = st.one_of(st.sampled_from([0.1, 0.5, 0.5, 0.9, 1.0]), st.floats(0.0, 1.0, allow_nan=False))
                if kind == "perfect":
                    prs.append({"pts": [None if p is None else list(p) for p in gts[a]], "score": draw(sc), "src": a})
                    continue
                if kind == "nothing-matches":
                    continue
                if draw(st.integers(0, 5)) == 0:
                    continue  # missed animal
                copies = 1 + (kind == "messy" and draw(st.integers(0, 2)) == 0)
                for _ in range(copies):
                    # 0, sub-pixel, fraction of the animal, several animal sizes
                    ns = draw(st.sampled_from([0.0, 0.25, 0.25, size / 64, size / 16, size / 4, size, 2 * size]))
                    nz = noise(2 * n)
                    pose = [[fulls[a][k][0] + nz[2 * k] * ns, fulls[a][k][1] + nz[2 * k + 1] * ns] for k in range(n)]
                    pat = draw(st.sampled_from(["all", "all", "as-gt", "random"]))
                    mask = [True] * n if pat == "all" else [p is not None for p in gts[a]] if pat == "as-gt" else draw(st.lists(st.booleans(), min_size=n, max_size=n))
                    prs.append({"pts": [p if mk else None for p, mk in zip(pose, mask)], "score": draw(sc), "src": a})
            if kind != "perfect":
                for e in range(draw(st.sampled_from([0, 0, 1, 2]))):  # extra predictions in cells without GT
                    cx, cy = cells[n_an + e]
                    off = offs(2 * n)
                    prs.append({
                        "pts": [[cx * F * size + off[2 * k] * size, cy * F * size + off[2 * k + 1] * size] for k in range(n)],
                        "score": draw(st.sampled_from([0.05, 0.5, 0.99])),
                        "src": None,
                    })
                prs = list(draw(st.permutations(prs)))
            has_pr_frame = True
            if kind == "no-frame-pairs":
                has_pr_frame = False
            elif kind != "perfect" and f > 0 and draw(st.sampled_from([False] * 7 + [True])):
                has_pr_frame = False
            frames.append({"idx": idxs[f], "video": vids[f], "gt": gts, "pr": prs, "has_pr_frame": has_pr_frame})
        tv = st.one_of(st.sampled_from([0.0, 0.3, 0.5, 0.75, 0.9, 0.99]), st.floats(0.0, 0.99, allow_nan=False))
        mst = sorted(draw(st.lists(tv, min_size=1, max_size=6)))
        pv = st.one_of(st.sampled_from([0.25, 1.0, 2.0, 5.0, 10.0, size / 4, size]), st.floats(0.01, 300.0, allow_nan=False))
        pck_thr = sorted(draw(st.lists(pv, min_size=1, max_size=5, unique=True)))
        pck_extra = [t for t in draw(st.lists(pv, min_size=0, max_size=4, unique=True)) if t not in pck_thr]
        cand = [[fpos, ppos] for fpos, fr in enumerate(frames) if fr["has_pr_frame"] for ppos in range(len(fr["pr"]))]
        delete = []
        if cand and kind != "no-frame-pairs" and draw(st.integers(0, 4)) > 0:
            flags = draw(st.lists(st.booleans(), min_size=len(cand), max_size=len(cand)))
            delete = [c for c, fl in zip(cand, flags) if fl] or [cand[draw(st.integers(0, len(cand) - 1))]]
        return {
            "kind": kind,
            # missing nodes as NaN coordinates, or hidden by the visible flag with finite stored coordinates
            "hidden_enc": draw(st.sampled_from([False, False, True])),
            "videos": videos,
            "n_nodes": n,
            "frames": frames,
            "oks_stddev": stddev,
            "oks_scale": oks_scale,
            "match_threshold": match_threshold,
            "mst": mst,
            "pck_thr": pck_thr,
            "pck_extra": pck_extra,
            "delete": delete,
        }

    return case()


def census_case(n_inst, layout):
    """Perfect predictions for a label set with exactly `n_inst` ground-truth instances (every count is its own
    case: ratios such as tp / n must come out exact for EVERY n, not only for the small sets sampling produces)."""
    per_frame = {"one-per-frame": 1, "four-per-frame": 4, "mixed": 3}[layout]
    frames, k, f = [], 0, 0
    while k < n_inst:
        m = min(per_frame if layout != "mixed" else 1 + (f % 3), n_inst - k)
        gts, prs = [], []
        for a in range(m):
            x0, y0 = 40.0 + 90.0 * a, 60.0 + 7.0 * (f % 5)
            pose = [[x0, y0], [x0 + 12.0, y0 + 5.0], [x0 + 3.0, y0 + 17.0]]
            gts.append(pose)
            prs.append({"pts": [list(p) for p in pose], "score": 0.5 + ((k + a) * 37 % 499) / 1000.0 + (k + a) * 1e-7})
        frames.append({"idx": f, "video": 0, "gt": gts, "pr": prs, "has_pr_frame": True})
        k += m
        f += 1
    return {
        "kind": "perfect", "videos": "asset", "n_nodes": 3, "frames": frames, "oks_stddev": 0.025, "oks_scale": None,
        "match_threshold": 0, "mst": [0.5, 0.75, 0.95], "pck_thr": [1.0, 5.0], "pck_extra": [2.0], "delete": [], "census": n_inst,
    }


def enum_census(tier):
    top = 160 if tier == "quick" else 1200
    for n in range(1, top + 1):
        yield census_case(n, ["one-per-frame", "four-per-frame", "mixed"][n % 3])
        if tier != "quick":
            yield census_case(n, ["one-per-frame", "four-per-frame", "mixed"][(n + 1) % 3])


def evaluate_census(case):
    res = evaluate(case)
    res.nontrivial = True
    res.classes = [f"census:n_gt={'1-9' if case['census'] < 10 else '10-99' if case['census'] < 100 else '100+'}"] + [c for c in res.classes if c.startswith("kind=")]
    return res


def parts(tier):
    return [
        Part(
            name="labels",
            evaluate=evaluate,
            strategy=strategy,
            budget={"quick": 800, "thorough": 320000},
            shards={"quick": 1, "thorough": 16},
            min_nontrivial={"quick": 150, "thorough": 8000},
        ),
        # every ground-truth instance count 1..160 (quick) / 1..1200 (thorough) with perfect predictions: exhaustive
        # over the count, which is the only quantity the normalisations divide by
        Part(
            name="instance-count-census",
            evaluate=evaluate_census,
            enumerate=enum_census,
            exhaustive={"quick": True, "thorough": True},
            shards={"quick": 1, "thorough": 16},
            min_nontrivial={"quick": 100, "thorough": 1000},
            summarize=lambda c: {"n_gt_instances": c["census"], "frames": len(c["frames"])},
        ),
    ]


if __name__ == "__main__":
    runner.main(__name__)
