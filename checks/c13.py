"""C13 - frame readers deliver each frame once, in order, and always end the stream.

The harness owns the schedule (vlib/sched.py): the repo's unmodified `VideoReader.run` /
`LabelsReader.run` execute in a real thread and the real `Predictor._predict_generator`
(of a `SingleInstancePredictor` with a pass-through inference model) consumes in the main
thread, but control only changes hands at the yield points (queue put / get, frame read,
thread start / end, join) according to a choice sequence.  Quick tier: Hypothesis-drawn
configurations and choice sequences + exhaustive DFS over *all* schedules of every
configuration with <= 2 frames; thorough: exhaustive for <= 4 frames.

Oracle (trace predicate): items put on the buffer = the requested frames, each exactly
once, in order, with their own frame_idx / video_idx / orig_size / pixel content (the pool
contains an image-sequence video whose frames differ in size: every frame carries ITS OWN
height/width, not the video-level shape), followed by exactly one end marker and nothing after it; with a read fault at k: the frames before
k, then exactly one marker.  Consumer: same frames in the same order, full batches except
the last, generator terminates, reader thread finished, queue empty, no deadlock.
"""

import itertools
import os
import threading

from vlib import env, runner, sched
from vlib.runner import Part, Result

PROPERTY = "C13"
LEVEL = "exploration"
RULE = (
    "a case is a reader configuration (VideoReader range over a uniform-size video or over a mixed-size image "
    "sequence whose frames cycle through 3 sizes (first image not the largest) / LabelsReader frame list over "
    "1-3 such videos of different size, queue capacity, batch size, optional read fault at frame k raising Exception or a "
    "BaseException subclass) plus either an explicit choice sequence (sampled part) or the instruction to "
    "enumerate every schedule by DFS over the choice points (exhaustive parts; each schedule is one "
    "evaluation); non-trivial = the schedule(s) contain a put that blocked on a full queue and a get that "
    "blocked on an empty queue, or a fault; distinct by serialised case"
)
ASSUMPTIONS = [
    "pre-emption is modelled at the queue/read/start/join yield points only; atomicity of queue.Queue and CPython internals is trusted",
    "liveness is bounded: 'terminates under every schedule of the explored size' (deadlock = no runnable thread)",
    "frames come from real PNG-backed sio.Video objects whose backend get_frame is wrapped (harness subclass) to add the yield point and the fault",
    "max_height/max_width of the consumer are set to the maximum over the videos, as a training config records them",
    "a mixed-size video is an image sequence (list of PNG files of different sizes): sleap-io returns each image at its own "
    "size and the predictor batches them through the size matcher; max_height/max_width are then the maximum over its frames",
]

N_SRC = 6  # frames per source video
SIZES = [(8, 12), (10, 6)]  # (H, W) of the uniform-size videos 0 / 1
MIXED = 2  # pool video 2: an image sequence whose frames differ in size
MIX_SIZES = [(6, 10), (9, 7), (4, 14)]  # frame i of video 2 has MIX_SIZES[i % 3]; the FIRST image (= video.shape) is not the largest
N_VID = 3
OS_ASSET_HW = (384, 384)  # frame size of the two repo test assets used by the os-threads part
_POOL = {}


def _frame_hw(v, i):
    """Own (H, W) of frame i of pool video v - harness-side ground truth (the PNGs are written from it)."""
    return MIX_SIZES[i % len(MIX_SIZES)] if v == MIXED else SIZES[v]


def _video_max_hw(v):
    return max(_frame_hw(v, i)[0] for i in range(N_SRC)), max(_frame_hw(v, i)[1] for i in range(N_SRC))


class _SimKill(BaseException):
    """A non-Exception failure inside the reader thread."""


def _pool():
    """PNG-backed videos, created once per process."""
    if _POOL:
        return _POOL
    import imageio.v3 as iio
    import numpy as np

    d = env.scratch_dir("c13")
    paths = []
    for v in range(N_VID):
        ps = []
        for i in range(N_SRC):
            h, w = _frame_hw(v, i)
            arr = np.full((h, w), 40 * v + i + 1, dtype=np.uint8)
            p = os.path.join(d, f"v{v}_{i:02d}.png")
            iio.imwrite(p, arr)
            ps.append(p)
        paths.append(ps)
    _POOL["paths"] = paths
    # the same videos embedded in ONE .pkg.slp: all sio.Video objects then share their filename
    # (they differ only by HDF5 dataset), as every multi-video package file does
    import sleap_io as sio

    try:
        sio.set_default_image_plugin("imageio")
    except Exception:  # noqa: BLE001
        pass
    vids = [sio.Video.from_filename(ps) for ps in paths]
    skel = sio.Skeleton(["a"])
    lfs = [
        sio.LabeledFrame(video=vids[v], frame_idx=i, instances=[sio.Instance.from_numpy(np.array([[1.0, 2.0]]), skeleton=skel)])
        for v in range(len(vids)) for i in range(N_SRC)
    ]
    pkg = os.path.join(d, "two_videos.pkg.slp")
    sio.Labels(labeled_frames=lfs, videos=vids, skeletons=[skel]).save(pkg, embed="all")
    _POOL["pkg"] = pkg
    return _POOL


def _make_video(v, hook):
    import sleap_io as sio

    return _hook_video(sio.Video.from_filename(_pool()["paths"][v]), v, hook)


def _embedded_videos(hook):
    """Fresh Video objects of the multi-video package file (same filename, different datasets), hooked."""
    import sleap_io as sio

    vids = sio.load_slp(_pool()["pkg"]).videos
    for vid in vids:
        if vid.backend is None:
            vid.open()
    return [_hook_video(vid, v, hook) for v, vid in enumerate(vids)]


def _hook_video(vid, v, hook):
    base_cls = type(vid.backend)

    class Hooked(base_cls):  # harness-side subclass: yield point + fault injection
        def get_frame(self, frame_idx):
            hook(v, int(frame_idx))
            return super().get_frame(frame_idx)

    hb = Hooked.__new__(Hooked)
    for slot in itertools.chain.from_iterable(getattr(c, "__slots__", ()) for c in base_cls.__mro__):
        if slot in ("__weakref__", "__dict__"):
            continue
        try:
            object.__setattr__(hb, slot, getattr(vid.backend, slot))
        except AttributeError:
            pass
    if hasattr(vid.backend, "__dict__"):
        hb.__dict__.update(vid.backend.__dict__)
    vid.backend = hb
    return vid


def run_schedule(cfg, choices):
    """One execution under the scheduler. Returns (failures, facts, taken)."""
    import numpy as np
    import sleap_io as sio
    import torch
    from sleap_nn.data.providers import LabelsReader, VideoReader
    from sleap_nn.inference.predictors import SingleInstancePredictor

    S = sched.Scheduler(choices)
    S.register_current("consumer")
    fault = cfg.get("fault")
    read_pos = {"n": 0}

    def hook(v, idx):
        S.switch("read")
        pos = read_pos["n"]
        read_pos["n"] += 1
        if fault is not None:
            at = fault["at"]
            hit = (idx == at) if cfg["reader"] == "video" else (pos == at)
            if hit:
                if fault["kind"] == "exception":
                    raise OSError("injected read failure")
                raise _SimKill("injected kill")

    fails = []
    q = sched.SchedQueue(S, maxsize=cfg["cap"])
    if cfg["reader"] == "video":
        vsrc = cfg.get("vid", 0)  # pool video read by the VideoReader (2 = mixed-size image sequence)
        vid = _make_video(vsrc, hook)
        base = VideoReader
        # a requested range reaching beyond the video is a natural read failure at index N_SRC
        expected = list(range(cfg["start"] if cfg["start"] is not None else 0, min(N_SRC, cfg["end"] if cfg["end"] is not None else N_SRC)))
        exp_items = [(0, i) for i in expected]
        if fault is not None and fault["at"] in expected:
            exp_items = exp_items[: expected.index(fault["at"])]
        exp_src = [vsrc] * len(exp_items)
        max_hw = _video_max_hw(vsrc)
    else:
        used = sorted({v for v, _ in cfg["frames"]})
        vids = _embedded_videos(hook) if cfg.get("embedded") else {v: _make_video(v, hook) for v in used}
        videos = [vids[v] for v in used]
        skel = sio.Skeleton(["a"])
        lfs = [
            sio.LabeledFrame(video=vids[v], frame_idx=i, instances=[sio.Instance.from_numpy(np.array([[1.0, 2.0]]), skeleton=skel)])
            for v, i in cfg["frames"]
        ]
        labels = sio.Labels(labeled_frames=lfs, videos=videos, skeletons=[skel])
        base = LabelsReader
        exp_items = [(used.index(v), i) for v, i in cfg["frames"]]
        exp_src = [v for v, _ in cfg["frames"]]
        if fault is not None and fault["at"] < len(exp_items):
            exp_items = exp_items[: fault["at"]]
        max_hw = (max(_video_max_hw(v)[0] for v in used), max(_video_max_hw(v)[1] for v in used)) if used else SIZES[0]

    class Reader(base):  # only wraps run/start/join with scheduler notifications
        def run(self):
            S.thread_begin("producer")
            try:
                super().run()
            except BaseException as e:  # noqa: BLE001  (a dying thread; recorded, not judged here)
                self._died = type(e).__name__
            finally:
                S.thread_end()

        def start(self):
            super().start()
            S.wait_registered("producer")

        def join(self, timeout=None):
            r = S.switch("join", lambda: S.is_done("producer"), timed=timeout is not None)
            if r != "timeout":
                super().join(timeout=30)

        def is_alive(self):
            # a liveness query is a yield point; the answer is the LOGICAL state (the OS thread may linger)
            if threading.get_ident() in S.by_ident and not S.deadlock:
                S.switch("is_alive?")
                return "producer" in S.threads and not S.is_done("producer")
            return super().is_alive()

    if cfg["reader"] == "video":
        reader = Reader(vid, q, cfg["start"], cfg["end"])
    else:
        reader = Reader(labels, q, False)

    pred = SingleInstancePredictor()
    pred.inference_model = lambda ex: [
        {
            "frame_idx": ex["frame_idx"],
            "video_idx": ex["video_idx"],
            "orig_size": ex["orig_size"],
            "pix": ex["image"].reshape(ex["image"].shape[0], -1)[:, 0] * 255.0,
        }
    ]
    pred.pipeline = reader
    pred.preprocess = False
    pred.instances_key = False
    pred.preprocess_config = {
        "batch_size": cfg["batch"],
        "max_height": max_hw[0],
        "max_width": max_hw[1],
        "is_rgb": False,
        "scale": 1.0,
        "max_stride": 1,
    }
    records = []
    consumer_exc = None
    try:
        for out in pred._predict_generator():
            records.append(out)
    except sched.Deadlock:
        fails.append(("deadlock", f"no runnable thread: events tail {S.events[-8:]}"))
    except sched.StepLimit:
        fails.append(("step-limit", "more than 5000 scheduling steps: consumer/producer do not terminate"))
    except Exception as e:  # noqa: BLE001
        b = runner.exc_bucket("consumer", e)
        if b is None:
            raise
        consumer_exc = e
        fails.append((b, f"{type(e).__name__}: {str(e)[:200]}"))
    finally:
        # make sure no thread outlives the case
        with S.cv:
            if threading.Thread.is_alive(reader) and not S.is_done("producer"):
                S.deadlock = True
                S.cv.notify_all()
        if reader.ident is not None:
            threading.Thread.join(reader, timeout=10)

    facts = {"blocked_put": S.blocked_put, "blocked_get": S.blocked_get, "steps": S.steps}
    if S.deadlock and not fails:
        fails.append(("deadlock", f"scheduler stopped: events tail {S.events[-8:]}"))
    if fails:
        return fails, facts, S.taken

    # ---- oracle on the producer trace
    puts = q.put_log
    markers = [i for i, it in enumerate(puts) if it["image"] is None]
    if len(markers) != 1:
        fails.append(("producer:marker-count", f"{len(markers)} end markers put (expected exactly 1); {len(puts)} items"))
    elif markers[0] != len(puts) - 1:
        fails.append(("producer:item-after-marker", f"marker at position {markers[0]} of {len(puts)}"))
    frames_put = [it for it in puts if it["image"] is not None]
    got = [(int(it["video_idx"]), int(it["frame_idx"])) for it in frames_put]
    if got != exp_items:
        fails.append(("producer:frames", f"put (video,frame) {got}, expected {exp_items}"))
    else:
        for k, it in enumerate(frames_put):
            src_v = exp_src[k]
            h, w = _frame_hw(src_v, exp_items[k][1])  # the frame's OWN size
            if [int(x) for x in it["orig_size"]] != [h, w]:
                fails.append((
                    "producer:orig-size" + (":mixed-size-video" if src_v == MIXED else ""),
                    f"item {k} (pool video {src_v} frame {exp_items[k][1]}): orig_size {it['orig_size'].tolist()} expected the frame's own size {[h, w]}",
                ))
            if tuple(it["image"].shape) != (1, 1, h, w) or int(it["image"].flatten()[0]) != 40 * src_v + exp_items[k][1] + 1:
                fails.append(("producer:content", f"item {k}: image shape {tuple(it['image'].shape)} / pixel {int(it['image'].flatten()[0])}"))
    # ---- oracle on the consumer
    rec_items = []
    for r in records:
        n = len(r["frame_idx"])
        if n > cfg["batch"] or n == 0:
            fails.append(("consumer:batch-size", f"batch of {n} records with batch_size {cfg['batch']}"))
        for j in range(n):
            rec_items.append((int(r["video_idx"][j]), int(r["frame_idx"][j]), float(r["pix"][j]), [int(x) for x in r["orig_size"][j]]))
    if [(a, b) for a, b, _, _ in rec_items] != exp_items:
        fails.append(("consumer:frames", f"records {[(a, b) for a, b, _, _ in rec_items]}, expected {exp_items}"))
    else:
        for k, (a, b, pix, osz) in enumerate(rec_items):
            src_v = exp_src[k]
            own = list(_frame_hw(src_v, b))
            # pixel tolerance: the (constant) image went through /255, resize+pad of the size matcher and *255 in float32
            if abs(pix - (40 * src_v + b + 1)) > 0.51 or osz != own:
                fails.append((
                    "consumer:record-mismatch" + (":mixed-size-video" if src_v == MIXED and osz != own else ""),
                    f"record {k}: pixel {pix}, orig_size {osz} for pool video {src_v} frame {b} (own size {own})",
                ))
    if threading.Thread.is_alive(reader):
        fails.append(("reader-alive", "reader thread still alive after the generator finished"))
    if not q._empty():
        fails.append(("queue-not-empty", f"{len(q.queue)} items left in the buffer"))
    return fails, facts, S.taken


def evaluate(case):
    res = Result()
    cfg = case["cfg"]
    if cfg["reader"] == "video" and cfg.get("end") is not None and cfg["end"] > N_SRC:
        res.cls("range-beyond-video")
    if cfg.get("embedded"):
        res.cls("labels:embedded-package(shared filename)")
    deliv = _delivered(cfg)
    if any(v == MIXED for v, _ in _requested(cfg)):
        # the video-level shape (first image) is NOT the size of every frame
        res.cls(f"mixed-size-video:{cfg['reader']}")
        n_other = sum(1 for v, i in deliv if v == MIXED and _frame_hw(v, i) != MIX_SIZES[0])
        res.cls("mixed-size-video:delivers-frame-of-non-first-size" if n_other else "mixed-size-video:only-first-size-delivered")
        if len({_frame_hw(v, i) for v, i in deliv}) >= 2:
            res.cls(f"mixed-size-video:{cfg['reader']}:>=2-distinct-sizes-delivered")
    res.cls(
        f"reader={cfg['reader']}", f"cap={cfg['cap']}", f"batch={cfg['batch']}",
        "fault=" + (cfg["fault"]["kind"] if cfg.get("fault") else "none"),
    )
    stats = {"n": 0, "nontriv": 0}

    def judge(choices):
        fails, facts, taken = run_schedule(cfg, choices)
        stats["n"] += 1
        beyond = cfg["reader"] == "video" and cfg.get("end") is not None and cfg["end"] > N_SRC
        if (facts["blocked_put"] > 0 and facts["blocked_get"] > 0) or cfg.get("fault") or beyond:
            stats["nontriv"] += 1
        for b, m in fails:
            res.fail(b, f"{m} | cfg={cfg} choices={list(choices)}")
        return taken

    if case.get("exhaustive"):
        n, complete = sched.explore_all(judge, max_runs=case.get("max_runs", 20000))
        res.cls("schedules:exhaustive" if complete else "schedules:truncated")
        if not complete:
            res.fail_truncated = True
    else:
        judge(case["choices"])
    res.n_evals = stats["n"]
    res.nontrivial = stats["nontriv"] > 0
    res.cls(f"frames={_n_frames(cfg)}")
    return res


def _requested(cfg):
    """(pool video, frame index) of every requested frame that exists, in request order."""
    if cfg["reader"] == "video":
        s = cfg["start"] if cfg["start"] is not None else 0
        e = cfg["end"] if cfg["end"] is not None else N_SRC
        return [(cfg.get("vid", 0), i) for i in range(s, min(e, N_SRC))]
    return [(v, i) for v, i in cfg["frames"]]


def _delivered(cfg):
    """The requested frames that precede the injected fault (class labels only; the oracle derives its own list)."""
    req = _requested(cfg)
    f = cfg.get("fault")
    if f is None:
        return req
    if cfg["reader"] == "video":
        idx = [i for _, i in req]
        return req[: idx.index(f["at"])] if f["at"] in idx else req
    return req[: f["at"]]


def _n_frames(cfg):
    if cfg["reader"] == "video":
        s = cfg["start"] if cfg["start"] is not None else 0
        e = cfg["end"] if cfg["end"] is not None else N_SRC
        return max(0, e - s)
    return len(cfg["frames"])


def config_space(max_frames, caps, batches):
    """All configurations with at most max_frames frames (finite, enumerated)."""
    out = []
    for cap in caps:
        for batch in batches:
            # VideoReader ranges
            for n in range(0, max_frames + 1):
                for start in (0, 2):
                    end = start + n
                    if end > N_SRC:
                        continue
                    faults = [None]
                    for k in range(start, end):
                        faults += [{"at": k, "kind": "exception"}, {"at": k, "kind": "base"}]
                    for f in faults:
                        out.append({"reader": "video", "start": start, "end": end, "cap": cap, "batch": batch, "fault": f})
                # the same ranges over the mixed-size image sequence (start 1: the first frame delivered does not have
                # the first image's size); the schedule x fault space is the one above, so only no-fault and a fault
                # at the last frame are repeated
                if n >= 1:
                    start, end = 1, 1 + n
                    for f in (None, {"at": end - 1, "kind": "exception"}):
                        out.append({"reader": "video", "vid": MIXED, "start": start, "end": end, "cap": cap, "batch": batch, "fault": f})
            # LabelsReader: frames over one or two videos
            for n in range(0, max_frames + 1):
                for layout in ("one", "two"):
                    if layout == "two" and n < 2:
                        continue
                    frames = [[0, 1 + i] for i in range(n)] if layout == "one" else [[i % 2, 1 + i] for i in range(n)]  # indices < N_SRC
                    faults = [None] + [{"at": k, "kind": kind} for k in range(n) for kind in ("exception", "base")]
                    for f in faults:
                        out.append({"reader": "labels", "frames": frames, "cap": cap, "batch": batch, "fault": f})
                    if layout == "two" and cap in (1, 2) and batch in (1, 2):
                        out.append({"reader": "labels", "frames": frames, "cap": cap, "batch": batch, "fault": None, "embedded": True})
                # labeled frames of the mixed-size video (alone for n <= 1, else alternating with video 0)
                if n >= 1:
                    frames = [[MIXED, 1 + i // 2] if i % 2 == 0 else [0, 1 + i] for i in range(n)]
                    for f in (None, {"at": n - 1, "kind": "exception"}):
                        out.append({"reader": "labels", "frames": frames, "cap": cap, "batch": batch, "fault": f})
    return out


def enum_cases(tier):
    if tier == "quick":
        cfgs = config_space(2, caps=[1, 2, 0], batches=[1, 2, 3])
        cfgs += [c for c in config_space(3, caps=[1, 2], batches=[2]) if _n_frames(c) == 3]
    else:
        cfgs = config_space(4, caps=[1, 2, 3, 4, 0], batches=[1, 2, 3, 4])
        # (the mixed-size variants stop at 4 frames: their schedule space is the one of the uniform configurations,
        # repeating the 5-frame layer for them would add ~40 % to the part for no new interleaving)
        cfgs += [c for c in config_space(5, caps=[1, 2, 0], batches=[2, 4]) if _n_frames(c) == 5 and not any(v == MIXED for v, _ in _requested(c))]
    for c in cfgs:
        yield {"cfg": c, "exhaustive": True, "max_runs": 200000}


def strategy():
    from hypothesis import strategies as st

    @st.composite
    def case(draw):
        # one joint choice: reader x source (VideoReader over the uniform video 0 / the mixed-size sequence;
        # LabelsReader over frames of the uniform videos only / of all three pool videos)
        reader, src = draw(st.sampled_from([("video", 0), ("video", MIXED), ("labels", "uniform"), ("labels", "all"), ("labels", "all")]))
        cap = draw(st.sampled_from([1, 1, 2, 3, 4, 0]))
        batch = draw(st.integers(1, 4))
        if reader == "video":
            if draw(st.integers(0, 5)) == 0:
                start, end = None, None
            else:
                start = draw(st.integers(0, N_SRC))
                end = draw(st.integers(start, N_SRC + 2))  # may reach beyond the video: reading index N_SRC fails
            cfg = {"reader": "video", "start": start, "end": end, "cap": cap, "batch": batch}
            if src != 0:
                cfg["vid"] = src
            s, e = (0 if start is None else start), (N_SRC if end is None else end)
            idxs = list(range(s, min(e, N_SRC)))
        else:
            n = draw(st.integers(0, 6))
            frames = sorted(
                draw(st.lists(st.tuples(st.integers(0, 1 if src == "uniform" else N_VID - 1), st.integers(0, N_SRC - 1)), min_size=n, max_size=n, unique=True))
            )
            if draw(st.booleans()):
                frames = list(draw(st.permutations(frames)))
            cfg = {"reader": "labels", "frames": [list(f) for f in frames], "cap": cap, "batch": batch}
            if draw(st.integers(0, 2)) == 0:
                cfg["embedded"] = True  # videos of one package file share their filename
            idxs = list(range(len(frames)))
        fault = None
        if idxs and draw(st.integers(0, 2)) == 0:
            fault = {"at": draw(st.sampled_from(idxs)), "kind": draw(st.sampled_from(["exception", "base"]))}
        cfg["fault"] = fault
        choices = draw(st.lists(st.integers(0, 2), max_size=40))
        return {"cfg": cfg, "choices": choices}

    return case()


def evaluate_os(case):
    """Smoke layer: un-instrumented path (from_filename, real Queue, OS scheduling); sources: the repo's mp4 / package
    assets and the pool's mixed-size image sequence (list of PNGs) / three-video package; every record's orig_size is checked."""
    import torch
    from sleap_nn.data.providers import LabelsReader, VideoReader
    from sleap_nn.inference.predictors import SingleInstancePredictor

    res = Result()
    res.cls(f"os:reader={case['reader']}", f"os:cap={case['cap']}")
    if case["reader"] == "video":
        reader = VideoReader.from_filename("/repo/tests/assets/centered_pair_small.mp4", case["cap"], case["start"], case["end"])
        expected = [(0, i) for i in range(case["start"], case["end"])]
        exp_hw = [OS_ASSET_HW] * len(expected)
        hw = reader.max_height_and_width
    elif case["reader"] == "video-mixed":
        # image sequence with frames of different sizes, given as a list of files (a range beyond it ends at the read failure)
        res.cls("os:mixed-size-video:video")
        reader = VideoReader.from_filename(list(_pool()["paths"][MIXED]), case["cap"], case["start"], case["end"])
        expected = [(0, i) for i in range(case["start"], min(case["end"], N_SRC))]
        exp_hw = [_frame_hw(MIXED, i) for _, i in expected]
        hw = _video_max_hw(MIXED)
    elif case["reader"] == "labels-pool":
        # the pool's package file: three videos (one of mixed frame sizes), every frame labeled, in file order
        res.cls("os:mixed-size-video:labels")
        reader = LabelsReader.from_filename(_pool()["pkg"], case["cap"])
        expected = [(v, i) for v in range(N_VID) for i in range(N_SRC)]
        exp_hw = [_frame_hw(v, i) for v, i in expected]
        hw = (max(_video_max_hw(v)[0] for v in range(N_VID)), max(_video_max_hw(v)[1] for v in range(N_VID)))
    else:
        reader = LabelsReader.from_filename("/repo/tests/assets/minimal_instance.pkg.slp", case["cap"])
        expected = [(reader.labels.videos.index(lf.video), lf.frame_idx) for lf in reader.labels]
        exp_hw = [OS_ASSET_HW] * len(expected)
        hw = reader.max_height_and_width
    pred = SingleInstancePredictor()
    pred.inference_model = lambda ex: [{"frame_idx": ex["frame_idx"], "video_idx": ex["video_idx"], "orig_size": ex["orig_size"]}]
    pred.pipeline = reader
    pred.preprocess = False
    pred.instances_key = False
    pred.preprocess_config = {"batch_size": case["batch"], "max_height": hw[0], "max_width": hw[1], "is_rgb": False, "scale": 1.0, "max_stride": 1}
    out = {}

    def consume():
        try:
            out["records"] = list(pred._predict_generator())
        except Exception as e:  # noqa: BLE001
            out["exc"] = e

    th = threading.Thread(target=consume, daemon=True)
    th.start()
    th.join(timeout=300)
    if th.is_alive():
        # a time budget hit is inconclusive, never a violation
        res.rejected = True
        res.cls("os:timeout-inconclusive")
        return res
    if "exc" in out:
        b = runner.exc_bucket("os-threads", out["exc"])
        if b is None:
            raise out["exc"]
        res.fail(b, str(out["exc"])[:200])
        return res
    got = [(int(v), int(f)) for r in out["records"] for v, f in zip(r["video_idx"], r["frame_idx"])]
    if got != expected:
        res.fail("os-threads:frames", f"records {got} expected {expected} ({case})")
    else:
        got_hw = [tuple(int(x) for x in sz) for r in out["records"] for sz in r["orig_size"]]
        bad = [k for k in range(len(expected)) if got_hw[k] != tuple(exp_hw[k])]
        if bad:
            mixed = case["reader"] in ("video-mixed", "labels-pool")
            k = bad[0]
            res.fail(
                "os-threads:orig-size" + (":mixed-size-video" if mixed else ""),
                f"{len(bad)} records with a wrong orig_size, first: frame {expected[k]} carries {got_hw[k]}, its own size is {tuple(exp_hw[k])} ({case})",
            )
    if any(len(r["frame_idx"]) > case["batch"] for r in out["records"]):
        res.fail("os-threads:batch-size", f"batch larger than {case['batch']}")
    if reader.is_alive():
        res.fail("os-threads:reader-alive", "reader thread alive after the generator finished")
    if not reader.frame_buffer.empty():
        res.fail("os-threads:queue-not-empty", "items left in the buffer")
    res.nontrivial = len(expected) > case["cap"] > 0
    return res


def strategy_os():
    from hypothesis import strategies as st

    @st.composite
    def case(draw):
        reader = draw(st.sampled_from(["video", "video", "labels", "video-mixed", "video-mixed", "labels-pool"]))
        start = draw(st.integers(0, 6))
        return {
            "reader": reader,
            "cap": draw(st.integers(1, 4)),
            "batch": draw(st.integers(1, 4)),
            "start": start,
            "end": draw(st.integers(start, start + 7)),
        }

    return case()


def _setup():
    threading.excepthook = lambda args: None  # dying reader threads are recorded, not printed
    _pool()


def parts(tier):
    return [
        Part(
            name="all-schedules",
            evaluate=evaluate,
            enumerate=enum_cases,
            shards={"quick": 1, "thorough": 16},
            exhaustive={"quick": True, "thorough": True},
            min_nontrivial={"quick": 50, "thorough": 200},
            setup=_setup,
        ),
        Part(
            name="sampled",
            evaluate=evaluate,
            strategy=strategy,
            budget={"quick": 1500, "thorough": 40000},
            min_nontrivial={"quick": 200, "thorough": 5000},
            setup=_setup,
        ),
        Part(
            name="os-threads",
            evaluate=evaluate_os,
            strategy=strategy_os,
            budget={"quick": 60, "thorough": 1600},
            min_nontrivial={"quick": 2, "thorough": 100},
            setup=_setup,
        ),
    ]


def extra_coverage():
    return {
        "exhaustive_domain": "every schedule (DFS over all choice points) of every configuration with <= 2 frames (quick: capacities {1,2,unbounded} x batch 1..3; "
        "plus 3 frames for capacities {1,2}, batch 2) / <= 4 frames (thorough: capacities {1..4,unbounded} x batch 1..4; plus 5 frames for capacities {1,2,unbounded}, batch {2,4}), "
        "both readers, every fault position and kind; plus the same ranges / frame lists over the mixed-size image sequence "
        "(VideoReader from frame 1; LabelsReader alternating mixed video / video 0; quick <= 3 frames, thorough <= 4 frames) without fault and with a fault at the last frame",
        "evaluations_are": "scheduler executions (one per schedule)",
    }


if __name__ == "__main__":
    runner.main(__name__)
