"""C13 - frame readers deliver each frame once, in order, and always end the stream.

The harness owns the schedule (vlib/sched.py): the repo's unmodified `VideoReader.run` /
`LabelsReader.run` execute in a real thread and the real `Predictor._predict_generator`
(of a `SingleInstancePredictor` with a pass-through inference model) consumes in the main
thread, but control only changes hands at the yield points (queue put / get, frame read,
thread start / end, join) according to a choice sequence.  Quick tier: Hypothesis-drawn
configurations and choice sequences + exhaustive DFS over *all* schedules of every
configuration with <= 2 frames; thorough: exhaustive for <= 4 frames.

Oracle (trace predicate): items put on the buffer = the requested frames, each exactly
once, in order, with their own frame_idx / video_idx / orig_size / pixel content (the pool
contains an image-sequence video whose frames differ in size: every frame carries ITS OWN
height/width, not the video-level shape), followed by exactly one end marker and nothing after it; with a read fault at k: the frames before
k, then exactly one marker.  Consumer: same frames in the same order, full batches except
the last, generator terminates, reader thread finished, queue empty, no deadlock.

History class `history=abandoned-then-complete` (sampled + os-threads parts): before the judged run, the same process
performs a run 1 with its own new reader / queue / consumer whose consumer takes k >= 1 batches from
`_predict_generator` and then closes (or drops) the generator before it has seen the end marker; run 1's buffer has room
for all its items, so its reader can end on its own.  Run 1 is judged only for "abandoning raises nothing, no deadlock,
reader thread ends"; run 2 (all new objects) must satisfy every clause above - "every frame of the requested range" holds
for every run of a process, not only the first.
"""

import itertools
import os
import threading

from vlib import env, runner, sched
from vlib.runner import Part, Result

PROPERTY = "C13"
LEVEL = "exploration"
RULE = (
    "a case is a reader configuration (VideoReader range over a uniform-size video or over a mixed-size image "
    "sequence whose frames cycle through 3 sizes (first image not the largest) / LabelsReader frame list over "
    "1-3 such videos of different size, queue capacity, batch size, optional read fault at frame k raising Exception or a "
    "BaseException subclass) plus either an explicit choice sequence (sampled part) or the instruction to "
    "enumerate every schedule by DFS over the choice points (exhaustive parts; each schedule is one "
    "evaluation); non-trivial = the schedule(s) contain a put that blocked on a full queue and a get that "
    "blocked on an empty queue, or a fault; optionally (sampled and os-threads parts) a two-run history: first a run with "
    "its own reader/consumer that is abandoned after k >= 1 batches (generator closed or dropped, buffer large enough for the "
    "reader to end), then the case itself as a complete run 2 that is judged in full (non-trivial when run 2 has >= 1 frame); "
    "distinct by serialised case"
)
ASSUMPTIONS = [
    "pre-emption is modelled at the queue/read/start/join yield points only; atomicity of queue.Queue and CPython internals is trusted",
    "liveness is bounded: 'terminates under every schedule of the explored size' (deadlock = no runnable thread)",
    "frames come from real PNG-backed sio.Video objects whose backend get_frame is wrapped (harness subclass) to add the yield point and the fault",
    "max_height/max_width of the consumer are set to the maximum over the videos, as a training config records them",
    "a mixed-size video is an image sequence (list of PNG files of different sizes): sleap-io returns each image at its own "
    "size and the predictor batches them through the size matcher; max_height/max_width are then the maximum over its frames",
    "histories: only 'abandoned with room in the buffer for every remaining item' is generated (capacity >= frames + 1 or unbounded); "
    "what happens to a reader abandoned on a full buffer is not part of the property; 'dropping' the generator relies on CPython "
    "finalising a suspended generator as soon as its last reference goes away",
    "the harness keeps no mutable module/class-level state between cases (the PNG pool is written once and only read), so a case "
    "behaves the same whatever ran before it in the process on the unchanged tree",
]

N_SRC = 6  # frames per source video
SIZES = [(8, 12), (10, 6)]  # (H, W) of the uniform-size videos 0 / 1
MIXED = 2  # pool video 2: an image sequence whose frames differ in size
MIX_SIZES = [(6, 10), (9, 7), (4, 14)]  # frame i of video 2 has MIX_SIZES[i % 3]; the FIRST image (= video.shape) is not the largest
N_VID = 3
HISTORY = "abandoned-then-complete"  # run 1 is abandoned by its consumer, run 2 (new reader + consumer) is complete
OS_ASSET_HW = (384, 384)  # frame size of the two repo test assets used by the os-threads part
_POOL = {}


def _frame_hw(v, i):
    """Own (H, W) of frame i of pool video v - harness-side ground truth (the PNGs are written from it)."""
    return MIX_SIZES[i % len(MIX_SIZES)] if v == MIXED else SIZES[v]


def _video_max_hw(v):
    return max(_frame_hw(v, i)[0] for i in range(N_SRC)), max(_frame_hw(v, i)[1] for i in range(N_SRC))


class _SimKill(BaseException):
    """A non-Exception failure inside the reader thread."""


def _pool():
    """PNG-backed videos, created once per process."""
    if _POOL:
        return _POOL
    import imageio.v3 as iio
    import numpy as np

    d = env.scratch_dir("c13")
    paths = []
    for v in range(N_VID):
        ps = []
        for i in range(N_SRC):
            h, w = _frame_hw(v, i)
            arr = np.full((h, w), 40 * v + i + 1, dtype=np.uint8)
            p = os.path.join(d, f"v{v}_{i:02d}.png")
            iio.imwrite(p, arr)
            ps.append(p)
        paths.append(ps)
    _POOL["paths"] = paths
    # the same videos embedded in ONE .pkg.slp: all sio.Video objects then share their filename
    # (they differ only by HDF5 dataset), as every multi-video package file does
    import sleap_io as sio

    try:
        sio.set_default_image_plugin("imageio")
    except Exception:  # noqa: BLE001
        pass
    vids = [sio.Video.from_filename(ps) for ps in paths]
    skel = sio.Skeleton(["a"])
    lfs = [
        sio.LabeledFrame(video=vids[v], frame_idx=i, instances=[sio.Instance.from_numpy(np.array([[1.0, 2.0]]), skeleton=skel)])
        for v in range(len(vids)) for i in range(N_SRC)
    ]
    pkg = os.path.join(d, "two_videos.pkg.slp")
    sio.Labels(labeled_frames=lfs, videos=vids, skeletons=[skel]).save(pkg, embed="all")
    _POOL["pkg"] = pkg
    return _POOL


def _make_video(v, hook):
    import sleap_io as sio

    return _hook_video(sio.Video.from_filename(_pool()["paths"][v]), v, hook)


def _embedded_videos(hook):
    """Fresh Video objects of the multi-video package file (same filename, different datasets), hooked."""
    import sleap_io as sio

    vids = sio.load_slp(_pool()["pkg"]).videos
    for vid in vids:
        if vid.backend is None:
            vid.open()
    return [_hook_video(vid, v, hook) for v, vid in enumerate(vids)]


def _hook_video(vid, v, hook):
    base_cls = type(vid.backend)

    class Hooked(base_cls):  # harness-side subclass: yield point + fault injection
        def get_frame(self, frame_idx):
            hook(v, int(frame_idx))
            return super().get_frame(frame_idx)

    hb = Hooked.__new__(Hooked)
    for slot in itertools.chain.from_iterable(getattr(c, "__slots__", ()) for c in base_cls.__mro__):
        if slot in ("__weakref__", "__dict__"):
            continue
        try:
            object.__setattr__(hb, slot, getattr(vid.backend, slot))
        except AttributeError:
            pass
    if hasattr(vid.backend, "__dict__"):
        hb.__dict__.update(vid.backend.__dict__)
    vid.backend = hb
    return vid


def run_schedule(cfg, choices):
    """One execution under the scheduler. Returns (failures, facts, taken)."""
    import numpy as np
    import sleap_io as sio
    import torch
    from sleap_nn.data.providers import LabelsReader, VideoReader
    from sleap_nn.inference.predictors import SingleInstancePredictor

    S = sched.Scheduler(choices)
    S.register_current("consumer")
    fault = cfg.get("fault")
    read_pos = {"n": 0}

    def hook(v, idx):
        S.switch("read")
        pos = read_pos["n"]
        read_pos["n"] += 1
        if fault is not None:
            at = fault["at"]
            hit = (idx == at) if cfg["reader"] == "video" else (pos == at)
            if hit:
                if fault["kind"] == "exception":
                    raise OSError("injected read failure")
                raise _SimKill("injected kill")

    fails = []
    q = sched.SchedQueue(S, maxsize=cfg["cap"])
    if cfg["reader"] == "video":
        vsrc = cfg.get("vid", 0)  # pool video read by the VideoReader (2 = mixed-size image sequence)
        vid = _make_video(vsrc, hook)
        base = VideoReader
        # a requested range reaching beyond the video is a natural read failure at index N_SRC
        expected = list(range(cfg["start"] if cfg["start"] is not None else 0, min(N_SRC, cfg["end"] if cfg["end"] is not None else N_SRC)))
        exp_items = [(0, i) for i in expected]
        if fault is not None and fault["at"] in expected:
            exp_items = exp_items[: expected.index(fault["at"])]
        exp_src = [vsrc] * len(exp_items)
        max_hw = _video_max_hw(vsrc)
    else:
        used = sorted({v for v, _ in cfg["frames"]})
        vids = _embedded_videos(hook) if cfg.get("embedded") else {v: _make_video(v, hook) for v in used}
        videos = [vids[v] for v in used]
        skel = sio.Skeleton(["a"])
        lfs = [
            sio.LabeledFrame(video=vids[v], frame_idx=i, instances=[sio.Instance.from_numpy(np.array([[1.0, 2.0]]), skeleton=skel)])
            for v, i in cfg["frames"]
        ]
        labels = sio.Labels(labeled_frames=lfs, videos=videos, skeletons=[skel])
        base = LabelsReader
        exp_items = [(used.index(v), i) for v, i in cfg["frames"]]
        exp_src = [v for v, _ in cfg["frames"]]
        if fault is not None and fault["at"] < len(exp_items):
            exp_items = exp_items[: fault["at"]]
        max_hw = (max(_video_max_hw(v)[0] for v in used), max(_video_max_hw(v)[1] for v in used)) if used else SIZES[0]

    class Reader(base):  # only wraps run/start/join with scheduler notifications
        def run(self):
            S.thread_begin("producer")
            try:
                super().run()
            except BaseException as e:  # noqa: BLE001  (a dying thread; recorded, not judged here)
                self._died = type(e).__name__
            finally:
                S.thread_end()

        def start(self):
            super().start()
            S.wait_registered("producer")

        def join(self, timeout=None):
            r = S.switch("join", lambda: S.is_done("producer"), timed=timeout is not None)
            if r != "timeout":
                super().join(timeout=30)

        def is_alive(self):
            # a liveness query is a yield point; the answer is the LOGICAL state (the OS thread may linger)
            if threading.get_ident() in S.by_ident and not S.deadlock:
                S.switch("is_alive?")
                return "producer" in S.threads and not S.is_done("producer")
            return super().is_alive()

    if cfg["reader"] == "video":
        reader = Reader(vid, q, cfg["start"], cfg["end"])
    else:
        reader = Reader(labels, q, False)

    pred = SingleInstancePredictor()
    pred.inference_model = lambda ex: [
        {
            "frame_idx": ex["frame_idx"],
            "video_idx": ex["video_idx"],
            "orig_size": ex["orig_size"],
            "pix": ex["image"].reshape(ex["image"].shape[0], -1)[:, 0] * 255.0,
        }
    ]
    pred.pipeline = reader
    pred.preprocess = False
    pred.instances_key = False
    pred.preprocess_config = {
        "batch_size": cfg["batch"],
        "max_height": max_hw[0],
        "max_width": max_hw[1],
        "is_rgb": False,
        "scale": 1.0,
        "max_stride": 1,
    }
    records = []
    consumer_exc = None
    abandon = cfg.get("abandon")  # run 1 of a history: take k batches, then close / drop the generator
    try:
        if abandon is None:
            for out in pred._predict_generator():
                records.append(out)
        else:
            gen = pred._predict_generator()
            try:
                for _ in range(abandon["after"]):
                    records.append(next(gen))
            except StopIteration:
                # k * batch <= number of requested frames: up to here run 1 is a normal run and owes k full batches
                fails.append(("consumer:frames", f"generator ended after {len(records)} batches, {abandon['after']} full batches of {cfg['batch']} were due ({len(exp_items)} frames requested)"))
                gen = None
            if gen is not None and abandon["how"] == "close":
                gen.close()
            else:
                del gen  # CPython finalises the suspended generator at once (GeneratorExit at its yield)
            # the buffer has room for every remaining item, so the reader can end on its own; wait for it
            # (a scheduled join: hands the baton to the reader until it is done)
            reader.join()
    except sched.Deadlock:
        fails.append(("deadlock", f"no runnable thread: events tail {S.events[-8:]}"))
    except sched.StepLimit:
        fails.append(("step-limit", "more than 5000 scheduling steps: consumer/producer do not terminate"))
    except Exception as e:  # noqa: BLE001
        b = runner.exc_bucket("consumer", e)
        if b is None:
            raise
        consumer_exc = e
        fails.append((b, f"{type(e).__name__}: {str(e)[:200]}"))
    finally:
        # make sure no thread outlives the case
        with S.cv:
            if threading.Thread.is_alive(reader) and not S.is_done("producer"):
                S.deadlock = True
                S.cv.notify_all()
        if reader.ident is not None:
            threading.Thread.join(reader, timeout=10)

    facts = {"blocked_put": S.blocked_put, "blocked_get": S.blocked_get, "steps": S.steps}
    if S.deadlock and not fails:
        fails.append(("deadlock", f"scheduler stopped: events tail {S.events[-8:]}"))
    if fails:
        return fails, facts, S.taken
    if abandon is not None:
        # an abandoned run is judged only for: no exception, no deadlock (above) and the reader thread has ended
        if threading.Thread.is_alive(reader):
            fails.append(("reader-alive", "reader thread of the abandoned run still alive although the buffer had room for all its items"))
        return fails, facts, S.taken

    # ---- oracle on the producer trace
    puts = q.put_log
    markers = [i for i, it in enumerate(puts) if it["image"] is None]
    if len(markers) != 1:
        fails.append(("producer:marker-count", f"{len(markers)} end markers put (expected exactly 1); {len(puts)} items"))
    elif markers[0] != len(puts) - 1:
        fails.append(("producer:item-after-marker", f"marker at position {markers[0]} of {len(puts)}"))
    frames_put = [it for it in puts if it["image"] is not None]
    got = [(int(it["video_idx"]), int(it["frame_idx"])) for it in frames_put]
    if got != exp_items:
        fails.append(("producer:frames", f"put (video,frame) {got}, expected {exp_items}"))
    else:
        for k, it in enumerate(frames_put):
            src_v = exp_src[k]
            h, w = _frame_hw(src_v, exp_items[k][1])  # the frame's OWN size
            if [int(x) for x in it["orig_size"]] != [h, w]:
                fails.append((
                    "producer:orig-size" + (":mixed-size-video" if src_v == MIXED else ""),
                    f"item {k} (pool video {src_v} frame {exp_items[k][1]}): orig_size {it['orig_size'].tolist()} expected the frame's own size {[h, w]}",
                ))
            if tuple(it["image"].shape) != (1, 1, h, w) or int(it["image"].flatten()[0]) != 40 * src_v + exp_items[k][1] + 1:
                fails.append(("producer:content", f"item {k}: image shape {tuple(it['image'].shape)} / pixel {int(it['image'].flatten()[0])}"))
    # ---- oracle on the consumer
    rec_items = []
    for r in records:
        n = len(r["frame_idx"])
        if n > cfg["batch"] or n == 0:
            fails.append(("consumer:batch-size", f"batch of {n} records with batch_size {cfg['batch']}"))
        for j in range(n):
            rec_items.append((int(r["video_idx"][j]), int(r["frame_idx"][j]), float(r["pix"][j]), [int(x) for x in r["orig_size"][j]]))
    if [(a, b) for a, b, _, _ in rec_items] != exp_items:
        fails.append(("consumer:frames", f"records {[(a, b) for a, b, _, _ in rec_items]}, expected {exp_items}"))
    else:
        for k, (a, b, pix, osz) in enumerate(rec_items):
            src_v = exp_src[k]
            own = list(_frame_hw(src_v, b))
            # pixel tolerance: the (constant) image went through /255, resize+pad of the size matcher and *255 in float32
            if abs(pix - (40 * src_v + b + 1)) > 0.51 or osz != own:
                fails.append((
                    "consumer:record-mismatch" + (":mixed-size-video" if src_v == MIXED and osz != own else ""),
                    f"record {k}: pixel {pix}, orig_size {osz} for pool video {src_v} frame {b} (own size {own})",
                ))
    if threading.Thread.is_alive(reader):
        fails.append(("reader-alive", "reader thread still alive after the generator finished"))
    if not q._empty():
        fails.append(("queue-not-empty", f"{len(q.queue)} items left in the buffer"))
    return fails, facts, S.taken


def evaluate(case):
    res = Result()
    cfg = case["cfg"]
    if cfg["reader"] == "video" and cfg.get("end") is not None and cfg["end"] > N_SRC:
        res.cls("range-beyond-video")
    if cfg.get("embedded"):
        res.cls("labels:embedded-package(shared filename)")
    deliv = _delivered(cfg)
    if any(v == MIXED for v, _ in _requested(cfg)):
        # the video-level shape (first image) is NOT the size of every frame
        res.cls(f"mixed-size-video:{cfg['reader']}")
        n_other = sum(1 for v, i in deliv if v == MIXED and _frame_hw(v, i) != MIX_SIZES[0])
        res.cls("mixed-size-video:delivers-frame-of-non-first-size" if n_other else "mixed-size-video:only-first-size-delivered")
        if len({_frame_hw(v, i) for v, i in deliv}) >= 2:
            res.cls(f"mixed-size-video:{cfg['reader']}:>=2-distinct-sizes-delivered")
    res.cls(
        f"reader={cfg['reader']}", f"cap={cfg['cap']}", f"batch={cfg['batch']}",
        "fault=" + (cfg["fault"]["kind"] if cfg.get("fault") else "none"),
    )
    stats = {"n": 0, "nontriv": 0}
    hist = case.get("history")
    if hist:
        # a two-run history in this process: run 1 (its own reader / queue / consumer / scheduler) is abandoned
        # after k batches, run 2 (`cfg`, all new objects) is a normal run and must satisfy every clause
        first = hist["first"]
        res.cls(
            f"history={HISTORY}",
            f"history={HISTORY}:run1={first['reader']}->run2={cfg['reader']}",
            f"history={HISTORY}:how={first['abandon']['how']}",
            f"history={HISTORY}:run2-frames={'0' if not deliv else '>=1'}",
        )

    def judge(choices):
        if hist:
            fails1, _, _ = run_schedule(hist["first"], hist["first_choices"])
            for b, m in fails1:
                res.fail(f"history={HISTORY}:run1-abandon:{b}", f"{m} | run1={hist['first']} choices={hist['first_choices']}")
        fails, facts, taken = run_schedule(cfg, choices)
        stats["n"] += 1
        beyond = cfg["reader"] == "video" and cfg.get("end") is not None and cfg["end"] > N_SRC
        if (facts["blocked_put"] > 0 and facts["blocked_get"] > 0) or cfg.get("fault") or beyond or (hist and deliv):
            stats["nontriv"] += 1
        for b, m in fails:
            if hist:
                res.fail(f"history={HISTORY}:run2:{b}", f"{m} | cfg={cfg} choices={list(choices)} after abandoned run1={hist['first']} choices={hist['first_choices']}")
            else:
                res.fail(b, f"{m} | cfg={cfg} choices={list(choices)}")
        return taken

    if case.get("exhaustive"):
        n, complete = sched.explore_all(judge, max_runs=case.get("max_runs", 20000))
        res.cls("schedules:exhaustive" if complete else "schedules:truncated")
        if not complete:
            res.fail_truncated = True
    else:
        judge(case["choices"])
    res.n_evals = stats["n"]
    res.nontrivial = stats["nontriv"] > 0
    res.cls(f"frames={_n_frames(cfg)}")
    return res


def _requested(cfg):
    """(pool video, frame index) of every requested frame that exists, in request order."""
    if cfg["reader"] == "video":
        s = cfg["start"] if cfg["start"] is not None else 0
        e = cfg["end"] if cfg["end"] is not None else N_SRC
        return [(cfg.get("vid", 0), i) for i in range(s, min(e, N_SRC))]
    return [(v, i) for v, i in cfg["frames"]]


def _delivered(cfg):
    """The requested frames that precede the injected fault (class labels only; the oracle derives its own list)."""
    req = _requested(cfg)
    f = cfg.get("fault")
    if f is None:
        return req
    if cfg["reader"] == "video":
        idx = [i for _, i in req]
        return req[: idx.index(f["at"])] if f["at"] in idx else req
    return req[: f["at"]]


def _n_frames(cfg):
    if cfg["reader"] == "video":
        s = cfg["start"] if cfg["start"] is not None else 0
        e = cfg["end"] if cfg["end"] is not None else N_SRC
        return max(0, e - s)
    return len(cfg["frames"])


def config_space(max_frames, caps, batches):
    """All configurations with at most max_frames frames (finite, enumerated)."""
    out = []
    for cap in caps:
        for batch in batches:
            # VideoReader ranges
            for n in range(0, max_frames + 1):
                for start in (0, 2):
                    end = start + n
                    if end > N_SRC:
                        continue
                    faults = [None]
                    for k in range(start, end):
                        faults += [{"at": k, "kind": "exception"}, {"at": k, "kind": "base"}]
                    for f in faults:
                        out.append({"reader": "video", "start": start, "end": end, "cap": cap, "batch": batch, "fault": f})
                # the same ranges over the mixed-size image sequence (start 1: the first frame delivered does not have
                # the first image's size); the schedule x fault space is the one above, so only no-fault and a fault
                # at the last frame are repeated
                if n >= 1:
                    start, end = 1, 1 + n
                    for f in (None, {"at": end - 1, "kind": "exception"}):
                        out.append({"reader": "video", "vid": MIXED, "start": start, "end": end, "cap": cap, "batch": batch, "fault": f})
            # LabelsReader: frames over one or two videos
            for n in range(0, max_frames + 1):
                for layout in ("one", "two"):
                    if layout == "two" and n < 2:
                        continue
                    frames = [[0, 1 + i] for i in range(n)] if layout == "one" else [[i % 2, 1 + i] for i in range(n)]  # indices < N_SRC
                    faults = [None] + [{"at": k, "kind": kind} for k in range(n) for kind in ("exception", "base")]
                    for f in faults:
                        out.append({"reader": "labels", "frames": frames, "cap": cap, "batch": batch, "fault": f})
                    if layout == "two" and cap in (1, 2) and batch in (1, 2):
                        out.append({"reader": "labels", "frames": frames, "cap": cap, "batch": batch, "fault": None, "embedded": True})
                # labeled frames of the mixed-size video (alone for n <= 1, else alternating with video 0)
                if n >= 1:
                    frames = [[MIXED, 1 + i // 2] if i % 2 == 0 else [0, 1 + i] for i in range(n)]
                    for f in (None, {"at": n - 1, "kind": "exception"}):
                        out.append({"reader": "labels", "frames": frames, "cap": cap, "batch": batch, "fault": f})
    return out


def enum_cases(tier):
    if tier == "quick":
        cfgs = config_space(2, caps=[1, 2, 0], batches=[1, 2, 3])
        cfgs += [c for c in config_space(3, caps=[1, 2], batches=[2]) if _n_frames(c) == 3]
    else:
        cfgs = config_space(4, caps=[1, 2, 3, 4, 0], batches=[1, 2, 3, 4])
        # (the mixed-size variants stop at 4 frames: their schedule space is the one of the uniform configurations,
        # repeating the 5-frame layer for them would add ~40 % to the part for no new interleaving)
        cfgs += [c for c in config_space(5, caps=[1, 2, 0], batches=[2, 4]) if _n_frames(c) == 5 and not any(v == MIXED for v, _ in _requested(c))]
    for c in cfgs:
        yield {"cfg": c, "exhaustive": True, "max_runs": 200000}


def strategy():
    from hypothesis import strategies as st

    @st.composite
    def case(draw):
        # one joint choice: reader x source (VideoReader over the uniform video 0 / the mixed-size sequence;
        # LabelsReader over frames of the uniform videos only / of all three pool videos)
        reader, src = draw(st.sampled_from([("video", 0), ("video", MIXED), ("labels", "uniform"), ("labels", "all"), ("labels", "all")]))
        cap = draw(st.sampled_from([1, 1, 2, 3, 4, 0]))
        batch = draw(st.integers(1, 4))
        if reader == "video":
            if draw(st.integers(0, 5)) == 0:
                start, end = None, None
            else:
                start = draw(st.integers(0, N_SRC))
                end = draw(st.integers(start, N_SRC + 2))  # may reach beyond the video: reading index N_SRC fails
            cfg = {"reader": "video", "start": start, "end": end, "cap": cap, "batch": batch}
            if src != 0:
                cfg["vid"] = src
            s, e = (0 if start is None else start), (N_SRC if end is None else end)
            idxs = list(range(s, min(e, N_SRC)))
        else:
            n = draw(st.integers(0, 6))
            frames = sorted(
                draw(st.lists(st.tuples(st.integers(0, 1 if src == "uniform" else N_VID - 1), st.integers(0, N_SRC - 1)), min_size=n, max_size=n, unique=True))
            )
            if draw(st.booleans()):
                frames = list(draw(st.permutations(frames)))
            cfg = {"reader": "labels", "frames": [list(f) for f in frames], "cap": cap, "batch": batch}
            if draw(st.integers(0, 2)) == 0:
                cfg["embedded"] = True  # videos of one package file share their filename
            idxs = list(range(len(frames)))
        fault = None
        if idxs and draw(st.integers(0, 2)) == 0:
            fault = {"at": draw(st.sampled_from(idxs)), "kind": draw(st.sampled_from(["exception", "base"]))}
        cfg["fault"] = fault
        choices = draw(st.lists(st.integers(0, 2), max_size=40))
        out = {"cfg": cfg, "choices": choices}
        if draw(st.integers(0, 4)) == 0:
            first = draw(_abandoned_first(st, reader))
            out["history"] = {"kind": HISTORY, "first": first, "first_choices": draw(st.lists(st.integers(0, 2), max_size=12))}
        return out

    return case()


def _abandoned_first(st, reader2):
    """Strategy: configuration of an ABANDONED run (run 1 of a history) for the scheduler parts.  n >= 1 frames, no fault,
    a buffer with room for all n frames + the marker (so the abandoned reader can always end on its own: a reader
    abandoned with a full buffer stays blocked on put, which the property does not speak about), batch b <= n and the
    consumer leaves after k batches with k * b <= n, i.e. before it has seen the end marker."""

    @st.composite
    def first(draw):
        # mostly the reader class of run 2 (state shared between the readers of ONE class is the likely leak)
        same = draw(st.sampled_from([True, True, True, False]))
        r1 = reader2 if same else ("labels" if reader2 == "video" else "video")
        n = draw(st.integers(1, 4))
        batch = draw(st.integers(1, n))
        after = draw(st.integers(1, n // batch))
        cap = draw(st.sampled_from([n + 1, n + 1, n + 2, 0]))
        how = draw(st.sampled_from(["close", "close", "drop"]))
        if r1 == "video":
            start = draw(st.integers(0, N_SRC - n))
            cfg = {"reader": "video", "start": start, "end": start + n, "cap": cap, "batch": batch}
            if draw(st.booleans()):
                cfg["vid"] = MIXED
        else:
            frames = draw(st.lists(st.tuples(st.integers(0, N_VID - 1), st.integers(0, N_SRC - 1)), min_size=n, max_size=n, unique=True))
            cfg = {"reader": "labels", "frames": [list(f) for f in frames], "cap": cap, "batch": batch}
        cfg["fault"] = None
        cfg["abandon"] = {"after": after, "how": how}
        return cfg

    return first()


def evaluate_os(case):
    """Smoke layer: un-instrumented path (from_filename, real Queue, OS scheduling); sources: the repo's mp4 / package
    assets and the pool's mixed-size image sequence (list of PNGs) / three-video package; every record's orig_size is checked."""
    res = Result()
    res.cls(f"os:reader={case['reader']}", f"os:cap={case['cap']}")
    hist = case.get("history")
    tag = f"os-threads:history={HISTORY}:run2" if hist else "os-threads"
    if hist:
        first = hist["first"]
        res.cls(
            f"os:history={HISTORY}",
            f"os:history={HISTORY}:run1={_os_class(first['reader'])}->run2={_os_class(case['reader'])}",
            f"os:history={HISTORY}:how={first['abandon']['how']}",
        )
        verdict = _os_abandoned_run(first)
        if verdict == "timeout":
            res.rejected = True
            res.cls("os:timeout-inconclusive")
            return res
        if verdict is not None:
            kind, detail = verdict
            if kind == "exc":
                b = runner.exc_bucket(f"os-threads:history={HISTORY}:run1-abandon", detail)
                if b is None:
                    raise detail
                res.fail(b, f"{type(detail).__name__}: {str(detail)[:200]} (run1={first})")
            else:
                res.fail(f"os-threads:history={HISTORY}:run1-abandon:{kind}", f"{detail} (run1={first})")
            # run 2 is still judged: its clauses do not depend on how run 1 went
    reader, expected, exp_hw, hw = _os_source(case, res)
    pred = _os_predictor(reader, case["batch"], hw)
    out = {}

    def consume():
        try:
            out["records"] = list(pred._predict_generator())
        except Exception as e:  # noqa: BLE001
            out["exc"] = e

    th = threading.Thread(target=consume, daemon=True)
    th.start()
    th.join(timeout=300)
    if th.is_alive():
        # a time budget hit is inconclusive, never a violation
        res.rejected = True
        res.cls("os:timeout-inconclusive")
        return res
    if "exc" in out:
        b = runner.exc_bucket(tag, out["exc"])
        if b is None:
            raise out["exc"]
        res.fail(b, str(out["exc"])[:200])
        return res
    ctx = f"{case}" if not hist else f"{ {k: v for k, v in case.items() if k != 'history'} } after abandoned run1={hist['first']}"
    got = [(int(v), int(f)) for r in out["records"] for v, f in zip(r["video_idx"], r["frame_idx"])]
    if got != expected:
        res.fail(f"{tag}:frames", f"records {got} expected {expected} ({ctx})")
    else:
        got_hw = [tuple(int(x) for x in sz) for r in out["records"] for sz in r["orig_size"]]
        bad = [k for k in range(len(expected)) if got_hw[k] != tuple(exp_hw[k])]
        if bad:
            mixed = case["reader"] in ("video-mixed", "labels-pool")
            k = bad[0]
            res.fail(
                f"{tag}:orig-size" + (":mixed-size-video" if mixed else ""),
                f"{len(bad)} records with a wrong orig_size, first: frame {expected[k]} carries {got_hw[k]}, its own size is {tuple(exp_hw[k])} ({ctx})",
            )
    if any(len(r["frame_idx"]) > case["batch"] for r in out["records"]):
        res.fail(f"{tag}:batch-size", f"batch larger than {case['batch']}")
    if reader.is_alive():
        res.fail(f"{tag}:reader-alive", "reader thread alive after the generator finished")
    if not reader.frame_buffer.empty():
        res.fail(f"{tag}:queue-not-empty", "items left in the buffer")
    res.nontrivial = len(expected) > case["cap"] > 0 or bool(hist and expected)
    return res


def _os_class(reader):
    """Reader CLASS of an os-threads source kind."""
    return "VideoReader" if reader.startswith("video") else "LabelsReader"


def _os_predictor(reader, batch, hw):
    from sleap_nn.inference.predictors import SingleInstancePredictor

    pred = SingleInstancePredictor()
    pred.inference_model = lambda ex: [{"frame_idx": ex["frame_idx"], "video_idx": ex["video_idx"], "orig_size": ex["orig_size"]}]
    pred.pipeline = reader
    pred.preprocess = False
    pred.instances_key = False
    pred.preprocess_config = {"batch_size": batch, "max_height": hw[0], "max_width": hw[1], "is_rgb": False, "scale": 1.0, "max_stride": 1}
    return pred


def _os_abandoned_run(first):
    """Run 1 of a history on real threads: new reader + consumer, the consumer takes `after` batches and closes / drops the
    generator; the buffer has room for every item, so the reader ends on its own and is joined.  Returns None (fine),
    "timeout" (inconclusive) or (kind, detail) - judged: abandoning raises nothing and the reader thread ends."""
    reader, expected, _, hw = _os_source(first, None)
    if not (0 < first["batch"] * first["abandon"]["after"] <= len(expected) < first["cap"]):
        raise AssertionError(f"harness: abandoned run outside its construction (frames {len(expected)}): {first}")
    pred = _os_predictor(reader, first["batch"], hw)
    out = {}

    def go():
        try:
            gen = pred._predict_generator()
            for j in range(first["abandon"]["after"]):
                try:
                    next(gen)
                except StopIteration:
                    # k * batch <= number of frames: up to here run 1 is a normal run and owes k full batches
                    out["short"] = f"generator ended after {j} batches, {first['abandon']['after']} full batches of {first['batch']} were due ({len(expected)} frames)"
                    break
            if first["abandon"]["how"] == "close":
                gen.close()
            else:
                del gen  # CPython finalises the suspended generator at once (GeneratorExit at its yield)
            reader.join()
        except Exception as e:  # noqa: BLE001
            out["exc"] = e

    th = threading.Thread(target=go, daemon=True)
    th.start()
    th.join(timeout=300)
    if th.is_alive():
        return "timeout"
    if "exc" in out:
        return ("exc", out["exc"])
    if reader.is_alive():
        return ("reader-alive", "reader thread of the abandoned run alive after join")
    if "short" in out:
        return ("frames", out["short"])
    return None


def _os_source(case, res):
    """Reader (new objects), expected (video, frame) list, expected own sizes and max (H, W) of an os-threads source."""
    from sleap_nn.data.providers import LabelsReader, VideoReader

    if case["reader"] == "video":
        reader = VideoReader.from_filename("/repo/tests/assets/centered_pair_small.mp4", case["cap"], case["start"], case["end"])
        expected = [(0, i) for i in range(case["start"], case["end"])]
        exp_hw = [OS_ASSET_HW] * len(expected)
        hw = reader.max_height_and_width
    elif case["reader"] == "video-mixed":
        # image sequence with frames of different sizes, given as a list of files (a range beyond it ends at the read failure)
        if res is not None:
            res.cls("os:mixed-size-video:video")
        reader = VideoReader.from_filename(list(_pool()["paths"][MIXED]), case["cap"], case["start"], case["end"])
        expected = [(0, i) for i in range(case["start"], min(case["end"], N_SRC))]
        exp_hw = [_frame_hw(MIXED, i) for _, i in expected]
        hw = _video_max_hw(MIXED)
    elif case["reader"] == "labels-pool":
        # the pool's package file: three videos (one of mixed frame sizes), every frame labeled, in file order
        if res is not None:
            res.cls("os:mixed-size-video:labels")
        reader = LabelsReader.from_filename(_pool()["pkg"], case["cap"])
        expected = [(v, i) for v in range(N_VID) for i in range(N_SRC)]
        exp_hw = [_frame_hw(v, i) for v, i in expected]
        hw = (max(_video_max_hw(v)[0] for v in range(N_VID)), max(_video_max_hw(v)[1] for v in range(N_VID)))
    else:
        reader = LabelsReader.from_filename("/repo/tests/assets/minimal_instance.pkg.slp", case["cap"])
        expected = [(reader.labels.videos.index(lf.video), lf.frame_idx) for lf in reader.labels]
        exp_hw = [OS_ASSET_HW] * len(expected)
        hw = reader.max_height_and_width
    return reader, expected, exp_hw, hw


def strategy_os():
    from hypothesis import strategies as st

    @st.composite
    def case(draw):
        reader = draw(st.sampled_from(["video", "video", "labels", "video-mixed", "video-mixed", "labels-pool"]))
        start = draw(st.integers(0, 6))
        out = {
            "reader": reader,
            "cap": draw(st.integers(1, 4)),
            "batch": draw(st.integers(1, 4)),
            "start": start,
            "end": draw(st.integers(start, start + 7)),
        }
        if draw(st.integers(0, 2)) == 0:
            # two-run history: an abandoned run 1 (new reader + consumer), then this case as the complete run 2
            out["history"] = {"kind": HISTORY, "first": draw(_abandoned_first_os(st, reader))}
        return out

    return case()


N_LABELS_ASSET = 1  # labeled frames in /repo/tests/assets/minimal_instance.pkg.slp (checked against the file in _os_abandoned_run)


def _abandoned_first_os(st, reader2):
    """Strategy: source / capacity / batch of an ABANDONED run on real threads.  n >= 1 frames, a buffer with room for
    all n frames + the marker (capacity >= n + 1: on real threads a reader abandoned with a full buffer would stay blocked on
    put for ever), batch b <= n, the consumer leaves after k batches with k * b <= n (before it has seen the marker)."""

    @st.composite
    def first(draw):
        # mostly the reader CLASS of run 2 (state shared between the readers of one class is the likely leak)
        same = draw(st.sampled_from([True, True, True, False]))
        video = reader2.startswith("video") if same else not reader2.startswith("video")
        kind = draw(st.sampled_from(["video", "video-mixed"] if video else ["labels", "labels-pool"]))
        if kind == "video":
            n = draw(st.integers(1, 4))
            start = draw(st.integers(0, 20))
        elif kind == "video-mixed":
            n = draw(st.integers(1, 4))
            start = draw(st.integers(0, N_SRC - n))
        else:
            n = N_LABELS_ASSET if kind == "labels" else N_VID * N_SRC  # these sources always deliver every labeled frame
            start = 0
        batch = draw(st.integers(1, min(n, 4)))
        return {
            "reader": kind,
            "cap": n + 1 + draw(st.integers(0, 2)),
            "batch": batch,
            "start": start,
            "end": start + n,
            "abandon": {"after": draw(st.integers(1, min(n // batch, 3))), "how": draw(st.sampled_from(["close", "close", "drop"]))},
        }

    return first()


def _setup():
    threading.excepthook = lambda args: None  # dying reader threads are recorded, not printed
    _pool()


def parts(tier):
    return [
        Part(
            name="all-schedules",
            evaluate=evaluate,
            enumerate=enum_cases,
            shards={"quick": 1, "thorough": 16},
            exhaustive={"quick": True, "thorough": True},
            min_nontrivial={"quick": 50, "thorough": 200},
            setup=_setup,
        ),
        Part(
            name="sampled",
            evaluate=evaluate,
            strategy=strategy,
            budget={"quick": 1500, "thorough": 40000},
            min_nontrivial={"quick": 200, "thorough": 5000},
            setup=_setup,
        ),
        Part(
            name="os-threads",
            evaluate=evaluate_os,
            strategy=strategy_os,
            budget={"quick": 60, "thorough": 1600},
            min_nontrivial={"quick": 2, "thorough": 100},
            setup=_setup,
        ),
    ]


def extra_coverage():
    return {
        "exhaustive_domain": "every schedule (DFS over all choice points) of every configuration with <= 2 frames (quick: capacities {1,2,unbounded} x batch 1..3; "
        "plus 3 frames for capacities {1,2}, batch 2) / <= 4 frames (thorough: capacities {1..4,unbounded} x batch 1..4; plus 5 frames for capacities {1,2,unbounded}, batch {2,4}), "
        "both readers, every fault position and kind; plus the same ranges / frame lists over the mixed-size image sequence "
        "(VideoReader from frame 1; LabelsReader alternating mixed video / video 0; quick <= 3 frames, thorough <= 4 frames) without fault and with a fault at the last frame",
        "evaluations_are": "scheduler executions (one per schedule)",
    }


if __name__ == "__main__":
    runner.main(__name__)
