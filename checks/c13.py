"""C13 - frame readers deliver each frame once, in order, and always end the stream.

The harness owns the schedule (vlib/sched.py): the repo's unmodified `VideoReader.run` /
`LabelsReader.run` execute in a real thread and the real `Predictor._predict_generator`
(of a `SingleInstancePredictor` with a pass-through inference model) consumes in the main
thread, but control only changes hands at the yield points (queue put / get, frame read,
thread start / end, join) according to a choice sequence.  Quick tier: Hypothesis-drawn
configurations and choice sequences + exhaustive DFS over *all* schedules of every
configuration with <= 2 frames; thorough: exhaustive for <= 4 frames.

Oracle (trace predicate): items put on the buffer = the requested frames, each exactly
once, in order, with their own frame_idx / video_idx / orig_size / pixel content, followed
by exactly one end marker and nothing after it; with a read fault at k: the frames before
k, then exactly one marker.  Consumer: same frames in the same order, full batches except
the last, generator terminates, reader thread finished, queue empty, no deadlock.
"""

import itertools
import os
import threading

from vlib import env, runner, sched
from vlib.runner import Part, Result

PROPERTY = "C13"
LEVEL = "exploration"
RULE = (
    "a case is a reader configuration (VideoReader range / LabelsReader frame list over 1-2 videos of "
    "different size, queue capacity, batch size, optional read fault at frame k raising Exception or a "
    "BaseException subclass) plus either an explicit choice sequence (sampled part) or the instruction to "
    "enumerate every schedule by DFS over the choice points (exhaustive parts; each schedule is one "
    "evaluation); non-trivial = the schedule(s) contain a put that blocked on a full queue and a get that "
    "blocked on an empty queue, or a fault; distinct by serialised case"
)
ASSUMPTIONS = [
    "pre-emption is modelled at the queue/read/start/join yield points only; atomicity of queue.Queue and CPython internals is trusted",
    "liveness is bounded: 'terminates under every schedule of the explored size' (deadlock = no runnable thread)",
    "frames come from real PNG-backed sio.Video objects whose backend get_frame is wrapped (harness subclass) to add the yield point and the fault",
    "max_height/max_width of the consumer are set to the maximum over the videos, as a training config records them",
]

N_SRC = 6  # frames per source video
SIZES = [(8, 12), (10, 6)]  # (H, W) of video 0 / 1
_POOL = {}


class _SimKill(BaseException):
    """A non-Exception failure inside the reader thread."""


def _pool():
    """PNG-backed videos, created once per process."""
    if _POOL:
        return _POOL
    import imageio.v3 as iio
    import numpy as np

    d = env.scratch_dir("c13")
    paths = []
    for v, (h, w) in enumerate(SIZES):
        ps = []
        for i in range(N_SRC):
            arr = np.full((h, w), 40 * v + i + 1, dtype=np.uint8)
            p = os.path.join(d, f"v{v}_{i:02d}.png")
            iio.imwrite(p, arr)
            ps.append(p)
        paths.append(ps)
    _POOL["paths"] = paths
    # the same two videos embedded in ONE .pkg.slp: both sio.Video objects then share their filename
    # (they differ only by HDF5 dataset), as every multi-video package file does
    import sleap_io as sio

    try:
        sio.set_default_image_plugin("imageio")
    except Exception:  # noqa: BLE001
        pass
    vids = [sio.Video.from_filename(ps) for ps in paths]
    skel = sio.Skeleton(["a"])
    lfs = [
        sio.LabeledFrame(video=vids[v], frame_idx=i, instances=[sio.Instance.from_numpy(np.array([[1.0, 2.0]]), skeleton=skel)])
        for v in range(len(vids)) for i in range(N_SRC)
    ]
    pkg = os.path.join(d, "two_videos.pkg.slp")
    sio.Labels(labeled_frames=lfs, videos=vids, skeletons=[skel]).save(pkg, embed="all")
    _POOL["pkg"] = pkg
    return _POOL


def _make_video(v, hook):
    import sleap_io as sio

    return _hook_video(sio.Video.from_filename(_pool()["paths"][v]), v, hook)


def _embedded_videos(hook):
    """Fresh Video objects of the two-video package file (same filename, different datasets), hooked."""
    import sleap_io as sio

    vids = sio.load_slp(_pool()["pkg"]).videos
    for vid in vids:
        if vid.backend is None:
            vid.open()
    return [_hook_video(vid, v, hook) for v, vid in enumerate(vids)]


def _hook_video(vid, v, hook):
    base_cls = type(vid.backend)

    class Hooked(base_cls):  # harness-side subclass: yield point + fault injection
        def get_frame(self, frame_idx):
            hook(v, int(frame_idx))
            return super().get_frame(frame_idx)

    hb = Hooked.__new__(Hooked)
    for slot in itertools.chain.from_iterable(getattr(c, "__slots__", ()) for c in base_cls.__mro__):
        if slot in ("__weakref__", "__dict__"):
            continue
        try:
            object.__setattr__(hb, slot, getattr(vid.backend, slot))
        except AttributeError:
            pass
    if hasattr(vid.backend, "__dict__"):
        hb.__dict__.update(vid.backend.__dict__)
    vid.backend = hb
    return vid


def run_schedule(cfg, choices):
    """One execution under the scheduler. Returns (failures, facts, taken)."""
    import numpy as np
    import sleap_io as sio
    import torch
    from sleap_nn.data.providers import LabelsReader, VideoReader
    from sleap_nn.inference.predictors import SingleInstancePredictor

    S = sched.Scheduler(choices)
    S.register_current("consumer")
    fault = cfg.get("fault")
    read_pos = {"n": 0}

    def hook(v, idx):
        S.switch("read")
        pos = read_pos["n"]
        read_pos["n"] += 1
        if fault is not None:
            at = fault["at"]
            hit = (idx == at) if cfg["reader"] == "video" else (pos == at)
            if hit:
                if fault["kind"] == "exception":
                    raise OSError("injected read failure")
                raise _SimKill("injected kill")

    fails = []
    q = sched.SchedQueue(S, maxsize=cfg["cap"])
    if cfg["reader"] == "video":
        vid = _make_video(0, hook)
        base = VideoReader
        # a requested range reaching beyond the video is a natural read failure at index N_SRC
        expected = list(range(cfg["start"] if cfg["start"] is not None else 0, min(N_SRC, cfg["end"] if cfg["end"] is not None else N_SRC)))
        exp_items = [(0, i) for i in expected]
        if fault is not None and fault["at"] in expected:
            exp_items = exp_items[: expected.index(fault["at"])]
        max_hw = SIZES[0]
    else:
        vids = _embedded_videos(hook) if cfg.get("embedded") else [_make_video(0, hook), _make_video(1, hook)]
        used = sorted({v for v, _ in cfg["frames"]})
        videos = [vids[v] for v in used]
        skel = sio.Skeleton(["a"])
        lfs = [
            sio.LabeledFrame(video=vids[v], frame_idx=i, instances=[sio.Instance.from_numpy(np.array([[1.0, 2.0]]), skeleton=skel)])
            for v, i in cfg["frames"]
        ]
        labels = sio.Labels(labeled_frames=lfs, videos=videos, skeletons=[skel])
        base = LabelsReader
        exp_items = [(used.index(v), i) for v, i in cfg["frames"]]
        exp_src = [v for v, _ in cfg["frames"]]
        if fault is not None and fault["at"] < len(exp_items):
            exp_items = exp_items[: fault["at"]]
        max_hw = (max(SIZES[v][0] for v in used), max(SIZES[v][1] for v in used)) if used else SIZES[0]

    class Reader(base):  # only wraps run/start/join with scheduler notifications
        def run(self):
            S.thread_begin("producer")
            try:
                super().run()
            except BaseException as e:  # noqa: BLE001  (a dying thread; recorded, not judged here)
                self._died = type(e).__name__
            finally:
                S.thread_end()

        def start(self):
            super().start()
            S.wait_registered("producer")

        def join(self, timeout=None):
            r = S.switch("join", lambda: S.is_done("producer"), timed=timeout is not None)
            if r != "timeout":
                super().join(timeout=30)

        def is_alive(self):
            # a liveness query is a yield point; the answer is the LOGICAL state (the OS thread may linger)
            if threading.get_ident() in S.by_ident and not S.deadlock:
                S.switch("is_alive?")
                return "producer" in S.threads and not S.is_done("producer")
            return super().is_alive()

    if cfg["reader"] == "video":
        reader = Reader(vid, q, cfg["start"], cfg["end"])
    else:
        reader = Reader(labels, q, False)

    pred = SingleInstancePredictor()
    pred.inference_model = lambda ex: [
        {
            "frame_idx": ex["frame_idx"],
            "video_idx": ex["video_idx"],
            "orig_size": ex["orig_size"],
            "pix": ex["image"].reshape(ex["image"].shape[0], -1)[:, 0] * 255.0,
        }
    ]
    pred.pipeline = reader
    pred.preprocess = False
    pred.instances_key = False
    pred.preprocess_config = {
        "batch_size": cfg["batch"],
        "max_height": max_hw[0],
        "max_width": max_hw[1],
        "is_rgb": False,
        "scale": 1.0,
        "max_stride": 1,
    }
    records = []
    consumer_exc = None
    try:
        for out in pred._predict_generator():
            records.append(out)
    except sched.Deadlock:
        fails.append(("deadlock", f"no runnable thread: events tail {S.events[-8:]}"))
    except sched.StepLimit:
        fails.append(("step-limit", "more than 5000 scheduling steps: consumer/producer do not terminate"))
    except Exception as e:  # noqa: BLE001
        b = runner.exc_bucket("consumer", e)
        if b is None:
            raise
        consumer_exc = e
        fails.append((b, f"{type(e).__name__}: {str(e)[:200]}"))
    finally:
        # make sure no thread outlives the case
        with S.cv:
            if threading.Thread.is_alive(reader) and not S.is_done("producer"):
                S.deadlock = True
                S.cv.notify_all()
        if reader.ident is not None:
            threading.Thread.join(reader, timeout=10)

    facts = {"blocked_put": S.blocked_put, "blocked_get": S.blocked_get, "steps": S.steps}
    if S.deadlock and not fails:
        fails.append(("deadlock", f"scheduler stopped: events tail {S.events[-8:]}"))
    if fails:
        return fails, facts, S.taken

    # ---- oracle on the producer trace
    puts = q.put_log
    markers = [i for i, it in enumerate(puts) if it["image"] is None]
    if len(markers) != 1:
        fails.append(("producer:marker-count", f"{len(markers)} end markers put (expected exactly 1); {len(puts)} items"))
    elif markers[0] != len(puts) - 1:
        fails.append(("producer:item-after-marker", f"marker at position {markers[0]} of {len(puts)}"))
    frames_put = [it for it in puts if it["image"] is not None]
    got = [(int(it["video_idx"]), int(it["frame_idx"])) for it in frames_put]
    if got != exp_items:
        fails.append(("producer:frames", f"put (video,frame) {got}, expected {exp_items}"))
    else:
        for k, it in enumerate(frames_put):
            src_v = 0 if cfg["reader"] == "video" else exp_src[k]
            h, w = SIZES[src_v]
            if [int(x) for x in it["orig_size"]] != [h, w]:
                fails.append(("producer:orig-size", f"item {k}: orig_size {it['orig_size'].tolist()} expected {[h, w]}"))
            if tuple(it["image"].shape) != (1, 1, h, w) or int(it["image"].flatten()[0]) != 40 * src_v + exp_items[k][1] + 1:
                fails.append(("producer:content", f"item {k}: image shape {tuple(it['image'].shape)} / pixel {int(it['image'].flatten()[0])}"))
    # ---- oracle on the consumer
    rec_items = []
    for r in records:
        n = len(r["frame_idx"])
        if n > cfg["batch"] or n == 0:
            fails.append(("consumer:batch-size", f"batch of {n} records with batch_size {cfg['batch']}"))
        for j in range(n):
            rec_items.append((int(r["video_idx"][j]), int(r["frame_idx"][j]), float(r["pix"][j]), [int(x) for x in r["orig_size"][j]]))
    if [(a, b) for a, b, _, _ in rec_items] != exp_items:
        fails.append(("consumer:frames", f"records {[(a, b) for a, b, _, _ in rec_items]}, expected {exp_items}"))
    else:
        for k, (a, b, pix, osz) in enumerate(rec_items):
            src_v = 0 if cfg["reader"] == "video" else exp_src[k]
            if abs(pix - (40 * src_v + b + 1)) > 0.51 or osz != list(SIZES[src_v]):
                fails.append(("consumer:record-mismatch", f"record {k}: pixel {pix}, orig_size {osz} for video {src_v} frame {b}"))
    if threading.Thread.is_alive(reader):
        fails.append(("reader-alive", "reader thread still alive after the generator finished"))
    if not q._empty():
        fails.append(("queue-not-empty", f"{len(q.queue)} items left in the buffer"))
    return fails, facts, S.taken


def evaluate(case):
    res = Result()
    cfg = case["cfg"]
    if cfg["reader"] == "video" and cfg.get("end") is not None and cfg["end"] > N_SRC:
        res.cls("range-beyond-video")
    if cfg.get("embedded"):
        res.cls("labels:embedded-package(shared filename)")
    res.cls(
        f"reader={cfg['reader']}", f"cap={cfg['cap']}", f"batch={cfg['batch']}",
        "fault=" + (cfg["fault"]["kind"] if cfg.get("fault") else "none"),
    )
    stats = {"n": 0, "nontriv": 0}

    def judge(choices):
        fails, facts, taken = run_schedule(cfg, choices)
        stats["n"] += 1
        beyond = cfg["reader"] == "video" and cfg.get("end") is not None and cfg["end"] > N_SRC
        if (facts["blocked_put"] > 0 and facts["blocked_get"] > 0) or cfg.get("fault") or beyond:
            stats["nontriv"] += 1
        for b, m in fails:
            res.fail(b, f"{m} | cfg={cfg} choices={list(choices)}")
        return taken

    if case.get("exhaustive"):
        n, complete = sched.explore_all(judge, max_runs=case.get("max_runs", 20000))
        res.cls("schedules:exhaustive" if complete else "schedules:truncated")
        if not complete:
            res.fail_truncated = True
    else:
        judge(case["choices"])
    res.n_evals = stats["n"]
    res.nontrivial = stats["nontriv"] > 0
    res.cls(f"frames={_n_frames(cfg)}")
    return res


def _n_frames(cfg):
    if cfg["reader"] == "video":
        s = cfg["start"] if cfg["start"] is not None else 0
        e = cfg["end"] if cfg["end"] is not None else N_SRC
        return max(0, e - s)
    return len(cfg["frames"])


def config_space(max_frames, caps, batches):
    """All configurations with at most max_frames frames (finite, enumerated)."""
    out = []
    for cap in caps:
        for batch in batches:
            # VideoReader ranges
            for n in range(0, max_frames + 1):
                for start in (0, 2):
                    end = start + n
                    if end > N_SRC:
                        continue
                    faults = [None]
                    for k in range(start, end):
                        faults += [{"at": k, "kind": "exception"}, {"at": k, "kind": "base"}]
                    for f in faults:
                        out.append({"reader": "video", "start": start, "end": end, "cap": cap, "batch": batch, "fault": f})
            # LabelsReader: frames over one or two videos
            for n in range(0, max_frames + 1):
                for layout in ("one", "two"):
                    if layout == "two" and n < 2:
                        continue
                    frames = [[0, 1 + i] for i in range(n)] if layout == "one" else [[i % 2, 1 + i] for i in range(n)]  # indices < N_SRC
                    faults = [None] + [{"at": k, "kind": kind} for k in range(n) for kind in ("exception", "base")]
                    for f in faults:
                        out.append({"reader": "labels", "frames": frames, "cap": cap, "batch": batch, "fault": f})
                    if layout == "two" and cap in (1, 2) and batch in (1, 2):
                        out.append({"reader": "labels", "frames": frames, "cap": cap, "batch": batch, "fault": None, "embedded": True})
    return out


def enum_cases(tier):
    if tier == "quick":
        cfgs = config_space(2, caps=[1, 2, 0], batches=[1, 2, 3])
        cfgs += [c for c in config_space(3, caps=[1, 2], batches=[2]) if _n_frames(c) == 3]
    else:
        cfgs = config_space(4, caps=[1, 2, 3, 4, 0], batches=[1, 2, 3, 4])
        cfgs += [c for c in config_space(5, caps=[1, 2, 0], batches=[2, 4]) if _n_frames(c) == 5]
    for c in cfgs:
        yield {"cfg": c, "exhaustive": True, "max_runs": 200000}


def strategy():
    from hypothesis import strategies as st

    @st.composite
    def case(draw):
        reader = draw(st.sampled_from(["video", "labels"]))
        cap = draw(st.sampled_from([1, 1, 2, 3, 4, 0]))
        batch = draw(st.integers(1, 4))
        if reader == "video":
            if draw(st.integers(0, 5)) == 0:
                start, end = None, None
            else:
                start = draw(st.integers(0, N_SRC))
                end = draw(st.integers(start, N_SRC + 2))  # may reach beyond the video: reading index N_SRC fails
            cfg = {"reader": "video", "start": start, "end": end, "cap": cap, "batch": batch}
            s, e = (0 if start is None else start), (N_SRC if end is None else end)
            idxs = list(range(s, min(e, N_SRC)))
        else:
            n = draw(st.integers(0, 6))
            frames = sorted(
                draw(st.lists(st.tuples(st.integers(0, 1), st.integers(0, N_SRC - 1)), min_size=n, max_size=n, unique=True))
            )
            if draw(st.booleans()):
                frames = list(draw(st.permutations(frames)))
            cfg = {"reader": "labels", "frames": [list(f) for f in frames], "cap": cap, "batch": batch}
            if draw(st.integers(0, 2)) == 0:
                cfg["embedded"] = True  # videos of one package file share their filename
            idxs = list(range(len(frames)))
        fault = None
        if idxs and draw(st.integers(0, 2)) == 0:
            fault = {"at": draw(st.sampled_from(idxs)), "kind": draw(st.sampled_from(["exception", "base"]))}
        cfg["fault"] = fault
        choices = draw(st.lists(st.integers(0, 2), max_size=40))
        return {"cfg": cfg, "choices": choices}

    return case()


def evaluate_os(case):
    """Smoke layer: un-instrumented path (from_filename, real Queue, OS scheduling)."""
    import torch
    from sleap_nn.data.providers import LabelsReader, VideoReader
    from sleap_nn.inference.predictors import SingleInstancePredictor

    res = Result()
    res.cls(f"os:reader={case['reader']}", f"os:cap={case['cap']}")
    if case["reader"] == "video":
        reader = VideoReader.from_filename("/repo/tests/assets/centered_pair_small.mp4", case["cap"], case["start"], case["end"])
        expected = [(0, i) for i in range(case["start"], case["end"])]
        hw = reader.max_height_and_width
    else:
        reader = LabelsReader.from_filename("/repo/tests/assets/minimal_instance.pkg.slp", case["cap"])
        expected = [(reader.labels.videos.index(lf.video), lf.frame_idx) for lf in reader.labels]
        hw = reader.max_height_and_width
    pred = SingleInstancePredictor()
    pred.inference_model = lambda ex: [{"frame_idx": ex["frame_idx"], "video_idx": ex["video_idx"], "orig_size": ex["orig_size"]}]
    pred.pipeline = reader
    pred.preprocess = False
    pred.instances_key = False
    pred.preprocess_config = {"batch_size": case["batch"], "max_height": hw[0], "max_width": hw[1], "is_rgb": False, "scale": 1.0, "max_stride": 1}
    out = {}

    def consume():
        try:
            out["records"] = list(pred._predict_generator())
        except Exception as e:  # noqa: BLE001
            out["exc"] = e

    th = threading.Thread(target=consume, daemon=True)
    th.start()
    th.join(timeout=300)
    if th.is_alive():
        # a time budget hit is inconclusive, never a violation
        res.rejected = True
        res.cls("os:timeout-inconclusive")
        return res
    if "exc" in out:
        b = runner.exc_bucket("os-threads", out["exc"])
        if b is None:
            raise out["exc"]
        res.fail(b, str(out["exc"])[:200])
        return res
    got = [(int(v), int(f)) for r in out["records"] for v, f in zip(r["video_idx"], r["frame_idx"])]
    if got != expected:
        res.fail("os-threads:frames", f"records {got} expected {expected} ({case})")
    if any(len(r["frame_idx"]) > case["batch"] for r in out["records"]):
        res.fail("os-threads:batch-size", f"batch larger than {case['batch']}")
    if reader.is_alive():
        res.fail("os-threads:reader-alive", "reader thread alive after the generator finished")
    if not reader.frame_buffer.empty():
        res.fail("os-threads:queue-not-empty", "items left in the buffer")
    res.nontrivial = len(expected) > case["cap"] > 0
    return res


def strategy_os():
    from hypothesis import strategies as st

    @st.composite
    def case(draw):
        reader = draw(st.sampled_from(["video", "video", "labels"]))
        start = draw(st.integers(0, 6))
        return {
            "reader": reader,
            "cap": draw(st.integers(1, 4)),
            "batch": draw(st.integers(1, 4)),
            "start": start,
            "end": draw(st.integers(start, start + 7)),
        }

    return case()


def _setup():
    threading.excepthook = lambda args: None  # dying reader threads are recorded, not printed
    _pool()


def parts(tier):
    return [
        Part(
            name="all-schedules",
            evaluate=evaluate,
            enumerate=enum_cases,
            shards={"quick": 1, "thorough": 16},
            exhaustive={"quick": True, "thorough": True},
            min_nontrivial={"quick": 50, "thorough": 200},
            setup=_setup,
        ),
        Part(
            name="sampled",
            evaluate=evaluate,
            strategy=strategy,
            budget={"quick": 1500, "thorough": 40000},
            min_nontrivial={"quick": 200, "thorough": 5000},
            setup=_setup,
        ),
        Part(
            name="os-threads",
            evaluate=evaluate_os,
            strategy=strategy_os,
            budget={"quick": 60, "thorough": 1600},
            min_nontrivial={"quick": 2, "thorough": 100},
            setup=_setup,
        ),
    ]


def extra_coverage():
    return {
        "exhaustive_domain": "every schedule (DFS over all choice points) of every configuration with <= 2 frames (quick: capacities {1,2,unbounded} x batch 1..3; "
        "plus 3 frames for capacities {1,2}, batch 2) / <= 4 frames (thorough: capacities {1..4,unbounded} x batch 1..4; plus 5 frames for capacities {1,2,unbounded}, batch {2,4}), "
        "both readers, every fault position and kind",
        "evaluations_are": "scheduler executions (one per schedule)",
    }


if __name__ == "__main__":
    runner.main(__name__)
