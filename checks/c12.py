"""C12 - a frame's predictions are independent of batch-mates and carry its indices.

A pool of 2..6 frames ("confidence-map images": channel c of the frame is map c, with
0..k bumps and low-amplitude noise; some frames have nothing above threshold) is pushed
through the three real inference models with per-sample-pure networks
(`vlib.nets.IdentityNet`).  Metamorphic oracle: for every frame f inside a batch B (any
sub-multiset / permutation of the pool, size 1..4) the records attributed to f equal the
records of the singleton batch [f], modulo NaN padding rows, and carry f's frame / video
index and original size.  Model kind "topdown-gt" is the centroid-only top-down model
(`CentroidCrop(return_crops=False)` + `FindInstancePeaksGroundTruth`): the batch also carries the
NaN-padded ground-truth `instances` of every frame, frames have fewer / as many / more detected
centroids than ground-truth instances (and more than instance slots); same oracle, no
assumption about which ground-truth instance a centroid is matched to.  Top-k: with max_instances=k the centroids kept for a frame are
the k highest-valued brute-force local peaks of its centroid map.
Negative values: the pool is drawn as all non-negative / about half of the frames / all frames with values below zero
(undershoot ring around bumps, dip next to a bump, negative background offset, noise symmetric about zero - what the
linear output of a real network has), for every model kind and both refinement modes, so that batches mix frames with and
without negative values inside their refinement patches.
"""

import math

from vlib import runner
from vlib.runner import Part, Result

PROPERTY = "C12"
LEVEL = "exploration"
RULE = (
    "a case is a pool of generated frames + a batch (indices into the pool, any order, repeats allowed) + a model "
    "type (single-instance / top-down with and without crops / centroid-only top-down with ground-truth instances "
    "(0..slots per frame, NaN-padded; none/fewer/equal/more centroids than instances, more than slots) / bottom-up) + max_instances + refinement "
    "+ negative-value class of the pool (no frame / about half of the frames / every frame has values below zero: undershoot ring, dip next to a bump, "
    "negative background offset or zero-symmetric noise; classes neg:none_in_batch / neg:mixed_batch / neg:all_frames_of_batch and neg=<mode>); the batch "
    "result restricted to each frame is compared with the singleton-batch result; non-trivial = batch size >= 2 "
    "containing an empty and a non-empty frame, or frames with different instance counts (single-instance: different numbers of detected nodes); "
    "one part per model kind so that every kind gets a fixed share of the budget"
)
ASSUMPTIONS = [
    "networks are per-sample pure (IdentityNet), like a CNN in eval mode; batch-norm statistics in train mode are outside the property",
    "bottom-up max_instances is applied when sio.Labels are built: part 'bottomup-labels' drives the real "
    "_make_labeled_frames_from_generator with generated result dicts; because sleap-io 0.9.2 renamed the "
    "PredictedInstance.from_numpy keywords, a keyword-translating wrapper is installed for the duration of the call only "
    "when the old names are rejected (class label shim_sio_from_numpy)",
    "topdown-gt: a frame in which a detected centroid is (within 1e-3 relative) equally near to two ground-truth instances is "
    "not judged on its matched instances (class gt:near_tie_not_judged; the nearest-instance choice may flip with float noise); "
    "frames without any ground-truth instance (all-NaN slots) are included although LabelsReader cannot emit them (class gt:frame_without_gt)",
    "tolerance 1e-5 on coordinates/values (float32 kernels may tile differently for different batch sizes); measured on the unchanged tree "
    "(4 seeds x 120 cases x 5 model kinds, with the negative-value classes): batch and singleton results were bit-identical, so the tolerance "
    "(<= 4e-4 px at coordinate 40) was left as it is - lifting all 5x5 patches of a batch by 0.01 already moves a refined peak that lies 0.1 px off its cell centre by about 5e-3 px",
    "negative values are kept small against the bumps (ring <= 35 % of its bump, dip <= 0.2, offset >= -0.1, noise >= -0.05; bump amplitudes >= 0.5) so that "
    "every bump stays the strict local maximum above the 0.2 threshold and refinement patches keep a positive sum; the top-k oracle takes its "
    "brute-force peaks from the same (negative-valued) map, so it needs no further assumption",
    "after a value mismatch only, the batch is re-run with the other frames clamped at zero to name the bucket "
    "(':through-negative-values-of-batch-mates'); the verdict never depends on that diagnostic run",
]
TOL = 1e-5


def make_frame(fr, c, h, w):
    """Bumps with positive amplitude are max-composed.  Negative values (what the linear output of a real network
    has: undershoot around a peak, background below zero), all optional so that older cases still build:
    bump entries with NEGATIVE amplitude are min-composed and added on top (a wide one centred on a bump = undershoot
    ring, a narrow one next to a bump = dip); `offset` is added to every pixel; `noise_sym` draws the noise from
    (-noise, noise) instead of (0, noise)."""
    import numpy as np

    yy, xx = np.mgrid[0:h, 0:w].astype(np.float64)
    img = np.zeros((c, h, w))
    neg = np.zeros((c, h, w))
    for ch, x, y, amp, sig in fr["bumps"]:
        g = amp * np.exp(-((xx - x) ** 2 + (yy - y) ** 2) / (2 * sig**2))
        if amp >= 0:
            img[ch % c] = np.maximum(img[ch % c], g)
        else:
            neg[ch % c] = np.minimum(neg[ch % c], g)
    rs = np.random.RandomState(fr["noise_seed"])
    lo = -fr["noise"] if fr.get("noise_sym") else 0
    img = img + neg + fr.get("offset", 0.0) + rs.uniform(lo, fr["noise"], size=img.shape)
    return img.astype(np.float32)


# negative-value classes of a frame (see make_frame).  Depths are small against the bump amplitudes (>= 0.5): a ring
# takes at most 35 % off its own bump (peak >= 0.325 > threshold 0.2) and is monotone up to 2.5 sigma, a dip of depth
# <= 0.2 two or three pixels away lowers the bump centre by < 0.03 and its near neighbour by more: the bump stays the
# strict local maximum, nothing new rises above the threshold, and the 5x5 refinement patches keep a clearly positive sum.
NEG_MODES = ("ring", "dip", "offset", "noise")


def _add_negatives(draw, mode, bumps, w, h, cm_channels):
    """Frame-level extras (dict to merge into the frame spec) of negative class `mode`; ring/dip entries are appended
    to `bumps` for bumps in confidence-map channels (< cm_channels; PAF channels are signed anyway)."""
    from hypothesis import strategies as st

    extra = {"neg_mode": mode}
    if mode == "ring":
        q = draw(st.sampled_from([0.35, 0.2, 0.35, 0.1]))
        for ch, x, y, amp, sig in list(bumps):
            if amp > 0 and ch < cm_channels and draw(st.integers(0, 3)) > 0:
                bumps.append([ch, x, y, -q * amp, 2.0 * sig])
    elif mode == "dip":
        for ch, x, y, amp, sig in list(bumps):
            if amp > 0 and ch < cm_channels and draw(st.integers(0, 3)) > 0:
                dx, dy = draw(st.sampled_from([(2, 0), (-2, 0), (0, 2), (0, -2), (2, 2), (-2, 2), (2, -2), (-2, -2), (3, 0), (0, -3), (3, 1), (-1, 3)]))
                bumps.append([ch, x + dx, y + dy, -draw(st.sampled_from([0.05, 0.1, 0.2])), 1.0])
    elif mode == "offset":
        extra["offset"] = -draw(st.sampled_from([0.02, 0.05, 0.1]))
    elif mode == "noise":
        extra["noise_sym"] = True
    return extra


def _draw_neg_mode(draw, pool_cls):
    """pool_cls 'nonneg': no frame has negative values (the maps of an ideal renderer); 'some': about half of the
    frames do, so that batches mix both; 'all': every frame does."""
    from hypothesis import strategies as st

    if pool_cls == "nonneg":
        return None
    return draw(st.sampled_from(NEG_MODES + ((None,) * 4 if pool_cls == "some" else ())))


def local_peaks(m, thr):
    """Brute-force strict 8-neighbour local maxima above thr of a 2-D array -> [(x,y,v)]."""
    h, w = m.shape
    out = []
    for y in range(h):
        for x in range(w):
            v = m[y, x]
            if not v > thr:
                continue
            ok = True
            for dy in (-1, 0, 1):
                for dx in (-1, 0, 1):
                    if (dy or dx) and 0 <= y + dy < h and 0 <= x + dx < w and not v > m[y + dy, x + dx]:
                        ok = False
            if ok:
                out.append((x, y, float(v)))
    return out


def _inputs(case, frames, idxs):
    import torch

    imgs = torch.stack([torch.from_numpy(frames[i]) for i in idxs], 0).unsqueeze(1)  # (B,1,C,H,W)
    meta = case["meta"]
    return {
        "image": imgs,
        "frame_idx": torch.tensor([meta[i][0] for i in idxs], dtype=torch.int32),
        "video_idx": torch.tensor([meta[i][1] for i in idxs], dtype=torch.int32),
        "orig_size": torch.tensor([[case["h"], case["w"]]] * len(idxs), dtype=torch.float32),
        "eff_scale": torch.tensor([meta[i][2] for i in idxs], dtype=torch.float32),
    }


def _close(a, b):
    import numpy as np

    a, b = np.asarray(a, dtype=np.float64), np.asarray(b, dtype=np.float64)
    if a.shape != b.shape:
        return False
    return bool(np.all((np.isnan(a) & np.isnan(b)) | (np.abs(a - b) <= TOL * (1 + np.abs(b)))))


def _strip_nan_rows(pts, *others):
    """Drop instance rows that are entirely NaN (padding)."""
    import numpy as np

    pts = np.asarray(pts, dtype=np.float64)
    keep = ~np.isnan(pts.reshape(pts.shape[0], -1)).all(axis=1) if pts.size else np.zeros((0,), bool)
    return [pts[keep]] + [np.asarray(o, dtype=np.float64)[keep] for o in others]


def _sorted_rows(pts, *others):
    import numpy as np

    if len(pts) == 0:
        return [pts] + list(others)
    key = np.nan_to_num(pts.reshape(len(pts), -1), nan=-1.0)
    order = np.lexsort(key.T[::-1])
    return [pts[order]] + [o[order] for o in others]


# ----------------------------------------------------------------------------------


def run_single(case, frames, idxs):
    from sleap_nn.inference.single_instance import SingleInstanceInferenceModel
    from vlib.nets import IdentityNet

    m = SingleInstanceInferenceModel(
        torch_model=IdentityNet(stride=case["stride"]), output_stride=case["stride"], peak_threshold=case["thr"],
        refinement=case["refinement"], integral_patch_size=5, input_scale=1.0,
    )
    out = m(_inputs(case, frames, idxs))[0]
    recs = []
    for j in range(len(idxs)):
        recs.append({
            "frame_idx": int(out["frame_idx"][j]), "video_idx": int(out["video_idx"][j]),
            "orig_size": out["orig_size"][j].tolist(),
            "peaks": out["pred_instance_peaks"][j].numpy()[None], "vals": out["pred_peak_values"][j].numpy()[None],
        })
    return recs


def run_topdown(case, frames, idxs):
    import numpy as np
    from sleap_nn.inference.topdown import CentroidCrop, FindInstancePeaks, TopDownInferenceModel
    from vlib.nets import IdentityNet

    cc = CentroidCrop(
        torch_model=IdentityNet(stride=case["stride"], channels=[0]), output_stride=case["stride"], peak_threshold=case["thr"],
        max_instances=case["max_instances"], refinement=case["refinement"], integral_patch_size=5, return_crops=True,
        crop_hw=[case["crop"], case["crop"]], input_scale=1.0, precrop_resize=1.0, max_stride=1,
    )
    fp = FindInstancePeaks(
        torch_model=IdentityNet(stride=case["stride"]), output_stride=case["stride"], peak_threshold=case["thr"],
        refinement=case["refinement"], integral_patch_size=5, input_scale=1.0, max_stride=1,
    )
    m = TopDownInferenceModel(centroid_crop=cc, instance_peaks=fp)
    out = m(_inputs(case, frames, idxs))
    by_pos = {}
    if out is not None:
        for o in out:
            fi, vi = int(o["frame_idx"][0]), int(o["video_idx"][0])
            if not (np.all(o["frame_idx"].numpy() == fi) and np.all(o["video_idx"].numpy() == vi)):
                raise AssertionError("mixed frame indices inside one top-down record")
            peaks = o["pred_instance_peaks"].numpy() + o["instance_bbox"].numpy()[:, 0, 0][:, None, :]
            by_pos.setdefault((fi, vi), []).append(
                {"peaks": peaks, "vals": o["pred_peak_values"].numpy(), "cvals": o["centroid_val"].numpy(), "orig_size": o["orig_size"].numpy().reshape(-1).tolist()[:2]}
            )
    return by_pos


def run_centroids_only(case, frames, idxs):
    from sleap_nn.inference.topdown import CentroidCrop
    from vlib.nets import IdentityNet

    cc = CentroidCrop(
        torch_model=IdentityNet(stride=case["stride"], channels=[0]), output_stride=case["stride"], peak_threshold=case["thr"],
        max_instances=case["max_instances"], refinement=case["refinement"], integral_patch_size=5, return_crops=False,
        crop_hw=[case["crop"], case["crop"]], input_scale=1.0, max_stride=1,
    )
    out = cc(_inputs(case, frames, idxs))
    recs = []
    for j in range(len(idxs)):
        recs.append({
            "frame_idx": int(out["frame_idx"][j]), "video_idx": int(out["video_idx"][j]), "orig_size": out["orig_size"][j].tolist(),
            "peaks": out["centroids"][j, 0].numpy()[:, None, :], "vals": out["centroid_vals"][j].numpy()[:, None],
        })
    return recs


def _gt_tensor(case, idxs):
    """`instances` as `_predict_generator` batches them: (B, 1, slots, n_nodes, 2), every frame NaN-padded to the
    pool-wide number of instance slots (LabelsReader: max #instances of any labelled frame), multiplied by the
    frame's eff_scale."""
    import numpy as np
    import torch

    k, n = case["gt_slots"], case["n_nodes"]
    arr = np.full((len(idxs), 1, k, n, 2), np.nan, dtype=np.float32)
    for j, i in enumerate(idxs):
        for a, inst in enumerate(case["gt"][i]):
            for nd, p in enumerate(inst):
                if p is not None:
                    arr[j, 0, a, nd] = [p[0] * case["meta"][i][2], p[1] * case["meta"][i][2]]
    return torch.from_numpy(arr)


def run_topdown_gt(case, frames, idxs):
    """The centroid-only top-down model `TopDownPredictor` builds when no centered-instance checkpoint is given."""
    import numpy as np
    from sleap_nn.inference.topdown import CentroidCrop, FindInstancePeaksGroundTruth, TopDownInferenceModel
    from vlib.nets import IdentityNet

    cc = CentroidCrop(
        torch_model=IdentityNet(stride=case["stride"], channels=[0]), output_stride=case["stride"], peak_threshold=case["thr"],
        max_instances=case["max_instances"], refinement=case["refinement"], integral_patch_size=5, return_crops=False,
        crop_hw=[case["crop"], case["crop"]], input_scale=1.0, max_stride=1, use_gt_centroids=False,
    )
    m = TopDownInferenceModel(centroid_crop=cc, instance_peaks=FindInstancePeaksGroundTruth())
    inp = _inputs(case, frames, idxs)
    inp["instances"] = _gt_tensor(case, idxs)
    outs = m(inp)
    if not isinstance(outs, list) or len(outs) != 1:
        raise AssertionError(f"centroid-only top-down model returned {type(outs).__name__} of length {len(outs) if outs is not None else None}")
    out = outs[0]
    b, k, n = len(idxs), case["gt_slots"], case["n_nodes"]
    peaks = out["pred_instance_peaks"].numpy()
    vals = out["pred_peak_values"].numpy()
    # the values come back flattened over (frame, slot); fold them when the size allows, else compare the peaks only
    vals = vals.reshape(b, k, n) if vals.size == b * k * n else None
    recs = []
    for j in range(b):
        recs.append({
            "frame_idx": int(out["frame_idx"][j]), "video_idx": int(out["video_idx"][j]), "orig_size": out["orig_size"][j].tolist(),
            "peaks": peaks[j], "vals": vals[j] if vals is not None else np.zeros(peaks[j].shape[:-1]),
            "cents": out["centroids"][j, 0].numpy()[:, None, :], "cvals": out["centroid_vals"][j].numpy()[:, None],
        })
    return recs


def _gt_ambiguous(case, fi, cents):
    """True if some detected centroid of pool frame fi has two ground-truth instances (nearly) equally near: which one
    is matched may then legitimately flip with float noise, so the frame is not judged.  Distance as documented:
    centroid to the nearest visible node of the instance (instances as batched, i.e. times eff_scale)."""
    import numpy as np

    eff = case["meta"][fi][2]
    for cx, cy in np.asarray(cents, dtype=np.float64).reshape(-1, 2):
        if math.isnan(cx) or math.isnan(cy):
            continue
        ds = []
        for inst in case["gt"][fi]:
            d = [math.hypot(p[0] * eff - cx, p[1] * eff - cy) for p in inst if p is not None]
            if d:
                ds.append(min(d))
        ds.sort()
        if len(ds) >= 2 and ds[1] - ds[0] < 1e-3 * (1 + ds[0]):
            return True
    return False


def run_bottomup(case, frames, idxs):
    from sleap_nn.inference.bottomup import BottomUpInferenceModel
    from sleap_nn.inference.paf_grouping import PAFScorer
    from vlib.nets import IdentityNet

    n = case["n_nodes"]
    names = [f"n{i}" for i in range(n)]
    edges = [(names[i], names[i + 1]) for i in range(n - 1)]
    heads = {
        "MultiInstanceConfmapsHead": (slice(0, n), case["stride"]),
        "PartAffinityFieldsHead": (slice(n, n + 2 * (n - 1)), case["paf_stride"]),
    }
    scorer = PAFScorer(part_names=names, edges=edges, pafs_stride=case["paf_stride"], min_line_scores=-1.0,
                       max_edge_length_ratio=case.get("edge_ratio", 2.0))
    m = BottomUpInferenceModel(
        torch_model=IdentityNet(heads=heads), paf_scorer=scorer, cms_output_stride=case["stride"], pafs_output_stride=case["paf_stride"],
        peak_threshold=case["thr"], refinement=case["refinement"], integral_patch_size=5, input_scale=1.0,
    )
    out = m(_inputs(case, frames, idxs))[0]
    recs = []
    for j in range(len(idxs)):
        recs.append({
            "frame_idx": int(out["frame_idx"][j]), "video_idx": int(out["video_idx"][j]), "orig_size": out["orig_size"][j].tolist(),
            "peaks": out["pred_instance_peaks"][j].numpy(), "vals": out["pred_peak_values"][j].numpy(),
            "scores": out["instance_scores"][j].numpy(),
        })
    return recs


def evaluate(case):
    import numpy as np

    res = Result()
    model = case["model"]
    c = case["channels"]
    frames = [make_frame(fr, c, case["h"], case["w"]) for fr in case["frames"]]
    batch = case["batch"]
    res.cls(f"model={model}", f"B={min(len(batch), 5)}{'+' if len(batch) > 5 else ''}", f"refine={case['refinement']}", f"k={case['max_instances']}")
    # negative-value class of the batch, from the maps themselves (not from the generator's intent)
    fmin = [float(f.min()) for f in frames]
    members = sorted(set(batch))
    neg_members = [fi for fi in members if fmin[fi] < 0]
    res.cls("neg:none_in_batch" if not neg_members else "neg:all_frames_of_batch" if len(neg_members) == len(members) else "neg:mixed_batch")
    res.cls(*sorted({f"neg={case['frames'][fi].get('neg_mode', 'unlabelled')}" for fi in neg_members}))
    res.n_evals = 0
    runfn = {"single": run_single, "centroids": run_centroids_only, "bottomup": run_bottomup, "topdown-gt": run_topdown_gt}.get(model)

    hooks = {}  # set per model kind below: "rerun": frames -> output for the whole batch; "view": (output, pos, fi) -> record of that frame
    probes = {}

    def through_negatives(pos, fi, ref, pick):
        """Diagnostic for the bucket key, run only after a value mismatch (so never on a healthy tree): the batch is
        run once more with every OTHER frame's maps clamped at zero.  If the frame then equals its singleton result, the
        dependence goes through values below zero of its batch-mates - a root cause of its own (something computed over
        the whole batch from an undershoot), apart from leaks that also happen between non-negative maps."""
        if not any(fmin[fj] < 0 for fj in batch if fj != fi):
            return False
        if fi not in probes:
            try:
                probes[fi] = hooks["rerun"]([f if j == fi else np.maximum(f, 0) for j, f in enumerate(frames)])
            except Exception:  # noqa: BLE001 - diagnostic only, the mismatch itself is reported either way
                probes[fi] = None
        if probes[fi] is None:
            return False
        try:
            g2 = pick(hooks["view"](probes[fi], pos, fi))
        except Exception:  # noqa: BLE001
            return False
        gp, gv = _sorted_rows(*_strip_nan_rows(g2["peaks"], g2["vals"]))
        rp, rv = _sorted_rows(*_strip_nan_rows(ref["peaks"], ref["vals"]))
        return gp.shape == rp.shape and _close(gp, rp) and _close(gv, rv)

    def cmp_record(tag, pos, fi, got, ref, model=model, pick=lambda rec: rec):
        """compare one frame's records: got (from the batch) vs ref (singleton); pick maps a frame record to the
        {"peaks", "vals"} under comparison (used by the diagnostic re-run)."""
        if "scores" in got and "scores" in ref and len(got["scores"]) == len(got["peaks"]) and len(ref["scores"]) == len(ref["peaks"]):
            # bottom-up: the instance score travels with its instance
            gp, gv, gs = _strip_nan_rows(got["peaks"], got["vals"], got["scores"])
            rp, rv, rs = _strip_nan_rows(ref["peaks"], ref["vals"], ref["scores"])
            gp, gv, gs = _sorted_rows(gp, gv, gs)
            rp, rv, rs = _sorted_rows(rp, rv, rs)
            if gp.shape == rp.shape and _close(gp, rp) and not _close(gs, rs):
                res.fail(f"{model}:batch-dependence:instance-scores", f"{tag}: frame pool[{fi}] at batch position {pos}: instance scores {np.round(gs, 4).tolist()} in the batch vs {np.round(rs, 4).tolist()} alone; batch size {len(batch)}")
        gp, gv = _strip_nan_rows(got["peaks"], got["vals"])
        rp, rv = _strip_nan_rows(ref["peaks"], ref["vals"])
        gp, gv = _sorted_rows(gp, gv)
        rp, rv = _sorted_rows(rp, rv)
        res.n_evals += 1
        if gp.shape != rp.shape:
            res.fail(f"{model}:batch-dependence:instance-count", f"{tag}: frame pool[{fi}] at batch position {pos}: {gp.shape[0]} instances in the batch vs {rp.shape[0]} alone; batch={batch}")
        elif not (_close(gp, rp) and _close(gv, rv)):
            negmate = ":through-negative-values-of-batch-mates" if through_negatives(pos, fi, ref, pick) else ""
            res.fail(f"{model}:batch-dependence:values{negmate}", f"{tag}: frame pool[{fi}] at batch position {pos}: batch result {np.round(gp, 3).tolist()} vs alone {np.round(rp, 3).tolist()}; batch={batch}; refinement={case['refinement']}; minimum value of each batch frame {[round(fmin[fj], 3) for fj in batch]}")

    counts = []
    gt_rel = set()
    if model in ("single", "centroids", "bottomup", "topdown-gt"):
        got = runner.guarded(res, f"{model}:batch", runfn, case, frames, batch)
        if got is runner.FAILED:
            return res
        hooks["rerun"] = lambda fr2: runfn(case, fr2, batch)
        hooks["view"] = lambda out2, pos2, fi2: out2[pos2]
        alone = {}  # pool index -> record of the singleton batch (a frame may occur several times in the batch)
        for pos, fi in enumerate(batch):
            if fi not in alone:
                ref = runner.guarded(res, f"{model}:single", runfn, case, frames, [fi])
                if ref is runner.FAILED:
                    return res
                alone[fi] = ref[0]
            ref = alone[fi]
            g = got[pos]
            meta = case["meta"][fi]
            if (g["frame_idx"], g["video_idx"]) != (meta[0], meta[1]) or [int(v) for v in g["orig_size"]] != [case["h"], case["w"]]:
                res.fail(f"{model}:wrong-indices", f"record at position {pos} carries frame {g['frame_idx']} video {g['video_idx']}, expected {meta[:2]}")
            if model == "topdown-gt":
                # the detected centroids the record carries, then the ground-truth instances matched to them
                cents = lambda rec: {"peaks": rec["cents"], "vals": rec["cvals"]}  # noqa: E731
                cmp_record("centroids", pos, fi, cents(g), cents(ref), model="topdown-gt:centroids", pick=cents)
                n_cent = _strip_nan_rows(ref["cents"], ref["cvals"])[0].shape[0]
                n_gt, slots = len(case["gt"][fi]), case["gt_slots"]
                gt_rel.add("gt:cent<gt" if n_cent < n_gt else "gt:cent=gt" if n_cent == n_gt else "gt:cent>gt")
                if n_cent == 0:
                    gt_rel.add("gt:frame_without_centroids")
                if n_gt == 0:
                    gt_rel.add("gt:frame_without_gt")
                if n_gt > 0 and n_cent > slots:
                    gt_rel.add("gt:cent>slots")
                    if any(len(case["gt"][fj]) > 0 for fj in batch[pos + 1:]):
                        gt_rel.add("gt:cent>slots_then_labelled_frame")
                if _gt_ambiguous(case, fi, ref["cents"]):
                    gt_rel.add("gt:near_tie_not_judged")
                else:
                    cmp_record("matched ground truth", pos, fi, g, ref)
            else:
                cmp_record("", pos, fi, g, ref)
            n_inst = _strip_nan_rows(ref["peaks"], ref["vals"])[0].shape[0]
            if model == "single":  # one instance by construction: what varies between frames is the number of nodes found
                n_inst = int(np.sum(~np.isnan(np.asarray(ref["peaks"], dtype=np.float64)).any(axis=-1)))
            counts.append(n_inst)
            if model in ("centroids", "topdown-gt"):
                # top-k oracle on the centroid map of this frame
                cm = frames[fi][0][:: case["stride"], :: case["stride"]]
                pk = sorted((v for _, _, v in local_peaks(cm, case["thr"])), reverse=True)
                k = case["max_instances"]
                exp = pk if k is None else pk[:k]
                gc = (g["cents"], g["cvals"]) if model == "topdown-gt" else (g["peaks"], g["vals"])
                gv = sorted([float(v) for v in _strip_nan_rows(*gc)[1].reshape(-1)], reverse=True)
                if len(gv) != len(exp) or any(abs(a - b) > 1e-6 for a, b in zip(gv, exp)):
                    res.fail(f"{model}:top-k", f"frame pool[{fi}]: kept centroid values {np.round(gv, 4).tolist()}, expected the {k} highest of {np.round(pk, 4).tolist()}")
    else:  # topdown with crops: records are keyed by the indices they carry
        # give every pool frame unique (frame_idx, video_idx): guaranteed by the generator
        if len(set(batch)) != len(batch):
            batch = list(dict.fromkeys(batch))  # duplicates would merge under the same key
        got = runner.guarded(res, "topdown:batch", run_topdown, case, frames, batch)
        if got is runner.FAILED:
            return res
        known = {(case["meta"][fi][0], case["meta"][fi][1]): fi for fi in batch}
        cat = lambda recs, f: (np.concatenate([x[f] for x in recs], 0) if recs else np.zeros((0, c, 2) if f == "peaks" else (0, c)))  # noqa: E731
        hooks["rerun"] = lambda fr2: run_topdown(case, fr2, batch)
        hooks["view"] = lambda out2, pos2, fi2: (lambda recs: {"peaks": cat(recs, "peaks"), "vals": cat(recs, "vals")})(out2.get((case["meta"][fi2][0], case["meta"][fi2][1]), []))
        for key in got:
            if key not in known:
                res.fail("topdown:wrong-indices", f"record carries (frame, video) {key}, not in the batch {sorted(known)}")
        for pos, fi in enumerate(batch):
            key = (case["meta"][fi][0], case["meta"][fi][1])
            ref = runner.guarded(res, "topdown:single", run_topdown, case, frames, [fi])
            if ref is runner.FAILED:
                return res
            r = ref.get(key, [])
            g = got.get(key, [])
            rr = {"peaks": cat(r, "peaks"), "vals": cat(r, "vals")}
            gg = {"peaks": cat(g, "peaks"), "vals": cat(g, "vals")}
            if len(g) > 1:
                res.fail("topdown:frame-split", f"frame pool[{fi}] appears in {len(g)} separate records")
            cmp_record("crops", pos, fi, gg, rr)
            counts.append(rr["peaks"].shape[0])
            # top-k on the kept centroid values
            cm = frames[fi][0][:: case["stride"], :: case["stride"]]
            pk = sorted((v for _, _, v in local_peaks(cm, case["thr"])), reverse=True)
            k = case["max_instances"]
            exp = pk if k is None else pk[:k]
            gv = sorted([float(v) for x in g for v in x["cvals"].reshape(-1)], reverse=True)
            if len(gv) != len(exp) or any(abs(a - b) > 1e-6 for a, b in zip(gv, exp)):
                res.fail("topdown:top-k", f"frame pool[{fi}]: kept centroid values {np.round(gv, 4).tolist()}, expected the {k} highest of {np.round(pk, 4).tolist()}")
            for x in g:
                if [int(v) for v in x["orig_size"]] != [case["h"], case["w"]]:
                    res.fail("topdown:wrong-indices", f"orig_size {x['orig_size']} for frame pool[{fi}]")
    res.nontrivial = len(batch) >= 2 and ((0 in counts and any(n > 0 for n in counts)) or len(set(counts)) > 1)
    res.cls(*sorted(gt_rel))
    if 0 in counts:
        res.cls("has_empty_frame")
    if counts and all(n == 0 for n in counts):
        res.cls("all_empty")
    res.n_evals = max(1, res.n_evals)
    return res


def evaluate_topk(case):
    """Bottom-up `max_instances` is applied while `sio.Labels` are built: drive the real
    `BottomUpPredictor._make_labeled_frames_from_generator` with generated result dicts."""
    import numpy as np
    import sleap_io as sio
    from sleap_nn.inference.predictors import BottomUpPredictor

    res = Result()
    n = case["n_nodes"]
    skel = sio.Skeleton(nodes=[f"n{i}" for i in range(n)])
    videos = [sio.Video(filename=f"v{i}.mp4", open_backend=False) for i in range(3)]
    pred = BottomUpPredictor()
    pred.skeletons, pred.videos, pred.max_instances, pred.tracker = [skel], videos, case["max_instances"], None
    exs = []
    for b in case["batches"]:
        exs.append({
            "video_idx": np.array([f["video_idx"] for f in b]), "frame_idx": np.array([f["frame_idx"] for f in b]),
            "pred_instance_peaks": [np.array([[[np.nan, np.nan]] * n if inst["allnan"] else [[inst["x"] + j, inst["y"]] for j in range(n)] for inst in f["insts"]], dtype=np.float64).reshape(-1, n, 2) for f in b],
            "pred_peak_values": [np.full((len(f["insts"]), n), 0.5) for f in b],
            "instance_scores": [np.array([inst["score"] for inst in f["insts"]], dtype=np.float64) for f in b],
        })
    # version pairing: sleap-io 0.9.2 renamed from_numpy(points=, instance_score=) -> (points_data=, score=)
    orig = sio.PredictedInstance.from_numpy
    shim = False
    try:
        orig(points=np.zeros((n, 2)), skeleton=skel, instance_score=0.1)
    except TypeError:
        shim = True
        f0 = orig.__func__

        def compat(cls, *a, **k):
            if "points" in k:
                k["points_data"] = k.pop("points")
            if "instance_score" in k:
                k["score"] = k.pop("instance_score")
            return f0(cls, *a, **k)

        sio.PredictedInstance.from_numpy = classmethod(compat)
    try:
        labels = runner.guarded(res, "bottomup-labels", pred._make_labeled_frames_from_generator, iter(exs))
    finally:
        if shim:
            sio.PredictedInstance.from_numpy = orig
    res.cls("model=bottomup-labels", f"k={case['max_instances']}", "shim_sio_from_numpy" if shim else "no_shim")
    if labels is runner.FAILED:
        return res
    flat = [f for b in case["batches"] for f in b]
    res.n_evals = len(flat)
    if len(labels.labeled_frames) != len(flat):
        res.fail("bottomup-labels:frame-count", f"{len(labels.labeled_frames)} labeled frames for {len(flat)} input frames")
        return res
    counts = []
    for lf, f in zip(labels.labeled_frames, flat):
        if int(lf.frame_idx) != f["frame_idx"] or labels.videos.index(lf.video) != f["video_idx"]:
            res.fail("bottomup-labels:wrong-indices", f"frame carries ({lf.frame_idx}, video {labels.videos.index(lf.video)}), expected ({f['frame_idx']}, {f['video_idx']})")
        valid = sorted((i["score"] for i in f["insts"] if not i["allnan"]), reverse=True)
        k = case["max_instances"]
        exp = valid if k is None else valid[:k]
        got = sorted((float(i.score) for i in lf.instances), reverse=True)
        counts.append(len(valid))
        if len(got) != len(exp) or any(abs(a - b) > 1e-9 for a, b in zip(got, exp)):
            res.fail("bottomup-labels:top-k", f"kept scores {got}, expected the {k} highest of {valid}")
        for inst in lf.instances:
            src = [i for i in f["insts"] if not i["allnan"] and abs(i["score"] - float(inst.score)) < 1e-9 and abs(i["x"] - float(inst.numpy()[0, 0])) < 1e-6]
            if not src:
                res.fail("bottomup-labels:foreign-instance", f"instance with score {inst.score} at {inst.numpy()[0].tolist()} is not one of the frame's instances")
    res.nontrivial = len(flat) >= 2 and len(set(counts)) > 1 and case["max_instances"] is not None and any(c > case["max_instances"] for c in counts)
    return res


def strategy_topk():
    from hypothesis import strategies as st

    @st.composite
    def case(draw):
        n = draw(st.integers(1, 3))
        k = draw(st.sampled_from([None, 1, 2, 3]))
        batches = []
        fidx = 0
        for _ in range(draw(st.integers(1, 3))):
            b = []
            for _ in range(draw(st.integers(1, 3))):
                insts = []
                for j in range(draw(st.integers(0, 5))):
                    insts.append({"x": float(10 * j + draw(st.integers(0, 5))), "y": float(draw(st.integers(0, 50))),
                                  "score": draw(st.sampled_from([0.9, 0.8, 0.7, 0.6, 0.5, 0.4, 0.3])) + 0.001 * j, "allnan": draw(st.integers(0, 5)) == 0})
                fidx += draw(st.integers(1, 4))
                b.append({"video_idx": draw(st.integers(0, 2)), "frame_idx": fidx, "insts": insts})
            batches.append(b)
        return {"n_nodes": n, "max_instances": k, "batches": batches}

    return case()


def _gt_case(refinement, k, pool_cls):
    """Centroid-only top-down ("topdown-gt"): channel 0 of a frame is the centroid map; every frame also has 0..slots
    ground-truth instances (original coordinates; nodes may be invisible).  Per frame the number of centroid bumps is
    drawn relative to its number of ground-truth instances: none / fewer (missed animals) / equal / more (spurious
    centroids) / more than the pool-wide number of instance slots.  Bumps and animals sit in distinct 8x8 cells."""
    from hypothesis import strategies as st

    @st.composite
    def case(draw):
        stride = draw(st.sampled_from([1, 2]))
        n_nodes = draw(st.integers(1, 3))
        h, w = draw(st.sampled_from([(24, 32), (32, 32), (40, 24)]))
        slots = draw(st.sampled_from([1, 2, 2, 3]))
        n_frames = draw(st.sampled_from([3, 2, 4, 5]))
        cells = [(cx, cy) for cy in range(h // 8) for cx in range(w // 8)]
        frames, meta, gt = [], [], []
        for f in range(n_frames):
            eff = draw(st.sampled_from([1.0, 1.0, 0.5, 0.8]))
            n_gt = draw(st.sampled_from(list(range(slots, 0, -1)) * 3 + [0]))
            rel = draw(st.sampled_from(["over", "equal", "more", "over", "fewer", "over", "equal", "none"]))
            n_cent = {"none": 0, "fewer": draw(st.integers(0, max(0, n_gt - 1))), "equal": n_gt, "more": n_gt + draw(st.integers(1, 2)),
                      "over": slots + draw(st.integers(1, 2))}[rel]
            n_pos = max(n_gt, n_cent)
            pos = [(8 * cells[i][0] + draw(st.integers(2, 5)), 8 * cells[i][1] + draw(st.integers(2, 5)))
                   for i in draw(st.lists(st.integers(0, len(cells) - 1), min_size=n_pos, max_size=n_pos, unique=True))]
            bumps = [[0, x, y, draw(st.sampled_from([0.9, 0.8, 0.7, 0.6, 0.5])), draw(st.sampled_from([1.0, 1.5]))] for x, y in pos[:n_cent]]
            insts = []
            for x, y in pos[:n_gt]:  # animal a sits at position a: detected if a < n_cent, else missed
                inst = []
                for nd in range(n_nodes):
                    vis = nd == 0 or draw(st.integers(0, 3)) > 0
                    inst.append([(x + 3 * nd + draw(st.integers(-1, 1))) / eff, (y + draw(st.integers(-1, 1))) / eff] if vis else None)
                if n_nodes > 1 and draw(st.integers(0, 5)) == 0:
                    inst[0] = None  # first node invisible, another one is visible
                    if all(p is None for p in inst):
                        inst[-1] = [(x + 3) / eff, y / eff]
                insts.append(inst)
            if draw(st.booleans()):
                # the order of the labelled instances is not the order of the centroids
                insts = list(draw(st.permutations(insts)))
            mode = _draw_neg_mode(draw, pool_cls)
            extra = _add_negatives(draw, mode, bumps, w, h, 1) if mode else {}
            frames.append({"bumps": bumps, "noise": draw(st.sampled_from([0.01, 0.05, 0.05] if mode == "noise" else [0.0, 0.01, 0.05])),
                           "noise_seed": draw(st.integers(0, 10**6)), **extra})
            meta.append([draw(st.integers(0, 50)) * 10 + f, draw(st.integers(0, 2)), eff])
            gt.append(insts)
        blen = 1 if draw(st.integers(0, 9)) == 9 else draw(st.sampled_from([3, 2, 4, 5]))
        batch = draw(st.lists(st.integers(0, n_frames - 1), min_size=blen, max_size=blen))
        return {
            "model": "topdown-gt", "refinement": refinement, "max_instances": k, "stride": stride, "paf_stride": 1,
            "n_nodes": n_nodes, "channels": 1, "h": h, "w": w, "thr": 0.2, "crop": 8,
            "frames": frames, "meta": meta, "batch": batch, "edge_ratio": 2.0, "gt": gt, "gt_slots": slots,
        }

    return case()


MODELS = ("single", "centroids", "topdown", "bottomup", "topdown-gt")


def strategy(model):
    """Cases of one model kind.  One part per kind: Hypothesis mutates earlier examples keeping their first draws, so a
    kind drawn inside the strategy arrives in clusters and a quick run can get a third of its fair share of one kind."""
    from hypothesis import strategies as st

    @st.composite
    def case(draw):
        # one joint choice (independent draws pair up lumpily): refinement x max_instances x negative-value class of the pool
        refinement, k, pool_cls = draw(
            st.sampled_from(
                [(r, kk, pc) for r in (None, "integral")
                 for kk in ((None, 1, 2, 3) if model in ("centroids", "topdown") else (None, 4, 2) if model == "topdown-gt" else (None,))
                 for pc in ("nonneg", "some", "some", "all")]
            )
        )
        if model == "topdown-gt":
            return draw(_gt_case(refinement, k, pool_cls))
        stride = draw(st.sampled_from([1, 2]))
        n_nodes = draw(st.integers(2, 3))
        channels = n_nodes if model != "bottomup" else n_nodes + 2 * (n_nodes - 1)
        # bottom-up "long batch" class (see below): more frames in the batch than PAF rows/columns, which needs small frames and PAF stride 2
        long_batch = model == "bottomup" and draw(st.booleans())
        h, w = (16, 24) if long_batch else draw(st.sampled_from([(24, 32), (32, 32), (40, 24)] + ([(16, 24), (16, 24)] if model == "bottomup" else [])))
        n_frames = draw(st.integers(2, 6))
        frames, meta = [], []
        for f in range(n_frames):
            kind = draw(st.sampled_from(["empty", "one", "one", "few", "few", "many"]))
            nb = {"empty": 0, "one": 1, "few": draw(st.integers(2, 3)), "many": draw(st.integers(3, 5))}[kind]
            bumps = []
            for _ in range(nb):
                x, y = draw(st.integers(3, w - 4)), draw(st.integers(3, h - 4))
                amp = draw(st.sampled_from([0.9, 0.8, 0.7, 0.6, 0.5]))
                if model == "bottomup":
                    # an "animal": bump in every node channel along a short horizontal line + constant PAF along x
                    # node spacing: 4 px, or (long batches) 7 px = longer than the distance-penalty threshold of the small-ratio scorer
                    sp = draw(st.sampled_from([4, 7])) if long_batch else 4
                    for n in range(n_nodes):
                        if draw(st.integers(0, 4)) == 0:
                            continue  # node not visible: its neighbours may connect across animals (long, penalised candidates)
                        bumps.append([n, min(w - 2, x + sp * n), y, amp, 1.2])
                    for e in range(n_nodes - 1):  # x-component of the PAF of edge e between its two nodes
                        bumps.append([n_nodes + 2 * e, min(w - 2, x + sp * e + sp // 2), y, 0.9, 3.0])
                else:
                    for ch in range(channels if model != "centroids" else 1):
                        if ch > 0 and draw(st.integers(0, 2)) == 0:
                            continue  # this node is not visible for this animal (channel may stay below threshold)
                        bumps.append([ch, x + draw(st.integers(-2, 2)), y + draw(st.integers(-2, 2)), amp, draw(st.sampled_from([1.0, 1.5]))])
            mode = _draw_neg_mode(draw, pool_cls)
            extra = _add_negatives(draw, mode, bumps, w, h, n_nodes if model == "bottomup" else channels) if mode else {}
            frames.append({"bumps": bumps, "noise": draw(st.sampled_from([0.01, 0.05, 0.05] if mode == "noise" else [0.0, 0.01, 0.05])),
                           "noise_seed": draw(st.integers(0, 10**6)), **extra})
            meta.append([draw(st.integers(0, 50)) * 10 + f, draw(st.integers(0, 2)), draw(st.sampled_from([1.0, 0.5, 0.8]))])
        batch = draw(st.lists(st.integers(0, n_frames - 1), min_size=1 if draw(st.integers(0, 5)) == 0 else 2, max_size=6))
        edge_ratio = 2.0
        if long_batch:
            # long batches of small frames (more frames than PAF rows/columns) with a small distance-penalty ratio:
            # whatever is derived from tensor shapes must not pick up the batch dimension
            edge_ratio = 0.25
            batch = draw(st.lists(st.integers(0, n_frames - 1), min_size=14, max_size=22))
        return {
            "model": model, "refinement": refinement, "max_instances": k, "stride": stride, "paf_stride": 2 if long_batch else draw(st.sampled_from([1, 2])),
            "n_nodes": n_nodes, "channels": channels, "h": h, "w": w, "thr": 0.2, "crop": draw(st.sampled_from([8, 12])),
            "frames": frames, "meta": meta, "batch": batch, "edge_ratio": edge_ratio,
        }

    return case()


def summarize(case):
    return {k: case[k] for k in ("model", "refinement", "max_instances", "stride", "n_nodes", "h", "w", "batch", "meta")} | {
        "frames(n_bumps)": [len(f["bumps"]) for f in case["frames"]]
    } | ({"gt_slots": case["gt_slots"], "frames(n_gt)": [len(g) for g in case["gt"]]} if "gt" in case else {})


def parts(tier):
    import functools

    w = {"single": 1, "centroids": 1, "topdown": 2, "bottomup": 1, "topdown-gt": 1}
    floor = {"single": 6, "centroids": 10, "topdown": 20, "bottomup": 15, "topdown-gt": 8}  # about a third of the lowest count measured over seeds
    return [
        Part(name=f"batches-{m}", evaluate=evaluate, strategy=functools.partial(strategy, m), summarize=summarize,
             budget={"quick": 80 * w[m], "thorough": 30000 * w[m]}, min_nontrivial={"quick": floor[m], "thorough": 1000 * w[m]})
        for m in MODELS
    ] + [
        Part(name="bottomup-labels", evaluate=evaluate_topk, strategy=strategy_topk,
             budget={"quick": 300, "thorough": 120000}, min_nontrivial={"quick": 30, "thorough": 4000}),
    ]


if __name__ == "__main__":
    runner.main(__name__)
