"""C02 - single-instance and top-down inference return original-image coordinates.

The REAL predictor classes (`SingleInstancePredictor`, `TopDownPredictor`: attrs classes
constructed directly with fake networks + OmegaConf configs, then the real
`_initialize_inference_model()`, `make_pipeline(provider, path)` on real PNG / .slp files
and `predict(make_labels=False)`) are driven with *ideal networks that are pure functions
of the image they are given* (`vlib.nets.RampNet`: frames are coordinate-encoding RGB
images R=x, G=y, B=validity/frame-id, so at every output cell the network decodes the
ORIGINAL coordinate of the content it sees and emits the ideal Gaussian map of the ground
truth; for 1-channel pipelines `IdentityNet` on Gaussian-blob frames).  Any disagreement
between how the code transforms *images* (size matching, scaling, stride padding, cropping)
and how it back-transforms *coordinates* becomes a coordinate error.

Oracle: every visible ground-truth keypoint is returned within
  tol = (0.5*stride + 0.5*|1-s_stage| ) / s_total + rounding slack + 0.05   original px
(s_total = stage input scale x eff_scale; the |1-s| term is the half-pixel-centre
convention of image resizing versus `points*scale`, shared with the training pipeline;
rounding slack = the exact integer-rounding error of the resize target sizes, computed per
case; at scale 1 without size matching the bound is the property's bare half cell);
invisible keypoints are NaN with value 0; the set of predicted instances per frame matches
the ground-truth animals; LabelsReader and VideoReader give equal outputs (1e-4).
"""

import math
import os
import shutil

from vlib import env, runner, synth
from vlib.runner import Part, Result

PROPERTY = "C02"
LEVEL = "exploration"
RULE = (
    "a case is a scene (1 animal single-instance / 1..4 separated animals top-down; 2..5 nodes with invisible ones; or "
    "single-node blob animals for the 1-channel pipeline) + frame size + (max_height,max_width) class + stage scales + "
    "max_stride + output strides + crop size + refinement + batch size; each case runs the real predictor once per "
    "provider (LabelsReader, VideoReader); non-trivial = (a scale != 1, or size matching active, or stride padding "
    "added) AND at least one invisible keypoint or more than one animal"
)
ASSUMPTIONS = [
    "ideal network = constructed stand-in (RampNet / IdentityNet); sigma of the ideal maps is 1.5 output cells",
    "tolerance carries the half-pixel-convention term 0.5*|1-s|/s and the exact integer-rounding slack of resize targets; at s=1 it is the bare half cell (+0.05)",
    "keypoints keep >= 3 output cells (in original px) from the frame border and the crop contains the animal (crop_hw constructed >= scaled extent about the anchor + 3 cells)",
    "animals are separated by more than the crop diagonal (top-down), so 'which instance is centred' is unambiguous",
    "sleap-io opencv image plugin returns negatively strided RGB views that torch.from_numpy rejects: the harness selects the imageio plugin (public sleap-io switch)",
    "blob (1-channel) frames are uint8: their flat top of radius 0.063*sigma px is added to the tolerance",
    "blob frames whose bump would differ by < 2 grey levels between the best lattice cell of the FINER stage and its neighbour (worst case of the general-position class) are rejected: after uint8 quantisation such a bump can be a plateau, i.e. not the ideal map the statement presupposes",
    "top-down layouts are rejected unless every keypoint lies within (crop/2 - 3 cells - 2 px)/(scale2*eff) - half a centroid-stage cell of its anchor: the crop is centred on the DETECTED centroid, an animal that may not fit the window is outside the domain",
    "ground-truth-centroid mode (centroid_config=None) is outside the statement (network-predicted centroids) and not exercised",
]

SIGMA_CELLS = 1.5


# ----------------------------------------------------------------------------------
# geometry helpers (mirror only the DOCUMENTED transforms, used for tolerance + sizes)


def sizematch(h, w, mh, mw):
    """-> (eff_scale, target_h, target_w, slack_x, slack_y) as documented: aspect-preserving fit, pad bottom/right."""
    if mh is None or mw is None or (h == mh and w == mw):
        return 1.0, h, w, 0.0, 0.0
    r = min(mh / h, mw / w)
    th, tw = int(round(h * r)), int(round(w * r))
    return r, th, tw, abs(tw - w * r), abs(th - h * r)


def scaled(h, w, s):
    if s == 1.0:
        return h, w, 0.0, 0.0
    nh, nw = int(h * s), int(w * s)
    return nh, nw, abs(nw - w * s), abs(nh - h * s)


# ----------------------------------------------------------------------------------


def build_inputs(case, d):
    """Write frames (PNG), labels (.slp). Returns (slp_path, png_paths, gt dict)."""
    import imageio.v3 as iio
    import numpy as np
    import sleap_io as sio
    from vlib.nets import RampNet

    try:
        sio.set_default_image_plugin("imageio")
    except Exception:  # noqa: BLE001
        pass
    h, w = case["h"], case["w"]
    paths = []
    for fid, animals in enumerate(case["frames"]):
        if case["image"] == "ramp":
            img = synth.ramp_image(h, w, "rgb")
            img[..., 2] = RampNet.level(fid)
        else:
            centers = [p for an in animals for p in an if p is not None]
            img = synth.blob_image(h, w, centers, case["blob_sigma"])
        p = os.path.join(d, f"f{fid:03d}.png")
        iio.imwrite(p, img)
        paths.append(p)
    n = case["n_nodes"]
    names = [f"n{i}" for i in range(n)]
    skel = sio.Skeleton(nodes=names, edges=[(names[i], names[i + 1]) for i in range(n - 1)])
    video = sio.Video.from_filename(paths)
    lfs = []
    for fid, animals in enumerate(case["frames"]):
        insts = []
        for an in animals:
            pts = np.array([[math.nan, math.nan] if p is None else p for p in an], dtype=np.float64).reshape(n, 2)
            insts.append(sio.Instance.from_numpy(points_data=pts, skeleton=skel))
        lfs.append(sio.LabeledFrame(video=video, frame_idx=fid, instances=insts))
    labels = sio.Labels(labeled_frames=lfs, videos=[video], skeletons=[skel])
    slp = os.path.join(d, "labels.slp")
    labels.save(slp, embed=False)
    return slp, paths, skel


def anchors_of(case):
    out = {}
    a = case.get("anchor")
    for fid, animals in enumerate(case["frames"]):
        lst = []
        for an in animals:
            vis = [p for p in an if p is not None]
            if a is not None and an[a] is not None:
                lst.append(list(an[a]))
            elif vis:
                xs, ys = [p[0] for p in vis], [p[1] for p in vis]
                lst.append([(min(xs) + max(xs)) / 2, (min(ys) + max(ys)) / 2])
        out[fid] = lst
    return out


def grid_frac(a, stride, s_total):
    """Distance (in output cells) of original coordinate `a` from the nearest output cell of a stage whose input is the
    frame resized by s_total (half-pixel-centre convention) and whose output stride is `stride`."""
    u = ((a + 0.5) * s_total - 0.5) / stride
    return abs(u - round(u))


def centroid_general_position(case):
    """Local-peak (centroid) detection needs a unique nearest cell: no anchor within 0.05 cell of a tie."""
    eff = sizematch(case["h"], case["w"], case["max_h"], case["max_w"])[0]
    s = case["scale"] * eff
    for lst in anchors_of(case).values():
        for a in lst:
            if grid_frac(a[0], case["stride"], s) > 0.45 or grid_frac(a[1], case["stride"], s) > 0.45:
                return False
    return True


def border_margin(case):
    """Required distance (original px) of every keypoint from the frame border: 3 output cells of the coarsest stage
    (refinement windows / ideal bumps must not be truncated by the border or the padding) + anti-aliasing reach."""
    eff = sizematch(case["h"], case["w"], case["max_h"], case["max_w"])[0]
    s1 = case["scale"] * eff
    cells = [case["stride"] / s1]
    smin = min(1.0, s1)
    if case["kind"] == "topdown":
        s2 = case["scale2"] * eff
        cells.append(case["stride2"] / s2)
        smin = min(smin, s2)
    return 3.0 * max(cells) + 2.0 / smin


def border_margin_violated(case):
    m = border_margin(case) - 1e-6
    for animals in case["frames"]:
        for an in animals:
            for p in an:
                if p is not None and not (m <= p[0] <= case["w"] - 1 - m and m <= p[1] <= case["h"] - 1 - m):
                    return "keypoint-too-close-to-border"
    return None


def crop_extent(case):
    """Largest per-axis distance (original px) a keypoint may have from its animal's anchor so that it is certainly
    inside the crop window with 3 output cells + 2 px to spare: half the crop side in original px, minus that slack,
    minus the worst-case localisation error of the centroid stage (half a centroid-stage cell; the crop is centred on
    the DETECTED centroid, not on the true anchor).  Returns (ext_x, ext_y)."""
    eff = sizematch(case["h"], case["w"], case["max_h"], case["max_w"])[0]
    s2 = case["scale2"] * eff
    cell1 = case["stride"] / (case["scale"] * eff)
    ch, cw = case["crop"], case.get("crop_w") or case["crop"]
    slack = 3.0 * case["stride2"] + 2.0
    return (cw / 2.0 - slack) / s2 - cell1 / 2.0, (ch / 2.0 - slack) / s2 - cell1 / 2.0


def crop_extent_violated(case):
    """An animal that does not fit the crop window cannot be recovered by a crop-based pipeline: such layouts are
    outside the property's domain (documented assumption), so they are rejected, not judged."""
    if case["kind"] != "topdown":
        return None
    ex, ey = crop_extent(case)
    a = case.get("anchor")
    for animals in case["frames"]:
        for an in animals:
            vis = [p for p in an if p is not None]
            if not vis:
                continue
            if a is not None and an[a] is not None:
                c = an[a]
            else:
                xs, ys = [p[0] for p in vis], [p[1] for p in vis]
                c = [(min(xs) + max(xs)) / 2, (min(ys) + max(ys)) / 2]
            for p in vis:
                if abs(p[0] - c[0]) > ex + 1e-6 or abs(p[1] - c[1]) > ey + 1e-6:
                    return "animal-may-not-fit-the-crop-window"
    return None


def blob_too_flat(case):
    """uint8 blob frames: the centroid / keypoint stage with the FINER output cell must still see a strictly peaked
    bump after quantisation to 1/255.  Worst case (general position: the best lattice cell is within 0.45 cell of the
    centre per axis, its lattice neighbour at >= 0.55 cell): the two values differ by
    exp(-(0.45 c)^2 / 2 sigma^2) - exp(-(0.55 c)^2 / 2 sigma^2); below 2 grey levels the quantised bump can have a
    plateau over two lattice cells (no strict local maximum - legitimately nothing to detect), so such layouts are
    outside the domain of the ideal-network assumption."""
    if case.get("image") != "blob":
        return None
    eff = sizematch(case["h"], case["w"], case["max_h"], case["max_w"])[0]
    cells = [case["stride"] / (case["scale"] * eff)]
    if case["kind"] == "topdown":
        cells.append(case["stride2"] / (case["scale2"] * eff))
    c = min(cells)
    sg = float(case["blob_sigma"])
    delta = math.exp(-((0.45 * c) ** 2) / (2 * sg * sg)) - math.exp(-((0.55 * c) ** 2) / (2 * sg * sg))
    return "blob-too-flat-for-the-finer-stage-after-uint8-quantisation" if delta * 255.0 < 2.0 else None


def stage_sigma(stride, s_total):
    """sigma in ORIGINAL px = SIGMA_CELLS output cells."""
    return SIGMA_CELLS * stride / s_total


def run_single(case, provider, slp, paths, skel):
    from omegaconf import OmegaConf
    from sleap_nn.inference.predictors import SingleInstancePredictor
    from vlib.nets import IdentityNet, RampNet

    eff, th, tw, _, _ = sizematch(case["h"], case["w"], case["max_h"], case["max_w"])
    s = case["scale"]
    if case["image"] == "ramp":
        gt = {fid: animals for fid, animals in enumerate(case["frames"])}
        net = RampNet(gt, case["stride"], stage_sigma(case["stride"], s * eff), "single", case["n_nodes"])
    else:
        net = IdentityNet(stride=case["stride"])
    cfg = OmegaConf.create(
        {
            "data_config": {"preprocessing": {"scale": s, "is_rgb": case["image"] == "ramp", "max_height": case["max_h"], "max_width": case["max_w"]}},
            "model_config": {
                "backbone_config": {"unet": {"max_stride": case["max_stride"]}},
                "head_configs": {"single_instance": {"confmaps": {"output_stride": case["stride"], "part_names": [n.name for n in skel.nodes]}}},
            },
        }
    )
    pred = SingleInstancePredictor(
        confmap_config=cfg, confmap_model=net, backbone_type="unet", skeletons=[skel], peak_threshold=0.2,
        integral_refinement=case["refinement"], integral_patch_size=5, batch_size=case["batch"],
    )
    pred._initialize_inference_model()
    pred.make_pipeline(provider, slp if provider == "LabelsReader" else paths, queue_maxsize=4)
    out = pred.predict(make_labels=False)
    recs = {}
    for o in out:
        for j in range(len(o["frame_idx"])):
            recs.setdefault(int(o["frame_idx"][j]), []).append(
                (o["pred_instance_peaks"][j].reshape(-1, 2), o["pred_peak_values"][j].reshape(-1), [float(v) for v in o["orig_size"][j].reshape(-1)])
            )
    return recs


def run_topdown(case, provider, slp, paths, skel):
    from omegaconf import OmegaConf
    from sleap_nn.inference.predictors import TopDownPredictor
    from vlib.nets import IdentityNet, RampNet

    eff, th, tw, _, _ = sizematch(case["h"], case["w"], case["max_h"], case["max_w"])
    s1, s2 = case["scale"], case["scale2"]
    anchors = anchors_of(case)
    if case["image"] == "ramp":
        gt = {fid: animals for fid, animals in enumerate(case["frames"])}
        cnet = RampNet(gt, case["stride"], stage_sigma(case["stride"], s1 * eff), "centroid", case["n_nodes"], anchors=anchors)
        inet = RampNet(gt, case["stride2"], stage_sigma(case["stride2"], s2 * eff), "centered", case["n_nodes"], anchors=anchors)
    else:
        cnet = IdentityNet(stride=case["stride"])
        inet = IdentityNet(stride=case["stride2"])
    rgb = case["image"] == "ramp"
    ccfg = OmegaConf.create(
        {
            "data_config": {"preprocessing": {"scale": s1, "is_rgb": rgb, "max_height": case["max_h"], "max_width": case["max_w"], "crop_hw": None}},
            "model_config": {
                "backbone_config": {"unet": {"max_stride": case["max_stride"]}},
                "head_configs": {"centroid": {"confmaps": {"output_stride": case["stride"], "anchor_part": case.get("anchor")}}},
            },
        }
    )
    icfg = OmegaConf.create(
        {
            "data_config": {"preprocessing": {"scale": s2, "is_rgb": rgb, "max_height": case["max_h"], "max_width": case["max_w"], "crop_hw": [case["crop"], case.get("crop_w") or case["crop"]]}},
            "model_config": {
                "backbone_config": {"unet": {"max_stride": case["max_stride2"]}},
                "head_configs": {"centered_instance": {"confmaps": {"output_stride": case["stride2"], "anchor_part": case.get("anchor"), "part_names": [n.name for n in skel.nodes]}}},
            },
        }
    )
    pred = TopDownPredictor(
        centroid_config=ccfg, confmap_config=icfg, centroid_model=cnet, confmap_model=inet,
        centroid_backbone_type="unet", centered_instance_backbone_type="unet", skeletons=[skel], peak_threshold=0.2,
        integral_refinement=case["refinement"], integral_patch_size=5, batch_size=case["batch"], max_instances=None,
    )
    pred._initialize_inference_model()
    pred.make_pipeline(provider, slp if provider == "LabelsReader" else paths, queue_maxsize=4)
    out = pred.predict(make_labels=False)
    recs = {}
    for o in out:
        n_inst = len(o["frame_idx"])
        for j in range(n_inst):
            # exactly as _make_labeled_frames_from_generator combines them
            pts = o["pred_instance_peaks"][j].reshape(-1, 2) + o["instance_bbox"][j].squeeze(axis=0)[0, :]
            recs.setdefault(int(o["frame_idx"][j]), []).append(
                (pts, o["pred_peak_values"][j].reshape(-1), [float(v) for v in o["orig_size"][j].reshape(-1)])
            )
    return recs


def tolerance(case, stage):
    """Original-pixel tolerance for keypoints produced by `stage` ('single' | 'instance')."""
    eff, th, tw, ex, ey = sizematch(case["h"], case["w"], case["max_h"], case["max_w"])
    if stage == "single":
        s, stride = case["scale"], case["stride"]
    else:
        s, stride = case["scale2"], case["stride2"]
    _, _, rx, ry = scaled(th if case["max_h"] is None else case["max_h"], tw if case["max_w"] is None else case["max_w"], s)
    s_tot = s * eff
    base = (0.5 * stride + 0.5 * abs(1 - s)) / s_tot + 0.5 * abs(1 - eff) / eff + 0.05
    slack = max(ex, ey) / eff + max(rx, ry) / s_tot
    if case["image"] == "blob":
        # uint8 blob frames have a flat top: every pixel within r of the centre rounds to 255
        # (255*exp(-r^2/2sigma^2) >= 254.5  <=>  r <= 0.0627*sigma) and any of them may be the argmax
        slack += 0.0627 * case["blob_sigma"] + 0.05
    return base + slack, s_tot


def evaluate(case):
    import numpy as np

    res = Result()
    kind = case["kind"]
    if kind == "topdown" and not centroid_general_position(case):
        res.rejected = True  # statement: keypoint layouts in general position (a centroid half-way between two
        res.cls("rejected:centroid-not-in-general-position")  # cells is a plateau, legitimately not a strict local peak)
        return res
    why = border_margin_violated(case) or crop_extent_violated(case) or blob_too_flat(case)
    if why:
        res.rejected = True  # documented assumptions: keypoints keep >= 3 output cells from the frame border, and an
        res.cls("rejected:" + why)  # animal fits its crop window even for the worst-case centroid localisation error
        return res
    d = env.scratch_dir("c02")
    try:
        slp, paths, skel = build_inputs(case, d)
        run = run_single if kind == "single" else run_topdown
        tol, s_tot = tolerance(case, "single" if kind == "single" else "instance")
        eff = sizematch(case["h"], case["w"], case["max_h"], case["max_w"])[0]
        res.cls(f"kind={kind}", f"image={case['image']}", f"refine={case['refinement']}", f"scale={case['scale']}",
                "sizematch=" + ("none" if eff == 1.0 and case["max_h"] in (None, case["h"]) else ("up" if eff > 1 else ("down" if eff < 1 else "pad"))))
        if kind == "topdown":
            na = max(len(f) for f in case["frames"])
            res.cls(f"scale2={case['scale2']}", f"kind|scales=topdown|{case['scale']}|{case['scale2']}", f"topdown|s2={case['scale2']}|animals={min(na, 2)}",
                    "crop=square" if (case.get("crop_w") or case["crop"]) == case["crop"] else "crop=non-square")
        else:
            res.cls(f"kind|scale=single|{case['scale']}")
        results = {}
        res.n_evals = 0
        for provider in ("VideoReader", "LabelsReader"):
            recs = runner.guarded(res, f"{kind}:{provider}:predict", run, case, provider, slp, paths, skel)
            if recs is runner.FAILED:
                continue
            results[provider] = recs
            res.n_evals += 1
            for fid, animals in enumerate(case["frames"]):
                got = recs.get(fid, [])
                expected = [an for an in animals if any(p is not None for p in an)]
                if kind == "single":
                    expected = animals[:1]
                    if len(got) != 1:
                        res.fail(f"{kind}:{provider}:record-count", f"frame {fid}: {len(got)} records")
                        continue
                for g in got:
                    # (top-down records carry orig_size flattened per crop batch; the statement does not cover it)
                    if kind == "single" and [int(v) for v in g[2][:2]] != [case["h"], case["w"]]:
                        res.fail(f"{kind}:{provider}:orig-size", f"frame {fid}: orig_size {g[2]} expected {[case['h'], case['w']]}")
                used = set()
                for an in expected:
                    vis = [i for i, p in enumerate(an) if p is not None]
                    if not vis:
                        if kind == "single":
                            g = got[0]
                            if not np.isnan(g[0]).all():
                                res.fail(f"{kind}:{provider}:invisible-not-nan", f"frame {fid}: all keypoints invisible but got {g[0].tolist()}")
                        continue
                    # nearest predicted instance by mean error over the commonly visible nodes
                    best, bd = None, None
                    for k, g in enumerate(got):
                        if k in used:
                            continue
                        errs = [max(abs(g[0][i][0] - an[i][0]), abs(g[0][i][1] - an[i][1])) for i in vis if not np.isnan(g[0][i]).any()]
                        if not errs:
                            continue
                        m = sum(errs) / len(errs)
                        if bd is None or m < bd:
                            best, bd = k, m
                    if best is None:
                        res.fail(f"{kind}:{provider}:missing-instance", f"frame {fid}: animal at {[an[i] for i in vis][:2]} not returned ({len(got)} instances returned); cfg={_cfg(case)}")
                        continue
                    used.add(best)
                    g = got[best]
                    for i, p in enumerate(an):
                        if p is None:
                            if not (np.isnan(g[0][i]).all() and (g[1][i] == 0 or np.isnan(g[1][i]))):
                                res.fail(f"{kind}:{provider}:invisible-not-nan", f"frame {fid}: invisible node {i} returned {g[0][i].tolist()} value {float(g[1][i])}")
                            elif g[1][i] != 0:
                                res.fail(f"{kind}:{provider}:invisible-value-not-zero", f"frame {fid}: invisible node {i} has value {float(g[1][i])}")
                        else:
                            if np.isnan(g[0][i]).any():
                                res.fail(f"{kind}:{provider}:visible-lost", f"frame {fid}: visible node {i} at {p} returned NaN; cfg={_cfg(case)}")
                                continue
                            err = max(abs(g[0][i][0] - p[0]), abs(g[0][i][1] - p[1]))
                            res.cls("err/tol<0.5" if err < 0.5 * tol else ("err/tol<1" if err <= tol else "err/tol>1"))
                            if err > tol:
                                big = "gross" if err > 3 * tol + 2 else "cell"
                                res.fail(
                                    f"{kind}:{provider}:coordinate-error:{big}",
                                    f"frame {fid} node {i}: returned {np.round(g[0][i], 2).tolist()} for keypoint {p}: error {err:.2f} > tol {tol:.2f} original px; cfg={_cfg(case)}",
                                )
                if kind == "topdown" and len(got) > len([a for a in expected if any(p is not None for p in a)]):
                    res.fail(f"{kind}:{provider}:extra-instance", f"frame {fid}: {len(got)} instances for {len(expected)} animals")
        if len(results) == 2:
            a, b = results["VideoReader"], results["LabelsReader"]
            diff = 0.0
            same = set(a) == set(b)
            if same:
                for fid in a:
                    if len(a[fid]) != len(b[fid]):
                        same = False
                        break
                    ka = sorted(a[fid], key=lambda r: tuple(np.nan_to_num(r[0], nan=-1).reshape(-1)))
                    kb = sorted(b[fid], key=lambda r: tuple(np.nan_to_num(r[0], nan=-1).reshape(-1)))
                    for ra, rb in zip(ka, kb):
                        if not np.array_equal(np.isnan(ra[0]), np.isnan(rb[0])):
                            same = False
                        else:
                            dd = np.nan_to_num(np.abs(ra[0] - rb[0]), nan=0.0)
                            diff = max(diff, float(dd.max()) if dd.size else 0.0)
            if not same or diff > 1e-4:
                res.fail(f"{kind}:providers-differ", f"LabelsReader and VideoReader outputs differ (max coordinate difference {diff:.3f}, same structure {same}); cfg={_cfg(case)}")
        any_invisible = any(p is None for animals in case["frames"] for an in animals for p in an)
        multi = any(len(animals) > 1 for animals in case["frames"])
        padded = (case["h"] * case["scale"]) % case["max_stride"] != 0 or (case["w"] * case["scale"]) % case["max_stride"] != 0
        scaled_ = case["scale"] != 1.0 or case.get("scale2", 1.0) != 1.0 or eff != 1.0
        res.nontrivial = (scaled_ or padded) and (any_invisible or multi)
        res.n_evals = max(1, res.n_evals)
        return res
    finally:
        shutil.rmtree(d, ignore_errors=True)


# ----------------------------------------------------------------------------------
# labels files spanning several videos of different size (only LabelsReader can read them): frames of different
# eff_scale share a batch, so per-frame bookkeeping of eff_scale / orig_size inside the batching loop matters


def _view(case, v):
    return dict(case, kind="single", image="ramp", h=case["videos"][v]["h"], w=case["videos"][v]["w"], frames=[f["animals"] for f in case["videos"][v]["frames"]])


def evaluate_multi(case):
    import imageio.v3 as iio
    import numpy as np
    import sleap_io as sio
    from omegaconf import OmegaConf
    from sleap_nn.inference.predictors import SingleInstancePredictor
    from vlib.nets import RampNet

    res = Result()
    nv = len(case["videos"])
    views = [_view(case, v) for v in range(nv)]
    for vw in views:
        if border_margin_violated(vw):
            res.rejected = True
            res.cls("rejected:keypoint-too-close-to-border")
            return res
    d = env.scratch_dir("c02m")
    try:
        try:
            sio.set_default_image_plugin("imageio")
        except Exception:  # noqa: BLE001
            pass
        n = case["n_nodes"]
        names = [f"n{i}" for i in range(n)]
        skel = sio.Skeleton(nodes=names, edges=[(names[i], names[i + 1]) for i in range(n - 1)])
        gt, videos, lf_by_gid = {}, [], {}
        for v, vd in enumerate(case["videos"]):
            paths = []
            for k, fr in enumerate(vd["frames"]):
                img = synth.ramp_image(vd["h"], vd["w"], "rgb")
                img[..., 2] = RampNet.level(fr["gid"])
                p = os.path.join(d, f"v{v}_f{k:03d}.png")
                iio.imwrite(p, img)
                paths.append(p)
                gt[fr["gid"]] = fr["animals"]
            videos.append(sio.Video.from_filename(paths))
        for v, vd in enumerate(case["videos"]):
            for k, fr in enumerate(vd["frames"]):
                pts = np.array([[math.nan, math.nan] if q is None else q for q in fr["animals"][0]], dtype=np.float64).reshape(n, 2)
                lf_by_gid[fr["gid"]] = sio.LabeledFrame(video=videos[v], frame_idx=k, instances=[sio.Instance.from_numpy(points_data=pts, skeleton=skel)])
        lfs = [lf_by_gid[g] for g in case["order"]]
        labels = sio.Labels(labeled_frames=lfs, videos=videos, skeletons=[skel])
        slp = os.path.join(d, "labels.slp")
        labels.save(slp, embed=False)
        s_tots = [case["scale"] * sizematch(vw["h"], vw["w"], case["max_h"], case["max_w"])[0] for vw in views]
        net = RampNet(gt, case["stride"], stage_sigma(case["stride"], min(s_tots)), "single", n)
        cfg = OmegaConf.create({
            "data_config": {"preprocessing": {"scale": case["scale"], "is_rgb": True, "max_height": case["max_h"], "max_width": case["max_w"]}},
            "model_config": {"backbone_config": {"unet": {"max_stride": case["max_stride"]}},
                             "head_configs": {"single_instance": {"confmaps": {"output_stride": case["stride"], "part_names": names}}}},
        })

        def run():
            pred = SingleInstancePredictor(confmap_config=cfg, confmap_model=net, backbone_type="unet", skeletons=[skel], peak_threshold=0.2,
                                           integral_refinement=case["refinement"], integral_patch_size=5, batch_size=case["batch"])
            pred._initialize_inference_model()
            pred.make_pipeline("LabelsReader", slp, queue_maxsize=4)
            return pred.predict(make_labels=False)

        out = runner.guarded(res, "multi-video:LabelsReader:predict", run)
        if out is runner.FAILED:
            return res
        recs = {}
        for o in out:
            for j in range(len(o["frame_idx"])):
                recs.setdefault((int(o["video_idx"][j]), int(o["frame_idx"][j])), []).append(
                    (o["pred_instance_peaks"][j].reshape(-1, 2), o["pred_peak_values"][j].reshape(-1), [int(x) for x in o["orig_size"][j].reshape(-1)]))
        res.n_evals = 0
        for v, vd in enumerate(case["videos"]):
            tol, _ = tolerance(views[v], "single")
            # sigma is set for the coarsest video; finer ones see a wider bump (<= 2 cells): same half-cell bound
            for k, fr in enumerate(vd["frames"]):
                res.n_evals += 1
                got = recs.get((v, k), [])
                if len(got) != 1:
                    res.fail("multi-video:record-count", f"video {v} frame {k}: {len(got)} records")
                    continue
                g = got[0]
                if g[2][:2] != [vd["h"], vd["w"]]:
                    res.fail("multi-video:orig-size", f"video {v} frame {k}: orig_size {g[2]} expected {[vd['h'], vd['w']]}")
                for i, q in enumerate(fr["animals"][0]):
                    if q is None:
                        if not np.isnan(g[0][i]).all() or g[1][i] != 0:
                            res.fail("multi-video:invisible-not-nan", f"video {v} frame {k} node {i}: {g[0][i].tolist()} value {float(g[1][i])}")
                    elif np.isnan(g[0][i]).any():
                        res.fail("multi-video:visible-lost", f"video {v} frame {k} node {i} at {q} returned NaN")
                    else:
                        err = max(abs(g[0][i][0] - q[0]), abs(g[0][i][1] - q[1]))
                        if err > tol:
                            res.fail("multi-video:coordinate-error:" + ("gross" if err > 3 * tol + 2 else "cell"),
                                     f"video {v} ({vd['h']}x{vd['w']}) frame {k} node {i}: returned {np.round(g[0][i], 2).tolist()} for keypoint {q}: error {err:.2f} > tol {tol:.2f}; "
                                     f"order={case['order']} batch={case['batch']} max_hw={[case['max_h'], case['max_w']]} scale={case['scale']}")
        effs = {round(sizematch(vw["h"], vw["w"], case["max_h"], case["max_w"])[0], 6) for vw in views}
        res.nontrivial = len(effs) >= 2 and case["batch"] >= 2
        res.cls("multi-video", f"mv:videos={nv}", f"mv:batch={case['batch']}", "mv:mixed-eff" if len(effs) >= 2 else "mv:same-eff")
        res.n_evals = max(1, res.n_evals)
        return res
    finally:
        shutil.rmtree(d, ignore_errors=True)


def strategy_multi():
    from hypothesis import strategies as st

    @st.composite
    def case(draw):
        scale, stride = draw(st.sampled_from([(sc, sd) for sc in (1.0, 0.5, 0.75) for sd in (1, 2, 4)]))
        nv = draw(st.integers(2, 3))
        sizes = []
        for _ in range(nv):
            sizes.append((draw(st.integers(30, 60)) * 4, draw(st.integers(30, 60)) * 4))
        mode = draw(st.sampled_from(["max", "max", "bigger", "smaller"]))
        mh, mw = max(s[0] for s in sizes), max(s[1] for s in sizes)
        if mode == "bigger":
            mh, mw = mh + draw(st.integers(4, 40)), mw + draw(st.integers(4, 40))
        elif mode == "smaller":
            mh, mw = mh - draw(st.integers(4, 40)), mw - draw(st.integers(4, 40))
        n_nodes = draw(st.integers(2, 4))
        base = {"scale": scale, "stride": stride, "max_h": mh, "max_w": mw, "kind": "single", "scale2": 1.0, "stride2": 1}
        videos, gid = [], 0
        for (h, w) in sizes:
            m = border_margin(dict(base, h=h, w=w)) + 0.5
            frames = []
            for _ in range(draw(st.integers(1, 2))):
                pts = []
                for i in range(n_nodes):
                    pts.append([round(draw(st.floats(m, max(m + 0.01, w - 1 - m))), 2), round(draw(st.floats(m, max(m + 0.01, h - 1 - m))), 2)])
                if draw(st.integers(0, 2)) == 0:
                    keep = draw(st.integers(0, n_nodes - 1))
                    pts = [q if (i == keep or draw(st.booleans())) else None for i, q in enumerate(pts)]
                frames.append({"gid": gid, "animals": [pts]})
                gid += 1
            videos.append({"h": h, "w": w, "frames": frames})
        order = list(draw(st.permutations(list(range(gid)))))
        return dict(base, videos=videos, order=order, n_nodes=n_nodes, max_stride=draw(st.sampled_from([1, 16, 32])),
                    refinement=draw(st.sampled_from([None, "integral"])), batch=draw(st.sampled_from([1, 2, 3, 4, 4])), image="ramp", blob_sigma=2.0)

    return case()


def _cfg(case):
    return {k: v for k, v in case.items() if k != "frames"}


# ----------------------------------------------------------------------------------


def strategy(tier):
    from hypothesis import strategies as st

    @st.composite
    def case(draw):
        kind, image, s1, s2 = draw(
            st.sampled_from(
                [("single", im, a, 1.0) for im in ("ramp", "ramp", "blob") for a in (1.0, 0.5, 0.75, 1.5)]
                + [("topdown", im, a, b) for im in ("ramp", "ramp", "blob") for (a, b) in ((1.0, 1.0), (0.5, 1.0), (1.0, 0.5), (0.5, 2.0), (1.0, 1.5), (0.75, 0.75))]
            )
        )
        refinement = draw(st.sampled_from([None, "integral"]))
        stride = draw(st.sampled_from([1, 2, 4] if kind == "single" else [2, 4]))
        stride2 = draw(st.sampled_from([1, 2, 4]))
        max_stride = draw(st.sampled_from([1, 8, 16, 32]))
        max_stride2 = draw(st.sampled_from([1, 8, 16]))
        smc = draw(st.sampled_from(["none", "equal", "larger", "smaller", "mixed"]))
        eff_guess = {"none": 1.0, "equal": 1.0, "larger": 1.15, "smaller": 0.8, "mixed": 0.85}[smc]

        def geometry(eff_):
            s_last_ = (s2 if kind == "topdown" else s1) * eff_
            st_last_ = stride2 if kind == "topdown" else stride
            cell_ = st_last_ / s_last_
            cell1_ = stride / (s1 * eff_)
            margin_ = 3.0 * max(cell_, cell1_) + 2.0 / min(1.0, s1 * eff_, s_last_)
            return cell_, cell1_, margin_

        want = draw(st.integers(1, 3)) if kind == "topdown" else 1
        gx_, gy_ = draw(st.sampled_from([(1, 1)] if want == 1 else ([(2, 1), (1, 2)] if want == 2 else [(2, 2), (3, 1), (1, 3)])))
        crop = None
        if kind == "topdown":
            cell_, cell1_, margin_ = geometry(eff_guess)
            crop = draw(st.sampled_from([32, 48, 64, 96]))
            ext_ = min((crop / 2.0 - 3.0 * stride2 - 2.0) / (s2 * eff_guess), 30.0)
            while ext_ < 4.0 and crop < 96:
                crop = {32: 48, 48: 64, 64: 96}[crop]
                ext_ = min((crop / 2.0 - 3.0 * stride2 - 2.0) / (s2 * eff_guess), 30.0)
            # non-square crops: `crop` is the short side (bounds the extent), `crop_long` the other one
            crop_long = crop if draw(st.booleans()) else crop + draw(st.sampled_from([8, 16, 32]))
            crop_w_first = draw(st.booleans())
            sep_ = math.hypot(crop, crop_long) / (s2 * eff_guess) + 2 * ext_ + 6 * max(cell_, cell1_)
            need_w = 2 * (margin_ + ext_) + (gx_ - 1) * sep_ + 8
            need_h = 2 * (margin_ + ext_) + (gy_ - 1) * sep_ + 8
            w = int(min(250, max(48, math.ceil(need_w) + draw(st.integers(0, 24)))))
            h = int(min(250, max(48, math.ceil(need_h) + draw(st.integers(0, 24)))))
        else:
            _, _, margin_ = geometry(min(eff_guess, 1.0) if smc != "larger" else 1.0)
            lo = int(math.ceil((2 * margin_ + 12) / 4.0))
            h = draw(st.integers(max(12, lo), max(50, lo + 10))) * 4
            w = draw(st.integers(max(12, lo), max(50, lo + 10))) * 4
            h, w = min(h, 248), min(w, 248)
            if draw(st.integers(0, 3)) == 0:  # arbitrary (non multiple of 4) sizes too
                h += draw(st.integers(1, 3))
                w += draw(st.integers(1, 3))
        if smc == "none":
            mh, mw = None, None
        elif smc == "equal":
            mh, mw = h, w
        elif smc == "larger":
            mh, mw = h + draw(st.integers(1, 60)), w + draw(st.integers(1, 60))
        elif smc == "smaller":
            mh, mw = max(40, h - draw(st.integers(1, max(1, h // 4)))), max(40, w - draw(st.integers(1, max(1, w // 4))))
        else:
            mh, mw = h + draw(st.integers(1, 60)), max(40, w - draw(st.integers(1, max(1, w // 4))))
        mh = None if mh is None else min(mh, 300)
        mw = None if mw is None else min(mw, 300)
        eff = sizematch(h, w, mh, mw)[0]
        n_nodes = 1 if image == "blob" else draw(st.integers(2, 5))
        anchor = draw(st.one_of(st.none(), st.integers(0, n_nodes - 1))) if kind == "topdown" else None
        n_frames = draw(st.integers(1, 4 if tier == "quick" else 6))
        batch = draw(st.integers(1, 4))
        # --- geometry in ORIGINAL pixels
        s_last = (s2 if kind == "topdown" else s1) * eff
        st_last = stride2 if kind == "topdown" else stride
        cell = st_last / s_last  # size of one output cell of the keypoint stage in original px
        cell1 = stride / (s1 * eff)
        margin = 3.0 * max(cell, cell1) + 2.0 / min(1.0, s1 * eff, s_last)
        blob_sigma = max(2.0, 1.6 * max(cell, cell1))
        if kind == "topdown":
            # max extent about the anchor that fits the crop (orig px), less the centroid stage's localisation error
            ext = (crop / 2.0 - 3.0 * st_last - 2.0) / (s2 * eff) - cell1 / 2.0
            ext = max(0.5, min(ext, 30.0))
            sep = math.hypot(crop, crop_long) / (s2 * eff) + 2 * ext + 6 * max(cell, cell1)
        else:
            ext = min(h, w) / 2.0 - margin
            sep = None
        frames = []
        for _ in range(n_frames):
            animals = []
            if kind == "single":
                cx = draw(st.floats(margin + 0, max(margin + 0.01, w - 1 - margin)))
                cy = draw(st.floats(margin + 0, max(margin + 0.01, h - 1 - margin)))
                pts = []
                for i in range(n_nodes):
                    px = draw(st.floats(margin + 0.01, max(margin + 0.02, w - 1.01 - margin)))
                    py = draw(st.floats(margin + 0.01, max(margin + 0.02, h - 1.01 - margin)))
                    pts.append([round(px, 2), round(py, 2)])
                animals.append(pts)
            else:
                k = 0 if ext < 2.0 else want
                if n_frames > 1 and draw(st.integers(0, 3)) == 0:
                    k = 0  # a frame without animals between frames with animals (nothing detected in that frame)
                gx = max(1, int((w - 2 * (margin + ext)) // sep) + 1)
                gy = max(1, int((h - 2 * (margin + ext)) // sep) + 1)
                slots = [(ix, iy) for iy in range(gy) for ix in range(gx)]
                chosen = list(draw(st.permutations(slots)))[:k]
                for ix, iy in chosen:
                    ax = margin + ext + ix * sep + draw(st.floats(0, 3))
                    ay = margin + ext + iy * sep + draw(st.floats(0, 3))
                    if ax > w - 1 - margin - ext or ay > h - 1 - margin - ext:
                        continue
                    pts = []
                    for i in range(n_nodes):
                        if i == (anchor or 0):
                            pts.append([round(ax, 2), round(ay, 2)])
                        else:
                            pts.append([round(ax + draw(st.floats(-ext, ext)), 2), round(ay + draw(st.floats(-ext, ext)), 2)])
                    animals.append(pts)
            # visibility
            out = []
            for pts in animals:
                if n_nodes > 1 and draw(st.integers(0, 2)) == 0:
                    keep = draw(st.integers(0, n_nodes - 1))
                    pts = [p if (i == keep or draw(st.booleans())) else None for i, p in enumerate(pts)]
                out.append(pts)
            if kind == "topdown":
                # translate each animal slightly so that its centroid is in general position on the centroid grid
                fixed = []
                for pts in out:
                    vis = [p for p in pts if p is not None]
                    if not vis:
                        fixed.append(pts)
                        continue
                    if anchor is not None and pts[anchor] is not None:
                        c = pts[anchor]
                    else:
                        c = [(min(p[0] for p in vis) + max(p[0] for p in vis)) / 2, (min(p[1] for p in vis) + max(p[1] for p in vis)) / 2]
                    sh = []
                    for ax_ in (0, 1):
                        d_ = 0.0
                        for _try in range(4):
                            if grid_frac(c[ax_] + d_, stride, s1 * eff) <= 0.38:
                                break
                            d_ += 0.27 * stride / (s1 * eff)
                        sh.append(d_)
                    fixed.append([None if p is None else [round(p[0] + sh[0], 3), round(p[1] + sh[1], 3)] for p in pts])
                out = fixed
            frames.append(out)
        return {
            "kind": kind, "image": image, "scale": s1, "scale2": s2, "refinement": refinement, "stride": stride, "stride2": stride2,
            "max_stride": max_stride, "max_stride2": max_stride2, "h": h, "w": w, "max_h": mh, "max_w": mw, "n_nodes": n_nodes,
            "anchor": anchor, "batch": batch, "blob_sigma": blob_sigma, "frames": frames,
            # crop_hw = [crop, crop_w]
            "crop": (crop if kind != "topdown" or not crop_w_first else crop_long) if kind == "topdown" else None,
            "crop_w": ((crop_long if not crop_w_first else crop) if kind == "topdown" else None),
        }

    return case()


def summarize(case):
    return _cfg(case) | {"frames": [[[None if p is None else p for p in an] for an in fr] for fr in case["frames"]][:2]}


# ----------------------------------------------------------------------------------
# part: huge frames ("for every image size": a confidence map with more than 2**24 cells per channel, where
# cell indices no longer fit float32 exactly), through the single-instance inference layer with an identity network


def enum_huge(tier):
    # (H, W, keypoints (x, y) on grid cells): flat indices y*W+x beyond 2**24, odd and even, plus small controls
    cases = [
        {"h": 4224, "w": 4096, "pts": [[1501, 4150], [2776, 4201], [7, 3]], "refinement": None},
        {"h": 4101, "w": 4099, "pts": [[4097, 4100], [1, 4099], [2048, 2048]], "refinement": None},
    ]
    if tier != "quick":
        cases += [
            {"h": 4100, "w": 4098, "pts": [[4095, 4097], [3, 4096], [4097, 4099]], "refinement": "integral"},
            {"h": 2050, "w": 8200, "pts": [[8199, 2049], [8191, 2047], [5, 2048]], "refinement": None},
            {"h": 8200, "w": 2050, "pts": [[2049, 8199], [2047, 8191], [2048, 5]], "refinement": None},
        ]
    return cases


def evaluate_huge(case):
    import numpy as np
    import torch
    from sleap_nn.inference.single_instance import SingleInstanceInferenceModel
    from vlib.nets import IdentityNet

    res = Result()
    H, W, pts = case["h"], case["w"], case["pts"]
    res.nontrivial = H * W > 2**24
    res.cls("huge-frame", f"cells={'>2^24' if H * W > 2**24 else '<=2^24'}", f"refine={case['refinement']}")
    img = torch.zeros((1, 1, len(pts), H, W), dtype=torch.float32)
    for c, (x, y) in enumerate(pts):
        # a small symmetric bump whose unique maximum is the keypoint's cell
        for dy in (-1, 0, 1):
            for dx in (-1, 0, 1):
                yy, xx = y + dy, x + dx
                if 0 <= yy < H and 0 <= xx < W:
                    img[0, 0, c, yy, xx] = 1.0 if (dx == 0 and dy == 0) else 0.4
    m = SingleInstanceInferenceModel(
        torch_model=IdentityNet(stride=1), output_stride=1, peak_threshold=0.2, refinement=case["refinement"], integral_patch_size=5, input_scale=1.0
    )
    inputs = {
        "image": img, "frame_idx": torch.tensor([0], dtype=torch.int32), "video_idx": torch.tensor([0], dtype=torch.int32),
        "orig_size": torch.tensor([[H, W]], dtype=torch.float32), "eff_scale": torch.tensor([1.0], dtype=torch.float32),
    }
    out = runner.guarded(res, "huge-frame", m, inputs)
    if out is runner.FAILED:
        return res
    peaks = np.asarray(out[0]["pred_instance_peaks"][0], dtype=np.float64).reshape(len(pts), 2)
    for c, (x, y) in enumerate(pts):
        interior = 2 <= x < W - 2 and 2 <= y < H - 2  # symmetric bump fully inside: refinement must not move it
        tol = 0.5 if (case["refinement"] is None or interior) else 1.0
        err = float(np.abs(peaks[c] - np.array([x, y], dtype=np.float64)).max())
        if not err <= tol:
            res.fail(
                "huge-frame:coordinate-error",
                f"keypoint {c} at cell (x={x}, y={y}) of a {H}x{W} map (flat index {y * W + x}) returned as {peaks[c].tolist()}: error {err:.3g} > {tol} (half an output-stride cell)",
            )
    return res


def parts(tier):
    return [
        Part(name="huge-frame", evaluate=evaluate_huge, enumerate=enum_huge, exhaustive={"quick": True, "thorough": True},
             shards={"quick": 1, "thorough": 1}, min_nontrivial={"quick": 2, "thorough": 2},
             summarize=lambda c: {k: v for k, v in c.items()}),
        Part(name="predictor", evaluate=evaluate, strategy=lambda: strategy(tier), summarize=summarize,
             budget={"quick": 160, "thorough": 20000}, min_nontrivial={"quick": 20, "thorough": 1000}),
        Part(name="multi-video", evaluate=evaluate_multi, strategy=strategy_multi,
             summarize=lambda c: {k: v for k, v in c.items()},
             budget={"quick": 60, "thorough": 7500}, min_nontrivial={"quick": 10, "thorough": 500}),
    ]


if __name__ == "__main__":
    runner.main(__name__)
