"""C04 - images and keypoints stay registered through all geometric preprocessing.

Central oracle: *read-back on coordinate-encoding images*.  The input image's pixel values ARE
its coordinates (channel 0 = x, channel 1 = y, channel 2 = validity mask 1 which becomes 0 in any
padding / outside region).  Image and keypoints go through the code under test; the OUTPUT image is
sampled bilinearly at every OUTPUT keypoint that lies in valid content (mask > 0.99) and the decoded
(x, y) = (ch0, ch1) / ch2 must equal the INPUT keypoint.  Nothing of the implementation is re-used.

Part `functional`: `apply_sizematcher` (+ keypoints * eff_scale, as every dataset does),
`apply_resizer`, `generate_crops` (`make_centered_bboxes` + kornia crop), `apply_pad_to_stride`,
`find_padding_for_stride`, `apply_intensity_augmentation`, `apply_geometric_augmentation`, alone
and chained in the order the datasets use, on float32 images with 3 channels or 1 channel (three
runs: x-ramp, y-ramp, mask, same torch seed).  Per-stage clauses: exact output size; padding only
at the bottom/right (mask is 1 on [0,h')x[0,w') and 0 elsewhere); returned eff_scale equals the
ratio applied (valid extent and ramp slope); no content lost by a non-cropping step; crop
`instance_bbox` / `centroid` describe where the crop was taken; intensity-only and erase/mixup-only
augmentation return keypoints bit-identical; NaN stays NaN, finite stays finite.

Part `dataset`: BottomUp / CenteredInstance / Centroid / SingleInstance Dataset end to end on
`vlib.synth` label sets with uint8 ramp frames (RGB, or three grayscale videos x-ramp / y-ramp /
mask carrying identical labels), apply_aug False / geometric / intensity / both, np_chunks on/off:
sample image read at the sample keypoints returns the label coordinates; exact sample image size;
bottom/right padding.

Part `cropsize`: `find_instance_crop_size` contract (docstring): multiple of `maximum_stride`,
>= `min_crop_size`, >= largest instance extent * input_scaling + padding, labels untouched; when
`min_crop_size` is a positive multiple of the stride it is the user-set size and is returned as is.
"""

import math
import shutil

import numpy as np

from vlib import env, runner, synth
from vlib.runner import Part, Result

PROPERTY = "C04"
LEVEL = "exploration"
RULE = (
    "functional part: a case is (class label drawn first from operation x {identity, scale, pad, crop-interior, "
    "crop-at-border, affine, chain}, image H x W in 24..240 with aspect up to 4:1, 1 or 3 channels, keypoints incl. "
    "NaN / border points, max_hw, scale, stride, crop size + centroid, augmentation kwargs, torch seed), one runner part per "
    "operation; dataset part: one runner part per (dataset class x augmentation mode), the geometry class (size matching in "
    "{none, pad, up, down, mixed} x scale in {1, down, up} x sizes that need stride padding or not) drawn first, then a label spec with 1-2 frames of 1-4 instances "
    "(compact animals incl. at the frame border for the crop datasets), max_hw / scale / max_stride / crop_hw (square and "
    "non-square) / anchor / np_chunks / RGB or three grayscale videos, torch seed; cropsize part: (instances, "
    "padding, stride, scaling, min_crop_size class).  non-trivial = the geometric transform is not the identity AND at "
    "least two keypoints that differ in both x and y were read back inside valid content (under affine augmentation, which may "
    "move everything out of frame: were eligible for read-back; the judged= classes count the actual read-backs; a case that "
    "exposes a violation always counts; intensity-only cases, where "
    "nothing can be read back: an intensity operation has probability 1 and at least two finite keypoints were compared bit for bit; cropsize: "
    "min_crop_size is None, 0 or not a multiple of the stride, so that the size has to be computed from the instances)"
)
ASSUMPTIONS = [
    "tolerance per axis = 0.25 output px + for every resize step (|s - r| * position + 0.5 * |1 - r|) output px of that step, "
    "r = output extent / input extent: the first term is the unavoidable mismatch between multiplying keypoints by the "
    "nominal scale and an integer output size, the second the half-pixel-centre convention of torchvision.resize versus "
    "keypoints * scale (same term as DESIGN C02); at scale 1 the bound is the bare 0.25 px",
    "affine augmentation adds 1.0 output px (the property's 'under one output pixel'): kornia 0.8.3 RandomAffine warps with "
    "align_corners=False while normalising the matrix with the (W-1) convention, a third-party registration error measured "
    "up to 0.56 of the allowance on the unchanged tree (worst over 5 000 warps); affine cases keep aspect <= 2:1 and min side >= 32 "
    "because the mismatch grows with |1/(W-1) - 1/(H-1)| * extent",
    "output px of an affine step are converted to input px with the smallest scale of the configured scale range",
    "keypoints closer than 2/r px to the border of a down-scaled image (r < 1) are not judged: anti-aliased down-scaling "
    "truncates its kernel there and biases the ramp; keypoints closer than 1 px to the border of an up-scaled image are not "
    "judged either (border clamping flattens the ramp in the outermost output pixel)",
    "only keypoints whose sampled mask is > 0.99 are judged (content moved out of frame / into padding / erased is not "
    "registered anywhere); the decoded coordinate is ch/mask so partial zero-padding does not bias it",
    "np_chunks mode stores the image through PIL uint8 with truncation: 1.0 input px extra tolerance when any resampling happened",
    "intensity augmentation destroys the ramp: with intensity on, the dataset part only compares keypoints with the "
    "un-augmented sample (bit-identical) except in mode 'both', where noise amplitudes are tiny (<= 0.1 ramp unit) and 0.3 px is added",
    "CentroidDataset leaves sample['instances'] un-augmented (only 'centroids' feed the targets): under geometric augmentation only 'centroids' are judged",
    "CenteredInstanceDataset 'centroid' is the crop centre by construction and is not moved by augmentation: judged only without geometric augmentation",
    "resizer output size: floor or ceil of H*scale accepted (the statement only fixes max_hw, stride multiples and crop size)",
    "find_instance_crop_size: minimality of the returned size is not asserted (not documented)",
    "find_instance_crop_size with min_crop_size > 0 and min_crop_size % maximum_stride == 0: the user-set size takes precedence "
    "(docstring 'The crop size set by the user', SLEAP heritage) - only multiple-of-stride, >= min_crop_size and == min_crop_size "
    "are asserted there, NOT that it covers the largest instance (class cropsize:user-set-size-precedence in class_counts)",
]

IMG_NORM = 256.0  # functional float images: value = coordinate / 256 (exact in float32, inside [0,1])
MASK_OK = 0.99
BASE_TOL_OUT = 0.25  # output px: bilinear read-back of an anti-aliased / twice interpolated ramp (measured residual <= 0.09)
AFFINE_TOL_OUT = 1.0
DATASETS = ["single", "bottomup", "centroid", "centered"]


# ----------------------------------------------------------------------------------
# shared helpers


def _ramp_np(h, w, norm):
    xs = np.tile(np.arange(w, dtype=np.float32), (h, 1)) / norm
    ys = np.tile(np.arange(h, dtype=np.float32)[:, None], (1, w)) / norm
    return np.stack([xs, ys, np.ones((h, w), np.float32)], 0)


def _kps_tensor(kps):
    import torch

    return torch.tensor(
        [[[math.nan, math.nan] if p is None else [float(p[0]), float(p[1])] for p in inst] for inst in kps],
        dtype=torch.float32,
    ).unsqueeze(0)


def _same(a, b):
    import torch

    return (
        a.shape == b.shape
        and bool(torch.equal(torch.isnan(a), torch.isnan(b)))
        and bool(torch.equal(torch.nan_to_num(a, nan=-12345.0), torch.nan_to_num(b, nan=-12345.0)))
    )


def _decode(img3, x, y, norm):
    """(x_in, y_in, mask) read back from a (3,H,W) float64 ramp image at (x, y); None if outside."""
    v = synth.bilinear(img3, x, y)
    if v is None:
        return None
    m = float(v[2])
    if m <= 1e-6:
        return (math.nan, math.nan, m)
    return (float(v[0]) / m * norm, float(v[1]) / m * norm, m)


def _valid_rect(mask, thr=0.5):
    """(h', w', is_top_left_prefix) of the region where mask > thr."""
    rows = (mask > thr).any(axis=1)
    cols = (mask > thr).any(axis=0)
    hv, wv = int(rows.sum()), int(cols.sum())
    prefix = bool(rows[:hv].all()) and bool(cols[:wv].all())
    return hv, wv, prefix


class Track:
    """Per-keypoint tolerance bookkeeping through a chain of steps (harness side only)."""

    def __init__(self, ref):
        self.ref = np.array(ref, dtype=np.float64).reshape(-1, 2)  # original coordinates
        n = self.ref.shape[0]
        self.tol_steps = np.zeros((n, 2))  # accumulated input px
        self.cum = 1.0  # nominal cumulative scale (smallest possible under augmentation)
        self.excluded = np.zeros(n, dtype=bool)  # near the border of a down-scaled image
        self.interior = np.ones(n, dtype=bool)  # >= max(2, 2/r) px from the border in every resize step
        self.valid = None  # (w, h) extent of real content in the current image (None: the whole image)
        self.extra_in = 0.0  # pixel-value allowances in input px (quantisation / tiny noise)
        self.identity = True

    def resize(self, pos, s, in_hw, out_valid_hw):
        """pos: (N,2) positions in the step's input image; s nominal scale; sizes (h,w)."""
        pos = np.array(pos, dtype=np.float64).reshape(-1, 2)
        ext = np.array([float(in_hw[1]), float(in_hw[0])])
        r = np.array([out_valid_hw[1] / in_hw[1], out_valid_hw[0] / in_hw[0]])  # x, y
        # integer output size: |s*extent - out| < 1 px over the full extent, hence the cap (a wrong scale is NOT absorbed)
        rounding = np.minimum(np.abs(s - r), 1.0 / ext)
        e_out = np.abs(np.nan_to_num(pos)) * rounding[None] + 0.5 * np.abs(1 - r)[None]
        self.cum *= s
        self.tol_steps += e_out / self.cum
        lim = (ext if self.valid is None else np.array(self.valid, dtype=np.float64)) - 1.0
        for ax in range(2):
            mrg = max(2.0, 2.0 / r[ax])
            inside = (pos[:, ax] >= mrg) & (pos[:, ax] <= lim[ax] - mrg)
            self.interior &= inside
            if r[ax] < 1:
                self.excluded |= ~inside
            elif r[ax] > 1:
                # up-scaling clamps at the border: the ramp is flat in the outermost output pixel, which a second
                # interpolation (crop at a fractional offset, affine) turns into up to 0.125*(r-1) output px
                self.excluded |= ~((pos[:, ax] >= 1.0) & (pos[:, ax] <= lim[ax] - 1.0))
        self.valid = (lim + 1.0) * r if self.valid is not None else None
        if s != 1.0 or tuple(in_hw) != tuple(out_valid_hw):
            self.identity = False

    def affine(self, min_scale):
        self.cum *= min(1.0, min_scale)
        self.tol_steps += AFFINE_TOL_OUT / self.cum
        self.identity = False

    def tol(self):
        return self.tol_steps + BASE_TOL_OUT / self.cum + self.extra_in


def _nan_clause(res, bucket, ref, out):
    rn = np.isnan(ref).any(-1)
    on = np.isnan(out).any(-1)
    if (rn & ~on).any():
        res.fail(f"{bucket}:nan-became-finite", f"input keypoints {ref.tolist()} -> output {np.round(out, 3).tolist()}")
    if (~rn & on).any() or (~rn & ~np.isfinite(out).all(-1)).any():
        res.fail(f"{bucket}:finite-became-nan", f"input keypoints {ref.tolist()} -> output {np.round(out, 3).tolist()}")


def _readback(res, bucket, img3, out, track, norm, must_find=None, idx=None):
    """Judge every finite output keypoint in valid content.  Returns indices judged.

    must_find: optional bool array - keypoints whose content must be present (non-cropping step /
    provably inside crop and frame): a mask <= 0.99 there is a failure."""
    ref = track.ref if idx is None else track.ref[idx]
    tol = track.tol() if idx is None else track.tol()[idx]
    excl = track.excluded if idx is None else track.excluded[idx]
    out = np.array(out, dtype=np.float64).reshape(-1, 2)
    judged = []
    worst = None
    lost = False
    for i in range(ref.shape[0]):
        if np.isnan(ref[i]).any() or not np.isfinite(out[i]).all() or excl[i]:
            continue
        d = _decode(img3, out[i, 0], out[i, 1], norm)
        if d is None or d[2] <= MASK_OK:
            if must_find is not None and must_find[i] and not lost:
                lost = True
                res.fail(
                    f"{bucket}:content-lost",
                    f"keypoint {ref[i].tolist()} -> {np.round(out[i], 3).tolist()} in an output of {img3.shape[2]}x{img3.shape[1]} (w x h): "
                    f"no valid image content there (mask {None if d is None else round(d[2], 3)})",
                )
            continue
        judged.append(i)
        err = np.abs(np.array(d[:2]) - ref[i])
        if (err > tol[i]).any():
            ratio = float((err / tol[i]).max())
            if worst is None or ratio > worst[0]:
                worst = (ratio, i, d, err)
    if worst is not None:
        _, i, d, err = worst
        res.fail(
            f"{bucket}:readback",
            f"keypoint {ref[i].tolist()} -> output {np.round(out[i], 3).tolist()}: the image there shows original coordinate "
            f"({d[0]:.3f}, {d[1]:.3f}); error {np.round(err, 3).tolist()} px > tolerance {np.round(tol[i], 3).tolist()} px",
        )
    return judged


def _spread(ref, judged):
    """At least two judged keypoints differing by > 1 px in both x and y."""
    pts = [ref[i] for i in judged]
    for a in range(len(pts)):
        for b in range(a + 1, len(pts)):
            if abs(pts[a][0] - pts[b][0]) > 1 and abs(pts[a][1] - pts[b][1]) > 1:
                return True
    return False


# ----------------------------------------------------------------------------------
# functional part


def _functional_pipeline(case):
    """Returns run(img) -> list of stage dicts; every call of the code under test is in here."""

    def run(img):
        import torch
        from sleap_nn.data.augmentation import apply_geometric_augmentation, apply_intensity_augmentation
        from sleap_nn.data.instance_cropping import generate_crops
        from sleap_nn.data.resizing import apply_pad_to_stride, apply_resizer, apply_sizematcher, find_padding_for_stride

        stages = []
        kps = _kps_tensor(case["kps"])
        centroid = None if case.get("crop") is None else torch.tensor(case["crop"]["centroid"], dtype=torch.float32)
        stages.append({"name": "input", "img": img, "kps": kps})
        n_ch = int(img.shape[1])
        if case.get("max_hw") is not None:
            img_in, kps_in = img, kps
            img, eff = apply_sizematcher(img, case["max_hw"][0], case["max_hw"][1])
            kps = kps * eff  # what every dataset does with the returned ratio
            if centroid is not None:
                centroid = centroid * eff
            stages.append({"name": "sizematcher", "img": img, "kps": kps, "eff": float(eff), "img_in": img_in, "kps_in": kps_in})
        if case.get("scale") is not None:
            img_in, kps_in = img, kps
            img, kps = apply_resizer(img, kps, scale=case["scale"])
            if centroid is not None:
                centroid = centroid * case["scale"]
            stages.append({"name": "resizer", "img": img, "kps": kps, "img_in": img_in, "kps_in": kps_in})
        if case.get("crop") is not None:
            img_in, kps_in = img, kps
            out = generate_crops(img, kps[0, case["crop"]["inst"]], centroid, tuple(case["crop"]["hw"]))
            img, kps = out["instance_image"], out["instance"]
            stages.append({
                "name": "crop", "img": img, "kps": kps, "img_in": img_in, "kps_in": kps_in, "bbox": out["instance_bbox"],
                "centroid_out": out["centroid"], "centroid_in": centroid.clone(),
            })
        if case.get("stride") is not None:
            img_in, kps_in = img, kps
            ph, pw = find_padding_for_stride(int(img.shape[-2]), int(img.shape[-1]), case["stride"])
            img = apply_pad_to_stride(img, case["stride"])
            stages.append({"name": "pad", "img": img, "kps": kps, "img_in": img_in, "kps_in": kps_in, "pad": (int(ph), int(pw))})
        if case.get("intensity") is not None:
            img_in, kps_in = img, kps
            img, kps = apply_intensity_augmentation(img, kps, **case["intensity"])
            stages.append({"name": "intensity", "img": img, "kps": kps, "img_in": img_in, "kps_in": kps_in})
        if case.get("geo") is not None:
            img_in, kps_in = img, kps
            g = dict(case["geo"])
            if g.get("scale") is not None:
                g["scale"] = tuple(g["scale"])
            if g.get("mixup_lambda") is not None:
                g["mixup_lambda"] = tuple(g["mixup_lambda"])
            img, kps = apply_geometric_augmentation(img, kps, **g)
            stages.append({"name": "geo", "img": img, "kps": kps, "img_in": img_in, "kps_in": kps_in})
        for st_ in stages:
            st_["chan_ok"] = st_["img"].dim() == 4 and int(st_["img"].shape[0]) == 1 and int(st_["img"].shape[1]) == n_ch
        return stages

    return run


def _run_planes(case, run):
    """3 channels: one run.  1 channel: x-ramp, y-ramp and mask runs with the same torch seed, merged."""
    import torch

    base = _ramp_np(case["h"], case["w"], IMG_NORM)
    if case["channels"] == 3:
        torch.manual_seed(case["torch_seed"])
        return run(torch.from_numpy(base)[None].clone()), None
    runs = []
    for c in range(3):
        torch.manual_seed(case["torch_seed"])
        runs.append(run(torch.from_numpy(base[c : c + 1])[None].clone()))
    merged, why = [], None
    for sts in zip(*runs):
        st = dict(sts[0])
        for key in ("img", "img_in"):
            if key in st:
                st[key] = torch.cat([s[key] for s in sts], dim=1)
        for other in sts[1:]:
            if not _same(other["kps"], st["kps"]):
                why = f"stage {st['name']}: keypoints differ between runs on different image content with the same torch seed"
            for key in ("eff", "pad"):
                if key in st and other[key] != st[key]:
                    why = f"stage {st['name']}: {key} differs between runs on different image content"
        merged.append(st)
    return merged, why


def _np3(img):
    a = img.detach().numpy().astype(np.float64)
    return a.reshape(-1, a.shape[-2], a.shape[-1])


def eval_functional(case):
    import torch

    res = Result()
    res.cls(case["cls"], f"channels={case['channels']}")
    out = runner.guarded(res, "functional", _run_planes, case, _functional_pipeline(case))
    if out is runner.FAILED:
        res.nontrivial = True
        return res
    stages, why = out
    if why:
        res.fail("functional:content-dependent-keypoints", why)
    ref_all = _kps_tensor(case["kps"]).numpy().astype(np.float64)[0]  # (n_inst, n_nodes, 2)
    n_inst, n_nodes = ref_all.shape[:2]
    track = Track(ref_all.reshape(-1, 2))
    sel = np.arange(n_inst * n_nodes)  # which reference keypoints the current `kps` tensor holds
    pixels_ok = True  # False once an intensity op destroyed the ramp
    readback_failed = False
    judged_final = []
    res.n_evals = 0
    C = case["channels"]

    def kp_np(t):
        return t.detach().numpy().astype(np.float64).reshape(-1, 2)

    for st in stages[1:]:
        name = st["name"]
        img3 = _np3(st["img"])
        in3 = _np3(st["img_in"])
        ih, iw = in3.shape[1:]
        oh, ow = img3.shape[1:]
        kin, kout = kp_np(st["kps_in"]), kp_np(st["kps"])
        b = f"functional:{name}"
        res.n_evals += 1
        if not st.get("chan_ok", True) or st["img"].dim() != 4:
            res.fail(f"{b}:shape", f"output image rank/channels changed for a (1,{C},H,W) input")
            break
        must = None
        if name == "sizematcher":
            mh = case["max_hw"][0] if case["max_hw"][0] is not None else ih
            mw = case["max_hw"][1] if case["max_hw"][1] is not None else iw
            if (oh, ow) != (mh, mw):
                res.fail(f"{b}:size", f"{ih}x{iw} matched to max_hw {case['max_hw']}: output is {oh}x{ow}")
            hv, wv, prefix = _valid_rect(img3[2])
            m = img3[2]
            # anti-aliased / bilinear resampling of an all-ones mask stays 1 up to float rounding; padding is exact 0
            if not prefix or m[:hv, :wv].min() < 0.999 or (hv < oh and np.abs(m[hv:]).max() != 0) or (wv < ow and np.abs(m[:, wv:]).max() != 0):
                res.fail(f"{b}:pad-not-bottom-right", f"{ih}x{iw} -> max_hw {case['max_hw']}: valid mask is not 1 on [0,{hv})x[0,{wv}) and 0 elsewhere")
            eff = st["eff"]
            # (d) returned ratio == ratio applied: valid extent (integer, rounding <= 0.5 px) ...
            if abs(eff * ih - hv) > 0.5 + 1e-3 or abs(eff * iw - wv) > 0.5 + 1e-3:
                res.fail(f"{b}:eff-scale", f"{ih}x{iw} -> max_hw {case['max_hw']}: returned eff_scale {eff:.5f} but the image content occupies {hv}x{wv} (ratios {hv / ih:.5f}, {wv / iw:.5f})")
            # ... and the slope of the ramp inside the valid region (content really is scaled by it, not cut)
            for ax, (nv, nin) in enumerate(((wv, iw), (hv, ih))):
                j1, j2 = int(math.ceil(0.25 * nv)), int(math.floor(0.75 * nv)) - 1
                if j2 - j1 >= 4:
                    line = (img3[0, hv // 2, :wv] if ax == 0 else img3[1, :hv, wv // 2]) * IMG_NORM
                    slope = (line[j2] - line[j1]) / (j2 - j1)  # input px per output px = 1/r
                    # ramp is linear in the interior (measured deviation <= 0.06 input px/r): 0.2/r over the baseline
                    if abs(slope - nin / nv) > 0.2 * (nin / nv) / (j2 - j1) + 1e-4:
                        res.fail(f"{b}:eff-scale-slope", f"{ih}x{iw} -> max_hw {case['max_hw']}: axis {ax} ramp slope {slope:.4f} input px per output px, valid extent says {nin / nv:.4f}")
            # no content lost: first / last valid pixel show the first / last input pixel (within one output px + 0.5)
            if hv > 0 and wv > 0:
                rx, ry = wv / iw, hv / ih
                c0 = np.array([img3[0, 0, 0], img3[1, 0, 0]]) * IMG_NORM
                c1 = np.array([img3[0, hv - 1, wv - 1], img3[1, hv - 1, wv - 1]]) * IMG_NORM
                lim = np.array([1 / rx + 0.5, 1 / ry + 0.5])
                if (c0 > lim).any() or (c1 < np.array([iw - 1, ih - 1]) - lim).any():
                    res.fail(f"{b}:content-cut", f"{ih}x{iw} -> max_hw {case['max_hw']}: valid region shows input ({c0[0]:.1f},{c0[1]:.1f})..({c1[0]:.1f},{c1[1]:.1f}), not the whole frame")
            track.resize(kin, eff, (ih, iw), (max(hv, 1), max(wv, 1)))
            track.valid = (float(wv), float(hv))
            must = track.interior[sel].copy()
            if eff == 1.0 and (oh, ow) == (ih, iw) and not torch.equal(st["img"], st["img_in"]):
                res.fail(f"{b}:identity-changed-image", f"max_hw {case['max_hw']} equals the image size but the image changed")
        elif name == "resizer":
            s = case["scale"]
            # floor or ceil of H*scale (int(170 * 0.7) is 118 in floating point: "floor" of an exact 119 included)
            if abs(oh - ih * s) >= 1 + 1e-6 or abs(ow - iw * s) >= 1 + 1e-6:
                res.fail(f"{b}:size", f"{ih}x{iw} scaled by {s}: output is {oh}x{ow}")
            if s == 1.0 and (not torch.equal(st["img"], st["img_in"]) or not _same(st["kps"], st["kps_in"])):
                res.fail(f"{b}:identity-changed", "scale 1.0 changed the image or the keypoints")
            if in3[2].min() >= 0.999 and img3[2].min() < 0.999:
                res.fail(f"{b}:mask", f"{ih}x{iw} scaled by {s}: a resized all-ones plane has values down to {img3[2].min():.4f}")
            track.resize(kin, s, (ih, iw), (oh, ow))
            must = track.interior[sel].copy()
        elif name == "crop":
            ch, cw = case["crop"]["hw"]
            if (oh, ow) != (ch, cw):
                res.fail(f"{b}:size", f"crop_size {(ch, cw)}: instance_image is {oh}x{ow}")
            i0 = case["crop"]["inst"]
            sel = sel.reshape(n_inst, n_nodes)[i0]
            kin = kin.reshape(n_inst, n_nodes, 2)[i0]
            if kout.shape[0] != n_nodes:
                res.fail(f"{b}:shape", f"instance has shape {tuple(st['kps'].shape)} for {n_nodes} nodes")
                break
            bbox = st["bbox"].detach().numpy().astype(np.float64)
            bbox = bbox.reshape(4, 2) if bbox.size == 8 else bbox
            cin = st["centroid_in"].numpy().astype(np.float64)
            cout = kp_np(st["centroid_out"])[0]
            # where the crop was taken: crop pixels (0,0),(w-1,0),(w-1,h-1),(0,h-1) show the four instance_bbox
            # corners and the returned crop-centroid shows the centroid.  Judged when nothing was resampled before
            # the crop (decoded value == source coordinate exactly; bilinear on a linear ramp: 0.02 px float slack).
            if track.identity:
                corners = [(0.0, 0.0), (cw - 1.0, 0.0), (cw - 1.0, ch - 1.0), (0.0, ch - 1.0)]
                if bbox.shape != (4, 2):
                    res.fail(f"{b}:bbox-or-centroid", f"instance_bbox has shape {tuple(st['bbox'].shape)}")
                else:
                    for (px, py), corner, what in [(c_, k_, "instance_bbox corner") for c_, k_ in zip(corners, bbox)] + [((cout[0], cout[1]), cin, "centroid")]:
                        d = _decode(img3, px, py, IMG_NORM)
                        if d is None or d[2] <= MASK_OK:
                            continue
                        err = np.abs(np.array(d[:2]) - corner)
                        if (err > 0.02).any():
                            res.fail(f"{b}:bbox-or-centroid", f"crop {(ch, cw)} about {np.round(cin, 3).tolist()}: crop position ({px:.2f},{py:.2f}) shows source ({d[0]:.3f},{d[1]:.3f}) but the returned {what} is {np.round(corner, 3).tolist()}")
                            break
            # content must be found: the crop is centred on the centroid (documented), so a keypoint closer than
            # half a crop - 2 px to it, lying >= 1 px inside the source content, has to show up in the crop.  Derived
            # from the INPUT geometry only (a wrong offset cannot hide behind "keypoint is outside the crop").
            vw_, vh_ = (iw, ih) if track.valid is None else track.valid
            must = (
                (np.abs(kin[:, 0] - cin[0]) <= cw / 2 - 2) & (np.abs(kin[:, 1] - cin[1]) <= ch / 2 - 2)
                & (kin[:, 0] >= 1) & (kin[:, 0] <= vw_ - 2) & (kin[:, 1] >= 1) & (kin[:, 1] <= vh_ - 2)
                & track.interior[sel]
            )
            track.identity = False
        elif name == "pad":
            stride = case["stride"]
            eh, ew = -(-ih // stride) * stride, -(-iw // stride) * stride
            if (oh, ow) != (eh, ew):
                res.fail(f"{b}:size", f"{ih}x{iw} padded for stride {stride}: output {oh}x{ow}, expected the next multiples {eh}x{ew}")
            ph, pw = st["pad"]
            if not (0 <= ph < stride and 0 <= pw < stride and (ih + ph) % stride == 0 and (iw + pw) % stride == 0):
                res.fail(f"{b}:find-padding", f"find_padding_for_stride({ih},{iw},{stride}) = {(ph, pw)}")
            if oh >= ih and ow >= iw:
                if not np.array_equal(img3[:, :ih, :iw], in3):
                    res.fail(f"{b}:pad-not-bottom-right", f"{ih}x{iw} padded for stride {stride}: the top-left {ih}x{iw} block is not the input image")
                elif (oh > ih and np.abs(img3[:, ih:]).max() != 0) or (ow > iw and np.abs(img3[:, :, iw:]).max() != 0):
                    res.fail(f"{b}:pad-not-zero", f"{ih}x{iw} padded for stride {stride}: padding is not 0")
            if not _same(st["kps"], st["kps_in"]):
                res.fail(f"{b}:keypoints-moved", "padding changed the keypoints")
            if (oh, ow) != (ih, iw):
                track.identity = False
            must = (kin[:, 0] >= 0) & (kin[:, 0] <= iw - 1) & (kin[:, 1] >= 0) & (kin[:, 1] <= ih - 1) & track.interior[sel]
            if "crop" in [s_["name"] for s_ in stages]:
                must = None  # crop content may already be outside the source frame
        elif name == "intensity":
            if (oh, ow) != (ih, iw):
                res.fail(f"{b}:size", f"intensity augmentation changed the image size {ih}x{iw} -> {oh}x{ow}")
            if not _same(st["kps"], st["kps_in"]):
                res.fail(f"{b}:keypoints-moved", f"intensity-only augmentation changed keypoints {np.round(kin, 3).tolist()} -> {np.round(kout, 3).tolist()}")
            pixels_ok = False
        elif name == "geo":
            g = case["geo"]
            if (oh, ow) != (ih, iw):
                res.fail(f"{b}:size", f"geometric augmentation changed the image size {ih}x{iw} -> {oh}x{ow}")
            if tuple(st["kps"].shape) != tuple(st["kps_in"].shape):
                res.fail(f"{b}:shape", f"keypoints shape {tuple(st['kps_in'].shape)} -> {tuple(st['kps'].shape)}")
                break
            if g.get("affine_p", 0) <= 0:
                if not _same(st["kps"], st["kps_in"]):
                    res.fail(f"{b}:keypoints-moved-by-pixel-op", f"erase/mixup-only augmentation changed keypoints {np.round(kin, 3).tolist()} -> {np.round(kout, 3).tolist()}")
                if g.get("erase_p", 0) <= 0 and g.get("mixup_p", 0) <= 0 and not torch.equal(st["img"], st["img_in"]):
                    res.fail(f"{b}:identity-changed-image", "augmentation with every probability 0 changed the image")
            else:
                sc = g.get("scale")
                track.affine(min(sc) if sc else 1.0)
                if g.get("erase_p", 0) <= 0:
                    # content must be found when the source point has valid content 3 px around it and the output
                    # keypoint is 3 px inside the output frame (warp error < 1 output px = <= 2 source px at scale 0.5)
                    ok = []
                    for p_in, p_out in zip(kin, kout):
                        if not (np.isfinite(p_in).all() and np.isfinite(p_out).all()) or not (3 <= p_in[0] <= iw - 4 and 3 <= p_in[1] <= ih - 4 and 3 <= p_out[0] <= ow - 4 and 3 <= p_out[1] <= oh - 4):
                            ok.append(False)
                            continue
                        x0, y0 = int(math.floor(p_in[0])), int(math.floor(p_in[1]))
                        ok.append(bool(in3[2, y0 - 2 : y0 + 4, x0 - 2 : x0 + 4].min() > 0.999))
                    must = np.array(ok, dtype=bool)
        # NaN / finite preservation and read-back
        ref = track.ref[sel]
        _nan_clause(res, b, ref, kout)
        if pixels_ok and not readback_failed and name != "intensity":
            nfail = len(res.failures)
            judged_final = [ref[j] for j in _readback(res, b, img3, kout, track, IMG_NORM, must_find=must, idx=sel)]
            if len(res.failures) > nfail:
                readback_failed = True  # later stages inherit the error: one bucket per root cause
    res.n_evals = max(1, res.n_evals)
    res.nontrivial = (not track.identity) and pixels_ok and _spread(judged_final, range(len(judged_final)))
    if not res.nontrivial and (not track.identity) and pixels_ok and (case.get("geo") or {}).get("affine_p", 0) > 0:
        # an affine warp may legitimately move everything out of frame: fall back to eligibility of the input
        elig = [track.ref[j] for j in sel if not np.isnan(track.ref[j]).any() and not track.excluded[j]]
        res.nontrivial = _spread(elig, range(len(elig)))
    if case.get("intensity") is not None and len(stages) == 2:
        # intensity-only case: nothing can be read back; non-trivial = an intensity op with p=1 and >= 2 finite keypoints compared
        res.nontrivial = int((~np.isnan(track.ref).any(-1)).sum()) >= 2
    if any(np.isnan(track.ref).any(-1)):
        res.cls("has_nan_keypoint")
    res.nontrivial = res.nontrivial or bool(res.failures)  # a case that exposes a violation is not vacuous
    res.cls(f"judged={min(len(judged_final), 4)}{'+' if len(judged_final) >= 4 else ''}")
    return res


# ---- generator


def _pt(draw, st, w, h, lo=3.0):
    """interior sub-pixel point at least `lo` px from every border."""
    x = draw(st.integers(int(math.ceil(lo)), max(int(math.ceil(lo)), int(w - 1 - lo) - 1))) + draw(st.sampled_from([0.0, 0.25, 0.5, 0.75]))
    y = draw(st.integers(int(math.ceil(lo)), max(int(math.ceil(lo)), int(h - 1 - lo) - 1))) + draw(st.sampled_from([0.0, 0.25, 0.5, 0.75]))
    return [float(x), float(y)]


def _keypoints(draw, st, w, h, n_inst, n_nodes, lo=3.0, around=None, radius=None):
    """n_inst x n_nodes points: classes interior / border / NaN; two spread interior points guaranteed."""
    kps = []
    for i in range(n_inst):
        inst = []
        for n in range(n_nodes):
            cls = draw(st.sampled_from(["in", "in", "in", "in", "border", "nan"]))
            if around is not None and cls == "in":
                cx, cy = around
                x = min(max(cx + draw(st.integers(-int(radius[0]), int(radius[0]))) + draw(st.sampled_from([0.0, 0.25, 0.5])), 0.0), w - 1.0)
                y = min(max(cy + draw(st.integers(-int(radius[1]), int(radius[1]))) + draw(st.sampled_from([0.0, 0.5, 0.75])), 0.0), h - 1.0)
                inst.append([float(x), float(y)])
            elif cls == "in":
                inst.append(_pt(draw, st, w, h, lo))
            elif cls == "border":
                side = draw(st.integers(0, 3))
                t = draw(st.floats(0.0, 1.0, allow_nan=False, width=32))
                off = draw(st.sampled_from([0.0, 0.5, 1.0, 1.75]))
                p = [t * (w - 1), off] if side == 0 else [t * (w - 1), h - 1 - off] if side == 1 else [off, t * (h - 1)] if side == 2 else [w - 1 - off, t * (h - 1)]
                inst.append([float(round(p[0] * 4) / 4), float(round(p[1] * 4) / 4)])
            else:
                inst.append(None)
        kps.append(inst)
    if around is None:
        # guarantee: instance 0 has two interior points differing in both axes
        a = _pt(draw, st, w, h, lo)
        bx = a[0] + (5 if a[0] + 5 <= w - 1 - lo else -5)
        by = a[1] + (4 if a[1] + 4 <= h - 1 - lo else -4)
        kps[0][0] = a
        kps[0][1] = [float(bx), float(by)]
    else:
        cx, cy = around
        kps[0][0] = [float(min(max(cx + 2.25, 0), w - 1)), float(min(max(cy - 1.5, 0), h - 1))]
        kps[0][1] = [float(min(max(cx - 3.0, 0), w - 1)), float(min(max(cy + 2.75, 0), h - 1))]
    return kps


FUNC_CLASSES = [
    "sizematcher|identity", "sizematcher|pad", "sizematcher|up", "sizematcher|down", "sizematcher|mixed",
    "resizer|identity", "resizer|down", "resizer|up", "resizer|inexact",
    "pad|identity", "pad|pad",
    "crop|interior", "crop|border", "crop|border",
    "geo|off", "geo|pixel-only", "geo|rotate", "geo|affine", "geo|affine", "geo|affine+erase+mixup",
    "intensity|on",
    "chain|sizematch+scale+pad", "chain|sizematch+scale+pad", "chain|scale+crop+pad", "chain|scale+crop+pad",
    "chain|scale+pad+affine", "chain|sizematch+scale+crop+pad+affine",
]

EXACT_SCALES = [0.25, 0.5, 0.75, 1.25, 1.5, 2.0]
INEXACT_SCALES = [0.3, 0.35, 0.6, 0.7, 0.9, 1.1, 1.3, 1.7]
CROPS = [[16, 16], [21, 21], [32, 32], [33, 33], [48, 48], [64, 64], [24, 40], [40, 24], [17, 32], [128, 128], [45, 45]]


def _sizematch_params(draw, st, h, w, kind):
    """max_hw for a class; returns [mh, mw] (entries may be None)."""
    if kind == "identity":
        return draw(st.sampled_from([[None, None], [h, w], [None, w], [h, None]]))
    if kind == "pad":
        d = draw(st.integers(1, 40))
        return draw(st.sampled_from([[h + d, w], [h, w + d], [None, w + d], [h + d, None]]))
    if kind == "up":
        f = draw(st.sampled_from([1.1, 1.25, 1.5, 2.0, 1.33]))
    elif kind == "down":
        f = draw(st.sampled_from([0.5, 0.75, 0.4, 0.25, 0.9, 0.6]))
        while min(h, w) * f < 12:
            f = min(1.0, f * 1.5)
    else:  # mixed: one axis larger, the other smaller
        f = draw(st.sampled_from([0.5, 0.7, 0.85]))
        while min(h, w) * f < 12:
            f = min(1.0, f * 1.5)
        extra = draw(st.integers(5, 60))
        return [int(round(h * f)), w + extra] if draw(st.booleans()) else [h + extra, int(round(w * f))]
    extra = draw(st.sampled_from([0, 0, 1, 7, 30]))
    mh, mw = int(round(h * f)), int(round(w * f))
    # which axis binds: the other one gets slack (padding there)
    return [mh, mw + extra] if draw(st.booleans()) else [mh + extra, mw]


def _geo_params(draw, st, kind):
    g = {"rotation": 0.0, "scale": None, "translate_width": 0.0, "translate_height": 0.0, "affine_p": 0.0}
    if kind in ("rotate", "affine", "affine+erase+mixup"):
        g["affine_p"] = 1.0
        g["rotation"] = draw(st.sampled_from([15.0, 45.0, 90.0, 180.0]))
    if kind in ("affine", "affine+erase+mixup"):
        g["scale"] = draw(st.sampled_from([None, [0.9, 1.1], [0.5, 1.5], [0.5, 0.6], [1.4, 1.5], [0.8, 1.2, 0.8, 1.2]]))
        g["translate_width"] = draw(st.sampled_from([0.0, 0.02, 0.1, 0.3]))
        g["translate_height"] = draw(st.sampled_from([0.0, 0.02, 0.1, 0.3]))
    if kind in ("pixel-only", "affine+erase+mixup"):
        which = draw(st.sampled_from(["erase", "mixup", "both"]))
        if which in ("erase", "both"):
            g.update({"erase_p": 1.0, "erase_scale_min": 0.001, "erase_scale_max": draw(st.sampled_from([0.01, 0.05])), "erase_ratio_min": 1, "erase_ratio_max": draw(st.sampled_from([1, 2]))})
        if which in ("mixup", "both"):
            g.update({"mixup_p": 1.0, "mixup_lambda": draw(st.sampled_from([None, [0.1, 0.9]]))})
    return g


def strategy_functional(op_fixed):
    from hypothesis import strategies as st

    classes = [c for c in FUNC_CLASSES if c.split("|")[0] == op_fixed]

    @st.composite
    def case(draw):
        cls = draw(st.sampled_from(classes))
        op, kind = cls.split("|")
        affine = op == "geo" and kind not in ("off", "pixel-only") or (op == "chain" and "affine" in kind)
        exact = not (op == "resizer" and kind == "inexact")
        # sizes: multiples of 4 for exact scaling; aspect up to 4:1 (<= 2:1 and >= 32 px when an affine warp follows)
        if affine:
            h = draw(st.sampled_from([32, 40, 48, 64, 96, 128]))
            w = draw(st.sampled_from([x for x in [32, 40, 48, 64, 96, 128, 160, 192] if 0.5 <= x / h <= 2.0]))
        elif exact:
            h = draw(st.sampled_from([24, 32, 48, 60, 64, 96, 120, 160, 240]))
            w = draw(st.sampled_from([x for x in [24, 32, 48, 60, 64, 96, 100, 120, 160, 200, 240] if 0.25 <= x / h <= 4.0]))
        else:
            h = draw(st.integers(24, 240))
            w = draw(st.integers(max(24, (h + 3) // 4), min(240, 4 * h)))
        c = {"cls": cls, "h": h, "w": w, "channels": draw(st.sampled_from([3, 3, 1])), "torch_seed": draw(st.integers(0, 10**6)),
             "max_hw": None, "scale": None, "crop": None, "stride": None, "intensity": None, "geo": None}
        n_inst, n_nodes = draw(st.integers(1, 2)), draw(st.integers(2, 4))
        cum = 1.0
        if op == "sizematcher":
            c["max_hw"] = _sizematch_params(draw, st, h, w, kind)
        elif op == "resizer":
            c["scale"] = 1.0 if kind == "identity" else draw(st.sampled_from([s for s in EXACT_SCALES if (s < 1) == (kind == "down")])) if kind in ("down", "up") else draw(st.sampled_from(INEXACT_SCALES))
            while min(h, w) * c["scale"] < 8:
                c["scale"] = min(1.0, c["scale"] * 2)
        elif op == "pad":
            c["stride"] = 1 if (kind == "identity" and draw(st.booleans())) else draw(st.sampled_from([2, 8, 16, 32]))
            if kind == "identity":
                c["h"] = h = max(32, h // 32 * 32)
                c["w"] = w = max(32, w // 32 * 32)
            else:
                c["h"] = h = h + draw(st.integers(1, 7)) * (1 if c["stride"] > 2 else 2) - (0 if c["stride"] > 2 else 1)
                c["w"] = w = w + draw(st.integers(0, 9))
        elif op == "geo":
            c["geo"] = _geo_params(draw, st, kind)
        elif op == "intensity":
            c["intensity"] = {
                "uniform_noise_p": draw(st.sampled_from([0.0, 1.0])), "uniform_noise_min": 0.0, "uniform_noise_max": 0.04,
                "gaussian_noise_p": draw(st.sampled_from([0.0, 1.0])), "gaussian_noise_mean": 0.02, "gaussian_noise_std": 0.004,
                "contrast_p": draw(st.sampled_from([0.0, 1.0])), "contrast_min": 0.5, "contrast_max": 2.0,
                "brightness_p": 1.0, "brightness": draw(st.sampled_from([[0.8, 1.2], [0.5, 1.5]])),
            }
        elif op == "chain":
            if "sizematch" in kind:
                c["max_hw"] = _sizematch_params(draw, st, h, w, draw(st.sampled_from(["pad", "up", "down", "mixed"])))
            c["scale"] = draw(st.sampled_from([0.5, 0.75, 1.0, 1.25, 1.5, 2.0] if "affine" not in kind else [0.5, 1.0, 1.5]))
            c["stride"] = draw(st.sampled_from([2, 8, 16, 32]))
            if "affine" in kind:
                c["geo"] = _geo_params(draw, st, draw(st.sampled_from(["rotate", "affine", "affine"])))
        # nominal geometry after sizematcher / resizer, for placing a crop
        hh, ww = float(h), float(w)
        if c["max_hw"] is not None:
            mh = c["max_hw"][0] if c["max_hw"][0] is not None else h
            mw = c["max_hw"][1] if c["max_hw"][1] is not None else w
            if (mh, mw) != (h, w):
                cum *= min(mh / h, mw / w)
            hh, ww = float(mh), float(mw)
        if c["scale"] is not None:
            cum *= c["scale"]
            hh, ww = hh * c["scale"], ww * c["scale"]
        lo = 3.0 if cum >= 1 else 3.0 / cum  # generated interior points stay judgeable after down-scaling
        if min(h, w) - 1 - 2 * lo < 8:
            lo = 3.0
        around = radius = None
        if op == "crop" or (op == "chain" and "crop" in kind):
            vw, vh = w * cum, h * cum  # extent of real content in the crop's source image
            ch, cw = draw(st.sampled_from(CROPS))
            if op == "chain" and "affine" in kind:
                ch, cw = draw(st.sampled_from([[32, 32], [45, 45], [48, 64], [64, 48], [64, 64]]))
            elif kind == "interior":
                ch, cw = draw(st.sampled_from([c_ for c_ in CROPS if c_[1] + 3 < vw and c_[0] + 3 < vh] or [[16, 16]]))
            border = kind == "border" or (op == "chain" and draw(st.booleans()))
            if border or vw <= cw + 2 or vh <= ch + 2:
                # centroid within half a crop of a border (or corner) of the content
                sx, sy = draw(st.sampled_from([(0, 0), (0, 1), (1, 0), (1, 1), (0, None), (None, 0), (1, None), (None, 1)]))
                def coord(side, ext, half):
                    if side is None:
                        return draw(st.floats(0.0, 1.0, width=32)) * (ext - 1)
                    d = draw(st.floats(0.0, 1.0, width=32)) * min(half, (ext - 1) / 2)
                    return d if side == 0 else ext - 1 - d
                cx, cy = coord(sx, vw, cw / 2), coord(sy, vh, ch / 2)
                c["cls"] = cls if op == "chain" else "crop|border"
                res_border = True
            else:
                cx = cw / 2 + draw(st.floats(0.0, 1.0, width=32)) * (vw - cw - 1)
                cy = ch / 2 + draw(st.floats(0.0, 1.0, width=32)) * (vh - ch - 1)
                res_border = False
            # centroid in ORIGINAL coordinates on a 1/4 px grid
            ocx, ocy = round(cx / cum * 4) / 4, round(cy / cum * 4) / 4
            ocx, ocy = min(max(ocx, 0.0), w - 1.0), min(max(ocy, 0.0), h - 1.0)
            c["crop"] = {"hw": [ch, cw], "inst": draw(st.integers(0, n_inst - 1)), "centroid": [float(ocx), float(ocy)], "at_border": res_border}
            around, radius = (ocx, ocy), (max(1.0, (cw / 2 - 2) / cum), max(1.0, (ch / 2 - 2) / cum))
        kps = _keypoints(draw, st, w, h, n_inst, n_nodes, lo=lo, around=around, radius=radius)
        if op == "intensity":  # not exactly representable in reduced precision
            kps = [[None if q is None else [q[0] + 0.1, q[1] + 0.3] for q in inst] for inst in kps]
        if c["crop"] is not None and c["crop"]["inst"] != 0:
            kps[0], kps[c["crop"]["inst"]] = kps[c["crop"]["inst"]], kps[0]
        c["kps"] = kps
        return c

    return case()


# ----------------------------------------------------------------------------------
# dataset part


def _make_dataset(kind, labels, cfg, aug, chunks_dir):
    from omegaconf import OmegaConf
    from sleap_nn.data.custom_datasets import BottomUpDataset, CenteredInstanceDataset, CentroidDataset, SingleInstanceDataset

    dc = synth.data_config(is_rgb=cfg["is_rgb"], user_instances_only=True, augmentation=aug)
    head = OmegaConf.create({"sigma": 1.5, "output_stride": 2, "anchor_part": cfg["anchor"]})
    common = dict(
        labels=labels, data_config=dc, max_stride=cfg["max_stride"], scale=cfg["scale"], apply_aug=aug is not None,
        max_hw=tuple(cfg["max_hw"]), np_chunks=cfg["np_chunks"], np_chunks_path=chunks_dir,
    )
    if kind == "single":
        return SingleInstanceDataset(confmap_head_config=head, **common)
    if kind == "centroid":
        return CentroidDataset(confmap_head_config=head, **common)
    if kind == "centered":
        return CenteredInstanceDataset(crop_hw=tuple(cfg["crop_hw"]), confmap_head_config=head, **common)
    pafs = OmegaConf.create({"sigma": 4.0, "output_stride": 4})
    return BottomUpDataset(confmap_head_config=head, pafs_head_config=pafs, **common)


def _aug_config(case):
    mode = case["aug_mode"]
    if mode == "none":
        return None
    aug = {}
    if mode in ("intensity", "both"):
        aug["intensity"] = dict(case["intensity"])
    if mode in ("geo", "both"):
        aug["geometric"] = dict(case["geo"])
    return aug


def _expected_centroid(pts, anchor):
    """anchor if visible else bounding-box midpoint of the visible nodes (documented; C11 checks it)."""
    vis = ~np.isnan(pts).any(-1)
    if anchor is not None and vis[anchor]:
        return pts[anchor]
    v = pts[vis]
    return (v.max(0) + v.min(0)) / 2


def eval_dataset(case):
    import torch

    res = Result()
    kind, cfg, mode = case["kind"], case["cfg"], case["aug_mode"]
    res.cls(f"ds={kind}|aug={mode}", f"ds={kind}|{case['geom'].split(',')[0]}", f"ds={kind}|{case['geom'].split(',')[1]}", f"aug={mode}|{case['geom']}", "gray-3-videos" if case["gray"] else "rgb", f"np_chunks={cfg['np_chunks']}")
    h, w = case["h"], case["w"]
    frames = case["frames"]
    n_planes = 3 if case["gray"] else 1
    spec = {
        "skeleton": {"n_nodes": case["n_nodes"], "edges": [[i, i + 1] for i in range(case["n_nodes"] - 1)]},
        "videos": [{"h": h, "w": w, "kind": "gray_x" if case["gray"] else "rgb", "n_frames": len(frames)} for _ in range(n_planes)],
        "frames": [{"video": v, "frame_idx": fi, "instances": [{"pts": inst} for inst in fr]} for v in range(n_planes) for fi, fr in enumerate(frames)],
    }
    d = env.scratch_dir("c04")
    try:
        labels, info = synth.build_labels(spec, d + "/src")
        if case["gray"]:
            # videos 1 and 2 become the y-ramp and the all-255 validity plane (same file names, same size)
            import imageio.v3 as iio

            for fi in range(len(frames)):
                iio.imwrite(f"{d}/src/v1_f{fi:03d}.png", synth.ramp_image(h, w, "gray_y"))
                iio.imwrite(f"{d}/src/v2_f{fi:03d}.png", np.full((h, w), 255, np.uint8))
        aug = _aug_config(case)
        ds = runner.guarded(res, f"dataset:{kind}:construct", _make_dataset, kind, labels, cfg, aug, d + "/chunks")
        if ds is runner.FAILED:
            return res
        ds_plain = None
        if mode == "intensity":
            ds_plain = runner.guarded(res, f"dataset:{kind}:construct", _make_dataset, kind, labels, cfg, None, d + "/chunks_plain")
            if ds_plain is runner.FAILED:
                return res
        # units in label order
        units = []
        for fi, fr in enumerate(frames):
            if kind == "centered":
                for ii in range(len(fr)):
                    units.append((fi, [ii]))
            else:
                units.append((fi, list(range(len(fr)))))
        n = runner.guarded(res, f"dataset:{kind}:len", len, ds)
        if n is runner.FAILED:
            return res
        if n != len(units) * n_planes:
            res.fail(f"dataset:{kind}:len", f"len(ds)={n}, expected {len(units) * n_planes}")
            return res
        # geometry from the documented contract (aspect preserving fit to max_hw, then scale, then stride padding)
        mh = cfg["max_hw"][0] if cfg["max_hw"][0] is not None else h
        mw = cfg["max_hw"][1] if cfg["max_hw"][1] is not None else w
        eff = 1.0 if (mh, mw) == (h, w) else min(mh / h, mw / w)
        sc = cfg["scale"]
        s_tot = eff * sc
        stride = cfg["max_stride"]
        up = lambda v: -(-v // stride) * stride  # noqa: E731
        # scaled canvas: floor of max_hw*scale; when the product is an integer up to float rounding (170*0.7 =
        # 118.99999999999999) the float floor, one less, is accepted as well
        h2s = sorted({int(math.floor(mh * sc + 1e-6)), int(mh * sc)}, reverse=True)
        w2s = sorted({int(math.floor(mw * sc + 1e-6)), int(mw * sc)}, reverse=True)
        h2, w2 = h2s[0], w2s[0]
        if kind == "centered":
            exp_hw = (up(cfg["crop_hw"][0]), up(cfg["crop_hw"][1]))
        else:
            exp_hw = (up(h2), up(w2))
        geo_on = mode in ("geo", "both") and case["geo"].get("affine_p", 0) > 0
        res.n_evals = 0
        any_judged_spread = False
        if case["torch_seed"] % 2 == 1:
            # judge the SECOND access of every index (what epoch >= 2 sees): cached tensors must not drift
            for j in range(len(units) * n_planes):
                if runner.guarded(res, f"dataset:{kind}:getitem", ds.__getitem__, j) is runner.FAILED:
                    return res
            res.cls("second-access")
        for ui, (fi, insts) in enumerate(units):
            samples = []
            for p in range(n_planes):
                torch.manual_seed(case["torch_seed"] + ui)
                s = runner.guarded(res, f"dataset:{kind}:getitem", ds.__getitem__, p * len(units) + ui)
                if s is runner.FAILED:
                    return res
                samples.append(s)
            res.n_evals += 1
            img_key = "instance_image" if kind == "centered" else "image"
            imgs = [s[img_key] for s in samples]
            C = 3 if cfg["is_rgb"] else 1
            if kind != "centered" and imgs[0].dim() == 4:
                for hc in h2s:
                    for wc in w2s:
                        if tuple(imgs[0].shape[-2:]) == (up(hc), up(wc)) and tuple(imgs[0].shape[-2:]) != exp_hw:
                            h2, w2, exp_hw = hc, wc, (up(hc), up(wc))
            if any(tuple(im.shape) != (1, C, exp_hw[0], exp_hw[1]) for im in imgs):
                res.fail(f"dataset:{kind}:size", f"sample image shape {tuple(imgs[0].shape)}, expected (1,{C},{exp_hw[0]},{exp_hw[1]}) for frame {h}x{w}, max_hw {cfg['max_hw']}, scale {sc}, max_stride {stride}, crop {cfg['crop_hw'] if kind == 'centered' else None}")
                continue
            img3 = np.concatenate([_np3(im) for im in imgs], 0) if case["gray"] else _np3(imgs[0])
            img3 = img3.copy()
            img3[:2] *= 255.0  # decoded value = channel / mask * 1.0 -> original px (uint8 ramp / 255)
            if cfg["np_chunks"]:
                # PIL round trip truncates: a resampled mask of 0.9999999 is stored as 254/255; treat it as 1
                img3[2][img3[2] >= 0.995] = 1.0
            lab = np.array([[[math.nan, math.nan] if q is None else q for q in frames[fi][ii]] for ii in insts], dtype=np.float64)
            # sample keypoints
            if kind == "centered":
                kps = samples[0]["instance"].numpy().astype(np.float64).reshape(-1, 2)
                key = "instance"
            elif kind == "centroid":
                kps = samples[0]["centroids"].numpy().astype(np.float64).reshape(-1, 2)[: len(insts)]
                key = "centroids"
                lab_c = np.array([_expected_centroid(l, cfg["anchor"]) for l in lab])
            else:
                kps = samples[0]["instances"].numpy().astype(np.float64).reshape(-1, case["n_nodes"], 2)[: len(insts)].reshape(-1, 2)
                key = "instances"
            for s in samples[1:]:
                if not _same(s[key], samples[0][key]):
                    res.fail(f"dataset:{kind}:content-dependent-keypoints", f"'{key}' differs between the x-ramp, y-ramp and mask videos (same labels, same torch seed)")
            ref = lab_c if kind == "centroid" else lab.reshape(-1, 2)
            # tolerance bookkeeping from the contract
            def make_track(points, h2=h2, w2=w2):
                tr = Track(points)
                pts = tr.ref
                if (mh, mw) != (h, w):
                    hv = h * eff
                    wv = w * eff
                    # integer valid extent: rounding <= 0.5 px (exactly representable products have none)
                    hv_i = [int(math.floor(hv + 0.5)), int(math.ceil(hv - 0.5))]
                    wv_i = [int(math.floor(wv + 0.5)), int(math.ceil(wv - 0.5))]
                    tr.resize(pts, eff, (h, w), (hv_i[0], wv_i[0]))
                    if hv_i[0] != hv_i[1] or wv_i[0] != wv_i[1]:
                        tr.tol_steps += 1.0 / tr.cum  # tie: either rounding is fine
                if sc != 1.0:
                    tr.valid = (w * eff, h * eff)
                    tr.resize(pts * eff, sc, (mh, mw), (h2, w2))
                if geo_on:
                    g = case["geo"]
                    tr.affine(min(g["scale"]) if g.get("scale") else 1.0)
                if cfg["np_chunks"] and (eff != 1.0 or sc != 1.0 or geo_on or kind == "centered"):
                    tr.extra_in += 1.0
                if mode == "both":
                    tr.extra_in += 0.3
                return tr

            track = make_track(ref)
            b = f"dataset:{kind}:{'aug-' + mode if mode != 'none' else 'plain'}"
            _nan_clause(res, b, ref, kps)
            if mode == "intensity":
                # (e) intensity-only augmentation: keypoints bit-identical to the un-augmented sample
                plain = runner.guarded(res, f"dataset:{kind}:getitem", ds_plain.__getitem__, ui)
                if plain is runner.FAILED:
                    return res
                for k2 in (["instance", "centroid"] if kind == "centered" else ["instances", "centroids"] if kind == "centroid" else ["instances"]):
                    if not _same(plain[k2], samples[0][k2]):
                        res.fail(f"dataset:{kind}:intensity-moved-keypoints", f"'{k2}' {np.round(plain[k2].numpy(), 3).tolist()} -> {np.round(samples[0][k2].numpy(), 3).tolist()} under intensity-only augmentation")
                if int((~np.isnan(ref).any(-1)).sum()) >= 2:
                    any_judged_spread = True  # intensity mode: non-trivial = an intensity op with p=1 and >= 2 finite keypoints compared
                continue
            # content must be found: plain non-cropping datasets, every keypoint >= 2/s px inside the frame
            must = None
            if kind != "centered" and not geo_on:
                mrg = max(2.0, 2.0 / s_tot)
                must = (ref[:, 0] >= mrg) & (ref[:, 0] <= w - 1 - mrg) & (ref[:, 1] >= mrg) & (ref[:, 1] <= h - 1 - mrg)
            elif kind == "centered" and not geo_on:
                # the crop is centred on the instance's centroid: label keypoints closer than half a crop - 2 px to it
                # (in sample scale) and inside the frame must be found in the crop (input geometry only)
                mrg = max(2.0, 2.0 / s_tot)
                ch, cw = cfg["crop_hw"]
                c0 = _expected_centroid(lab[0], cfg["anchor"])
                must = (
                    (ref[:, 0] >= mrg) & (ref[:, 0] <= w - 1 - mrg) & (ref[:, 1] >= mrg) & (ref[:, 1] <= h - 1 - mrg)
                    & (np.abs(ref[:, 0] - c0[0]) * s_tot <= cw / 2 - 2) & (np.abs(ref[:, 1] - c0[1]) * s_tot <= ch / 2 - 2)
                )
            judged = _readback(res, b, img3, kps, track, 1.0, must_find=must)
            if _spread(ref, judged):
                any_judged_spread = True
            elif geo_on:
                # an affine warp may legitimately move everything out of frame: fall back to eligibility of the input
                elig = [j for j in range(len(ref)) if not np.isnan(ref[j]).any() and not track.excluded[j]]
                any_judged_spread = any_judged_spread or _spread(ref, elig)
            if kind == "centroid" and not geo_on:
                # full keypoints of the centroid dataset (not augmented by design, so only without affine)
                tr2 = make_track(lab.reshape(-1, 2))
                r2 = tr2.ref
                k_all = samples[0]["instances"].numpy().astype(np.float64).reshape(-1, case["n_nodes"], 2)[: len(insts)].reshape(-1, 2)
                _nan_clause(res, b + ":instances", r2, k_all)
                j2 = _readback(res, b + ":instances", img3, k_all, tr2, 1.0)
                any_judged_spread = any_judged_spread or _spread(r2, j2)
            if kind == "centered" and not geo_on:
                # the crop is centred where the sample says: 'centroid' (crop coordinates) shows the instance's centroid
                cexp = _expected_centroid(lab[0], cfg["anchor"])
                trc = make_track(cexp[None])
                mrg = max(2.0, 2.0 / s_tot)
                if mrg <= cexp[0] <= w - 1 - mrg and mrg <= cexp[1] <= h - 1 - mrg:
                    cen = samples[0]["centroid"].numpy().astype(np.float64).reshape(-1, 2)
                    _readback(res, b + ":centroid", img3, cen, trc, 1.0, must_find=np.array([True]))
            # (c) stride padding of the crop: bottom / right only, exact zeros (nothing is resampled after it)
            if kind == "centered":
                ch, cw = cfg["crop_hw"]
                m = np.abs(img3).sum(0)
                if (m.shape[0] > ch and m[ch:].max() != 0) or (m.shape[1] > cw and m[:, cw:].max() != 0):
                    res.fail(f"dataset:{kind}:pad-not-bottom-right", f"crop {cfg['crop_hw']} padded to {m.shape}: rows >= {ch} / columns >= {cw} are not all zero")
            # (c) padding only at the bottom / right (no affine, full-frame datasets)
            if kind != "centered" and not geo_on:
                m = img3[2]
                hv, wv, prefix = _valid_rect(m)
                band = int(math.ceil(1.0 / min(1.0, sc))) + 1 if sc != 1.0 else 0
                eh, ew = h * s_tot, w * s_tot
                bad = not prefix or abs(hv - eh) > 1.5 or abs(wv - ew) > 1.5
                if not bad:
                    hi, wi = max(0, hv - band), max(0, wv - band)
                    ho, wo = min(m.shape[0], hv + band), min(m.shape[1], wv + band)
                    # np_chunks stores uint8: exact for 0 and 255
                    if (hi > 0 and wi > 0 and m[:hi, :wi].min() < 0.999) or (ho < m.shape[0] and np.abs(m[ho:]).max() != 0) or (wo < m.shape[1] and np.abs(m[:, wo:]).max() != 0):
                        bad = True
                if bad:
                    res.fail(f"dataset:{kind}:pad-not-bottom-right", f"frame {h}x{w}, max_hw {cfg['max_hw']}, scale {sc}, max_stride {stride}: valid mask covers rows/cols {hv}x{wv} (expected about {eh:.1f}x{ew:.1f} anchored at the top-left, zeros elsewhere)")
        res.n_evals = max(1, res.n_evals)
        nontrivial_geom = not (eff == 1.0 and sc == 1.0 and not geo_on and kind != "centered" and exp_hw == (h, w))
        res.nontrivial = (nontrivial_geom or mode == "intensity") and any_judged_spread
        return res
    finally:
        res.nontrivial = res.nontrivial or bool(res.failures)  # a case that exposes a violation is not vacuous
        shutil.rmtree(d, ignore_errors=True)


def strategy_dataset(kind_fixed, mode_fixed):
    from hypothesis import strategies as st

    @st.composite
    def case(draw):
        kind, mode = kind_fixed, mode_fixed
        # same seed + same strategy shape = same draws in every part: shift the stream per (class, mode)
        for _ in range(DATASETS.index(kind) * 4 + list(DS_BUDGET).index(mode)):
            draw(st.integers(0, 3))
        # two short independent axes (5 x 3) instead of one long list: each marginal class gets a fair share of a
        # 45-example part; odd sizes (so that stride padding really pads) are a third, independent axis
        sm_cls = draw(st.sampled_from(["none", "pad", "up", "down", "mixed"]))
        sc_cls = draw(st.sampled_from(["1", "down", "up"]))
        odd_size = draw(st.booleans())
        geom = f"sizematch={sm_cls},scale={sc_cls}"
        gray = draw(st.integers(0, 3)) == 0
        affine = mode in ("geo", "both")
        if affine:
            h = draw(st.sampled_from([48, 64, 96, 128]))
            w = draw(st.sampled_from([x for x in [48, 64, 96, 128, 192] if 0.5 <= x / h <= 2.0]))
        else:
            h = draw(st.sampled_from([48, 64, 80, 96, 128, 200, 256]))
            w = draw(st.sampled_from([x for x in [48, 64, 80, 96, 128, 160, 256] if 0.25 <= x / h <= 4.0]))
        if odd_size:
            h, w = h + draw(st.sampled_from([2, 4, 10])), w + draw(st.sampled_from([0, 6, 12]))
            h, w = min(h, 256), min(w, 256)
        max_hw, scale = [None, None], 1.0
        if sm_cls != "none":
            max_hw = _sizematch_params(draw, st, h, w, sm_cls)
            if affine:  # keep the canvas within aspect 2:1 (kornia convention error bound)
                mh0 = max_hw[0] or h
                mw0 = max_hw[1] or w
                if not (0.5 <= mw0 / mh0 <= 2.0):
                    max_hw = [mh0, mw0] = [int(round(h * 0.75)), int(round(w * 0.75)) + 5]
        if sc_cls == "down":
            scale = draw(st.sampled_from([0.5, 0.75, 0.25 if min(h, w) >= 96 else 0.5, 0.6]))
        elif sc_cls == "up":
            scale = draw(st.sampled_from([1.25, 1.5, 2.0, 1.3]))
        mh = max_hw[0] if max_hw[0] is not None else h
        mw = max_hw[1] if max_hw[1] is not None else w
        eff = 1.0 if (mh, mw) == (h, w) else min(mh / h, mw / w)
        s_tot = eff * scale
        if kind == "centered" and max(mh, mw) * scale > 400:
            scale = 1.0
            s_tot = eff
        n_nodes = draw(st.integers(2, 4))
        n_frames = draw(st.sampled_from([1, 1, 2]))
        lo = max(3.0, 3.0 / s_tot)
        if min(h, w) - 1 - 2 * lo < 10:
            lo = 3.0
        crop_hw = draw(st.sampled_from([[32, 32], [48, 48], [32, 48], [48, 32], [40, 40], [64, 64]]))
        frames = []
        for _ in range(n_frames):
            n_inst = 1 if kind == "single" else draw(st.integers(2, 4)) if kind == "centroid" else draw(st.integers(1, 3))
            fr = []
            for _ in range(n_inst):
                if kind in ("centered", "centroid") and draw(st.booleans()):
                    # a compact animal (fits a crop), anywhere incl. close to the frame border
                    cx = draw(st.floats(0.0, 1.0, width=32)) * (w - 1)
                    cy = draw(st.floats(0.0, 1.0, width=32)) * (h - 1)
                    cx, cy = round(cx * 4) / 4, round(cy * 4) / 4
                    rad = (max(1.0, (crop_hw[1] / 2 - 3) / s_tot), max(1.0, (crop_hw[0] / 2 - 3) / s_tot))
                    pts = _keypoints(draw, st, w, h, 1, n_nodes, lo=lo, around=(cx, cy), radius=rad)[0]
                else:
                    pts = _keypoints(draw, st, w, h, 1, n_nodes, lo=lo)[0]
                fr.append(pts)
            frames.append(fr)
        anchor = draw(st.one_of(st.none(), st.integers(0, n_nodes - 1), st.integers(0, 1)))
        geo = _geo_params(draw, st, draw(st.sampled_from(["rotate", "affine", "affine", "affine+erase+mixup"]))) if affine else None
        intensity = None
        if mode == "intensity":
            intensity = {
                "uniform_noise_p": draw(st.sampled_from([0.0, 1.0])), "uniform_noise_min": 0.0, "uniform_noise_max": 0.04,
                "gaussian_noise_p": draw(st.sampled_from([0.0, 1.0])), "gaussian_noise_mean": 0.02, "gaussian_noise_std": 0.004,
                "contrast_p": draw(st.sampled_from([0.0, 1.0])), "contrast_min": 0.5, "contrast_max": 2.0,
                "brightness_p": 1.0, "brightness": [0.8, 1.2],
            }
        elif mode == "both":
            # tiny noise only (<= 0.1 ramp unit), so that the ramp survives and read-back stays possible
            intensity = {"uniform_noise_p": 1.0, "uniform_noise_min": 0.0, "uniform_noise_max": 0.0002, "gaussian_noise_p": 1.0, "gaussian_noise_mean": 0.0, "gaussian_noise_std": 0.00005}
        cfg = {
            "is_rgb": not gray, "max_hw": max_hw, "scale": scale, "max_stride": draw(st.sampled_from([1, 2, 8, 16, 32])),
            "crop_hw": crop_hw, "anchor": anchor if kind in ("centered", "centroid") else None,
            "np_chunks": draw(st.integers(0, 4)) == 0,
        }
        return {
            "cls": f"{kind}|{mode}|{geom}", "kind": kind, "aug_mode": mode, "geom": geom, "gray": gray, "h": h, "w": w,
            "n_nodes": n_nodes, "frames": frames, "cfg": cfg, "geo": geo, "intensity": intensity,
            "torch_seed": draw(st.integers(0, 10**6)),
        }

    return case()


# ----------------------------------------------------------------------------------
# find_instance_crop_size


def eval_cropsize(case):
    import sleap_io as sio
    from sleap_nn.data.instance_cropping import find_instance_crop_size

    res = Result()
    res.cls(f"cropsize|{case['cls']}")
    n_nodes = len(case["frames"][0][0])
    skel = sio.Skeleton(nodes=[f"n{i}" for i in range(n_nodes)])
    video = sio.Video(filename="c04-not-a-file.mp4", open_backend=False)
    lfs = []
    for fi, fr in enumerate(case["frames"]):
        insts = [
            sio.Instance.from_numpy(np.array([[math.nan, math.nan] if p is None else p for p in pts], dtype=np.float64), skeleton=skel)
            for pts in fr
        ]
        lfs.append(sio.LabeledFrame(video=video, frame_idx=fi, instances=insts))
    labels = sio.Labels(labeled_frames=lfs, videos=[video], skeletons=[skel])
    snap = synth.labels_snapshot(labels)
    kw = {"padding": case["padding"], "maximum_stride": case["stride"], "input_scaling": case["scaling"], "min_crop_size": case["min_crop_size"]}
    out = runner.guarded(res, "cropsize", find_instance_crop_size, labels, **kw)
    if out is runner.FAILED:
        return res
    why = synth.snapshot_changed(snap)
    if why:
        res.fail("cropsize:labels-mutated", why)
    ext = 0.0
    for fr in case["frames"]:
        for pts in fr:
            v = np.array([p for p in pts if p is not None], dtype=np.float64)
            if len(v):
                ext = max(ext, float((v.max(0) - v.min(0)).max()))
    need = ext * case["scaling"] + case["padding"]
    mcs = case["min_crop_size"] or 0
    desc = f"find_instance_crop_size(largest extent {ext:.2f}px, {kw}) = {out!r}"
    if not isinstance(out, (int, np.integer)):
        res.fail("cropsize:type", desc)
        return res
    if out % case["stride"] != 0:
        res.fail("cropsize:not-multiple-of-stride", desc)
    if out < mcs:
        res.fail("cropsize:below-min-crop-size", desc)
    user_set = mcs > 0 and mcs % case["stride"] == 0
    if user_set:
        # documented precedence ("min_crop_size: The crop size set by the user"): a user-set size that is a multiple of
        # the stride is used as is; covering the instances is NOT asserted in this class (coordinator disposition)
        res.cls("cropsize:user-set-size-precedence")
        if out != mcs:
            res.fail("cropsize:user-set-size-not-used", desc)
    # float slack: extent computed in float64 from float64 labels, 1e-6 relative
    elif out < need - 1e-6 * max(1.0, need):
        res.fail("cropsize:does-not-cover-largest-instance", desc + f"; the largest instance needs {need:.2f}px")
    res.nontrivial = (not user_set) or bool(res.failures)
    return res


def strategy_cropsize():
    from hypothesis import strategies as st

    @st.composite
    def case(draw):
        cls = draw(st.sampled_from(["min=None", "min=None", "min<need,divisible", "min<need,indivisible", "min<need,indivisible", "min>need,divisible", "min>need,indivisible", "min=0"]))
        stride = draw(st.sampled_from([1, 2, 4, 8, 16, 32]))
        scaling = draw(st.sampled_from([1.0, 1.0, 0.5, 0.75, 1.5, 2.0]))
        padding = draw(st.sampled_from([0, 0, 1, 7, 16]))
        n_nodes = draw(st.integers(1, 4))
        frames = []
        for _ in range(draw(st.integers(1, 3))):
            fr = []
            for _ in range(draw(st.integers(1, 3))):
                ox, oy = draw(st.integers(0, 200)), draw(st.integers(0, 200))
                sz = draw(st.sampled_from([0, 5, 20, 60, 150]))
                pts = [[ox + draw(st.integers(0, sz)) + draw(st.sampled_from([0.0, 0.3, 0.5])), oy + draw(st.integers(0, sz)) + draw(st.sampled_from([0.0, 0.25]))] for _ in range(n_nodes)]
                pat = draw(st.sampled_from(["full", "full", "random", "none"]))
                if pat == "random":
                    pts = [p if draw(st.booleans()) else None for p in pts]
                elif pat == "none":
                    pts = [None] * n_nodes
                fr.append(pts)
            frames.append(fr)
        ext = 0.0
        for fr in frames:
            for pts in fr:
                v = np.array([p for p in pts if p is not None], dtype=np.float64)
                if len(v):
                    ext = max(ext, float((v.max(0) - v.min(0)).max()))
        need = ext * scaling + padding
        if cls == "min=None":
            mcs = None
        elif cls == "min=0":
            mcs = 0
        else:
            below = cls.startswith("min<")
            div = cls.endswith(",divisible")
            base = max(1, int(need * 0.5)) if below else int(need) + draw(st.integers(1, 40))
            mcs = max(stride, base // stride * stride) if div else base // stride * stride + (draw(st.integers(1, stride - 1)) if stride > 1 else 0)
            if not div and stride == 1:
                cls = cls.replace("indivisible", "divisible")
            mcs = max(1, mcs)
            if below and mcs >= need:
                cls = cls.replace("min<", "min>")
        return {"cls": cls, "frames": frames, "padding": padding, "stride": stride, "scaling": scaling, "min_crop_size": mcs}

    return case()


# ----------------------------------------------------------------------------------


def summarize_dataset(case):
    return {k: case[k] for k in ("cls", "gray", "h", "w", "cfg", "geo", "intensity", "frames", "torch_seed")}


FUNC_BUDGET = {  # op -> (quick, thorough, min non-trivial quick, thorough)
    "sizematcher": (160, 6000, 20, 800), "resizer": (130, 5000, 20, 800), "pad": (50, 2000, 5, 200), "crop": (120, 5000, 20, 800),
    "geo": (160, 6000, 20, 800), "intensity": (24, 1000, 5, 200), "chain": (260, 9000, 40, 1400),
}
DS_BUDGET = {"none": (45, 900, 8, 150), "geo": (45, 900, 7, 120), "intensity": (10, 250, 3, 50), "both": (24, 500, 5, 80)}


def parts(tier):
    from functools import partial

    out = []
    for op, (q, t, mq, mt) in FUNC_BUDGET.items():
        out.append(Part(name=f"functional-{op}", evaluate=eval_functional, strategy=partial(strategy_functional, op),
                        budget={"quick": q, "thorough": t}, min_nontrivial={"quick": mq, "thorough": mt}))
    for kind in DATASETS:
        for mode, (q, t, mq, mt) in DS_BUDGET.items():
            out.append(Part(name=f"dataset-{kind}-{mode}", evaluate=eval_dataset, strategy=partial(strategy_dataset, kind, mode),
                            summarize=summarize_dataset, budget={"quick": q, "thorough": t}, min_nontrivial={"quick": mq, "thorough": mt}))
    out.append(Part(name="cropsize", evaluate=eval_cropsize, strategy=strategy_cropsize,
                    budget={"quick": 300, "thorough": 16000}, min_nontrivial={"quick": 50, "thorough": 2500}))
    return out


if __name__ == "__main__":
    runner.main(__name__)
