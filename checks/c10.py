"""C10 - well-separated animals keep their identity across frames.

Domain: simulated scenes inside the property's quantifier: K<=5 animals with rigid,
non-degenerate poses (bounding box >= 24 px in both axes) on bounded random walks
(<= 3 px per axis per frame, i.e. <= 0.15 animal sizes, so that after an absence of
window-1 frames the accumulated displacement stays below one animal size: own-track OKS
> 0, IoU > 0, Euclidean ordering strict), pairwise >= 200 px apart (>= 8 sizes) at all
times, random per-frame permutations, absences shorter than the window, late arrivals only
in frames where every previously seen animal is present, all scores above the threshold;
every tracker configuration of C09.  `evaluate` re-verifies these scene constraints on the
explicit case (a case outside the class is *rejected*, never judged).

Two motion classes are drawn.  "slow" is the class above.  "brisk" is the same scene with
every length except the body size multiplied by BRISK (8): animals hop up to ~1.2 body
lengths (<= 20 px per axis, <= 28 px Euclidean) between consecutive sightings - they stay
put while hidden - and are >= 1600 px apart (homes 3360 px apart, fence 720 px).  Own-track
scores are then tiny but still strictly better than every foreign score in exact arithmetic,
which `scene_in_domain` re-verifies per sighting with reference formulas: the own boxes
overlap by >= 4 px (IoU > 0 = foreign IoU), the COCO OKS of the last sighting is >= 1e-200
in double precision (foreign OKS underflows to exactly 0), and the farthest of the animal's
own last W sightings is > 4x closer than the nearest of any other animal's last W sightings
(Euclidean ordering strict under mean and max reduction).

Oracle: the map ground-truth animal -> set of track names over the whole history is a
function (one name per animal) and injective (no name shared by two animals); every
detection is returned with a track.
"""

import math

from vlib import runner, trackgen
from vlib.runner import Part, Result

PROPERTY = "C10"
LEVEL = "exploration"
RULE = (
    "a case is a tracker configuration plus an explicit scene (frames of detections with ground-truth "
    "animal ids) drawn by Hypothesis inside the separated-scene class of the property (re-verified by "
    "evaluate); the scene's motion class is drawn: slow (<= 3 px per axis per frame, >= 200 px apart) or brisk "
    "(hops of 0.75..1.2 body lengths between sightings, >= 1600 px apart, own-track score still strictly best in "
    "exact arithmetic for oks / iou / euclidean_dist - re-verified with reference formulas); "
    "oracle: animal->track-name map is a function and injective; non-trivial = at least 2 "
    "animals and the scene contains an absence (shorter than the window) or a late arrival"
)
ASSUMPTIONS = [
    "Tracker._track_objects (class-level shared dict) is cleared by the harness before every scene",
    "poses are non-degenerate (>=3 nodes, bounding box >= 24x24 px): with a zero-area pose OKS is 0 for "
    "every non-identical pair and no assignment is distinguished - outside 'far apart compared with how far they move'",
    "brisk scenes: animals do not move while hidden (a hop is the displacement between two consecutive sightings), so that "
    "the own boxes overlap and the own-track OKS stays >= 1e-200 after an absence; hops are capped at 20 px per axis / 28 px "
    "(OKS >= exp(-273)): beyond ~46 px the own-track OKS underflows in float64 itself and no assignment is distinguished",
    "window_size counts frames handed to the tracker after the first track exists (every such frame enters the fixed-window queue)",
]

SIZE = 24.0
STEP = 3.0
MIN_SEP = 200.0
# "brisk" motion class: separation / home spacing / fence of the slow class times BRISK; hop between
# consecutive sightings <= BRISK_AXIS per axis (boxes still overlap by SIZE - BRISK_AXIS = 4 px) and within
# [BRISK_MIN, BRISK_MAX] px Euclidean (0.75 .. ~1.17 body lengths) for the "steady"/"hop" animals
BRISK = 8.0
BRISK_AXIS = 20.0
BRISK_MIN = 18.0
BRISK_MAX = 28.0
OKS_FLOOR = 1e-200  # own-track OKS must be representable with a wide margin in float64 (smallest normal 2.2e-308)
HOPS = sorted(
    ([float(dx), float(dy)] for dx in range(-20, 21) for dy in range(-20, 21) if BRISK_MIN**2 <= dx * dx + dy * dy <= BRISK_MAX**2),
    key=lambda v: (abs(v[0]) + abs(v[1]), v),
)


def strategy(max_frames):
    from hypothesis import strategies as st

    @st.composite
    def scene(draw):
        cfg = draw(trackgen.config_strategy(max_window=6))
        W = cfg["window_size"]
        thr = cfg["instance_score_threshold"]
        K = draw(st.sampled_from([1, 2, 2, 3, 3, 4, 5]))
        n_nodes = draw(st.integers(3, 5))
        F = draw(st.integers(5, max_frames))
        # rigid pose: corner nodes guarantee a >= SIZE x SIZE bounding box
        offs = [[0.0, 0.0], [SIZE, draw(st.integers(0, 24)) * 1.0], [draw(st.integers(0, 24)) * 1.0, SIZE]]
        for _ in range(n_nodes - 3):
            offs.append([draw(st.integers(0, 24)) * 1.0, draw(st.integers(0, 24)) * 1.0])
        kind = draw(st.sampled_from(["plain", "absences", "absences", "late", "late", "both", "both", "both"]))
        # arrival frames: arrivals only when everybody seen so far is present -> build presence first
        arrive = [0] * K
        if kind in ("late", "both") and K >= 2:
            for a in range(1, K):
                if draw(st.booleans()):
                    arrive[a] = draw(st.integers(1, F - 1))
        else:
            kind = "absences" if kind == "both" else kind
        pres = [[t >= arrive[a] for a in range(K)] for t in range(F)]
        if kind in ("absences", "both") and W >= 2:
            n_abs = draw(st.integers(1, 3))
            arrivals = set(arrive)
            for _ in range(n_abs):
                a = draw(st.integers(0, K - 1))
                L = W - 1 if draw(st.booleans()) else draw(st.integers(1, W - 1))  # boundary length favoured
                t0 = draw(st.integers(arrive[a] + 1, max(arrive[a] + 1, F - 1)))
                ts = list(range(t0, min(F, t0 + L)))
                # no absence may overlap an arrival frame of another animal, and the animal
                # must have been seen and come back within < W frames of its last sighting
                if any(t in arrivals for t in ts) or not ts:
                    continue
                if ts[-1] + 1 < F and not pres[ts[-1] + 1][a]:
                    continue
                if not pres[t0 - 1][a]:
                    continue
                for t in ts:
                    pres[t][a] = False
        frames = []
        # motion class of the scene (drawn class, one choice): slow = the original walks; brisk = hops of about one
        # body length between sightings with every separation length scaled by BRISK
        motion = draw(st.sampled_from(["slow", "brisk", "slow", "brisk", "slow"]))
        m = BRISK if motion == "brisk" else 1.0
        fence = 90.0 * m
        pos = [[300.0 + 420.0 * m * (a % 3) + 0.25, 300.0 + 420.0 * m * (a // 3) + 0.5] for a in range(K)]
        home = [list(p) for p in pos]
        if motion == "slow":
            mode = ["drift" if draw(st.booleans()) else "walk" for _ in range(K)]
            vel = [
                [draw(st.sampled_from([-1, 1])) * STEP, draw(st.sampled_from([-1, 0, 1])) * STEP] if mode[a] == "drift" else None
                for a in range(K)
            ]
        else:
            # steady: constant brisk velocity (reflected at the fence); hop: a fresh brisk hop per sighting;
            # stroll: a slow walker sharing the scene with brisk ones (own-track scores of very different magnitude)
            mode = [draw(st.sampled_from(["steady", "steady", "hop", "stroll"])) for _ in range(K)]
            vel = [list(draw(st.sampled_from(HOPS))) if mode[a] == "steady" else None for a in range(K)]
        for t in range(F):
            dets = []
            for a in range(K):
                if vel[a] is not None:  # steady drift (direction flips at the fence)
                    dx, dy = vel[a]
                elif mode[a] == "hop":
                    dx, dy = draw(st.sampled_from(HOPS))
                else:
                    dx = draw(st.integers(-3, 3)) * (STEP / 3.0)
                    dy = draw(st.integers(-3, 3)) * (STEP / 3.0)
                if motion == "brisk" and not pres[t][a]:
                    continue  # brisk animals stay put while hidden: a hop is the displacement between two sightings
                nx, ny = pos[a][0] + dx, pos[a][1] + dy
                # bounded walk: stay within the fence around home (keeps the separation of the class)
                if abs(nx - home[a][0]) > fence:
                    nx = pos[a][0] - dx
                    if vel[a] is not None:
                        vel[a][0] = -vel[a][0]
                if abs(ny - home[a][1]) > fence:
                    ny = pos[a][1] - dy
                    if vel[a] is not None:
                        vel[a][1] = -vel[a][1]
                pos[a] = [nx, ny]
            order = draw(st.permutations(list(range(K))))
            for a in order:
                if pres[t][a]:
                    pts = [[pos[a][0] + o[0], pos[a][1] + o[1]] for o in offs]
                    dets.append({"a": a, "pts": pts, "score": draw(st.sampled_from([0.95, 0.8, thr + 0.2]))})
            frames.append(dets)
        return {"cfg": cfg, "kind": kind, "motion": motion, "n_nodes": n_nodes, "K": K, "frames": frames}

    return scene()


def scene_in_domain(case):
    """Re-verify the property's scene class on the explicit case. Returns (ok, why, facts)."""
    cfg = case["cfg"]
    W = cfg["window_size"]
    thr = cfg["instance_score_threshold"]
    frames = case["frames"]
    motion = case.get("motion", "slow")
    if motion not in ("slow", "brisk"):
        return False, "unknown motion class", {"absence": False, "late": False, "hop": False}
    brisk = motion == "brisk"
    min_sep = MIN_SEP * (BRISK if brisk else 1.0)
    last_seen, last_pos = {}, {}
    hist = {}  # animal -> node-0 positions of all its sightings so far (brisk class only)
    shape = None
    seen = set()
    facts = {"absence": False, "late": False, "hop": False}
    first_track_frame = None
    for t, dets in enumerate(frames):
        ids = [d["a"] for d in dets]
        if len(set(ids)) != len(ids):
            return False, "duplicate animal in a frame", facts
        for d in dets:
            if any(p is None for p in d["pts"]):
                return False, "missing node", facts
            if not d["score"] > thr:
                return False, "score not above threshold", facts
            xs = [p[0] for p in d["pts"]]
            ys = [p[1] for p in d["pts"]]
            if max(xs) - min(xs) < SIZE - 1e-9 or max(ys) - min(ys) < SIZE - 1e-9 or len(d["pts"]) < 3:
                return False, "degenerate pose", facts
            if brisk:
                # one rigid pose shared by all animals: every feature (keypoints, centroid, box) of a detection is
                # node 0 plus a constant, so displacements of node 0 are displacements of every feature.
                # coordinates are sums of a few dyadic rationals < 2^14: exact in float64, 1e-6 is pure slack
                rel = [[p[0] - d["pts"][0][0], p[1] - d["pts"][0][1]] for p in d["pts"]]
                if shape is None:
                    shape = rel
                if len(rel) != len(shape) or any(abs(r[0] - s[0]) > 1e-6 or abs(r[1] - s[1]) > 1e-6 for r, s in zip(rel, shape)):
                    return False, "brisk: pose not rigid", facts
        # separation
        for i in range(len(dets)):
            for j in range(i + 1, len(dets)):
                for p in dets[i]["pts"]:
                    for q in dets[j]["pts"]:
                        if math.hypot(p[0] - q[0], p[1] - q[1]) < min_sep:
                            return False, "animals too close", facts
        new = set(ids) - seen
        if new and t > 0 and seen:
            if not seen <= set(ids):
                return False, "late arrival while a previously seen animal is absent", facts
            facts["late"] = True
        for d in dets:
            a = d["a"]
            p0 = d["pts"][0]
            if a in last_seen:
                gap = t - last_seen[a]  # frames since last sighting
                if gap > 1:
                    facts["absence"] = True
                if gap - 1 >= W:
                    return False, "absence not shorter than the window", facts
                ddx, ddy = abs(p0[0] - last_pos[a][0]), abs(p0[1] - last_pos[a][1])
                if not brisk:
                    # per-frame displacement bound (rigid pose -> node 0 is representative)
                    if ddx > STEP * gap + 1e-9 or ddy > STEP * gap + 1e-9:
                        return False, "moves too fast", facts
                else:
                    # hop since the last sighting (whatever the gap). iou: own boxes still overlap by >= 4 px
                    if ddx > BRISK_AXIS + 1e-9 or ddy > BRISK_AXIS + 1e-9:
                        return False, "brisk: own boxes do not overlap enough", facts
                    # oks (COCO definition: exp(-d^2 / (2 * area * (2 * stddev)^2)), stddev 0.025, area = bounding box;
                    # rigid pose -> every node has the same d): the last sighting alone keeps the own-track score
                    # far above the float64 underflow, also after a mean over <= W entries
                    xs = [p[0] for p in d["pts"]]
                    ys = [p[1] for p in d["pts"]]
                    area = (max(xs) - min(xs)) * (max(ys) - min(ys))
                    if math.exp(-(ddx * ddx + ddy * ddy) / (2.0 * area * 0.05**2)) < OKS_FLOOR:
                        return False, "brisk: own-track OKS too close to underflow", facts
                    if math.hypot(ddx, ddy) >= BRISK_MIN - 1e-9:
                        facts["hop"] = True
                    # euclidean_dist (and exactly-zero foreign OKS / IoU): the farthest of the own last W sightings
                    # (superset of what either candidate method keeps in a window of W) is > 4x closer than the
                    # nearest of any other animal's last W sightings -> strict ordering under mean and max
                    own_far = max(math.hypot(p0[0] - q[0], p0[1] - q[1]) for q in hist[a][-W:])
                    for b, hb in hist.items():
                        if b != a and min(math.hypot(p0[0] - q[0], p0[1] - q[1]) for q in hb[-W:]) <= 4.0 * own_far + 4.0 * SIZE:
                            return False, "brisk: foreign history too close", facts
            last_seen[a] = t
            last_pos[a] = p0
        if brisk:
            for d in dets:  # after the whole frame was judged against the histories before it
                hist.setdefault(d["a"], []).append(d["pts"][0])
        # separation must also hold against positions of temporarily absent animals' last poses
        for a, lp in last_pos.items():
            if a in ids:
                continue
            for d in dets:
                if math.hypot(d["pts"][0][0] - lp[0], d["pts"][0][1] - lp[1]) < min_sep:
                    return False, "animal close to an absent animal's last position", facts
        seen |= set(ids)
    return True, "", facts


def evaluate(case):
    res = Result()
    cfg = case["cfg"]
    ok, why, facts = scene_in_domain(case)
    if not ok:
        res.rejected = True
        res.cls(f"rejected:{why}")
        return res
    K = len({d["a"] for f in case["frames"] for d in f})
    res.nontrivial = K >= 2 and (facts["absence"] or facts["late"])
    motion = case.get("motion", "slow")
    score_name = trackgen.FEATURE_SCORE[cfg["feat"]][1]
    res.cls(trackgen.cfg_label(cfg), f"K={K}", *(k for k, v in facts.items() if v))
    res.cls(f"motion={motion}", f"motion={motion}|{score_name}", f"motion={motion}|{'nontrivial' if res.nontrivial else 'trivial'}")
    # bucket suffix: failures of the brisk class are told apart from those of the original (slow) class
    sfx = ":brisk" if motion == "brisk" else ""
    tracker = trackgen.make_tracker(cfg)
    cm = cfg["candidates_method"]
    names = {}  # animal -> set of names
    owner = {}  # name -> set of animals
    res.n_evals = 0
    for t, dets in enumerate(case["frames"]):
        insts = [trackgen.make_detection(d, case["n_nodes"]) for d in dets]
        try:
            out = tracker.track(list(insts), frame_idx=t, image=None)
        except Exception as e:  # noqa: BLE001
            b = runner.exc_bucket(f"track:{cm}{sfx}", e)
            if b is None:
                raise
            res.fail(b, f"frame {t}: {type(e).__name__}: {str(e)[:200]}")
            break
        res.n_evals += 1
        out_ids = {id(o) for o in out}
        for d, inst in zip(dets, insts):
            if id(inst) not in out_ids or inst.track is None:
                res.fail(f"untracked:{cm}{sfx}", f"frame {t}: animal {d['a']} not returned with a track")
                continue
            nm = inst.track.name
            names.setdefault(d["a"], set()).add(nm)
            owner.setdefault(nm, set()).add(d["a"])
            if len(names[d["a"]]) > 1:
                res.fail(
                    f"identity-changed:{cm}{sfx}",
                    f"frame {t}: animal {d['a']} has held tracks {sorted(names[d['a']])} ({trackgen.cfg_label(cfg)}, window {cfg['window_size']})",
                )
            if len(owner[nm]) > 1:
                res.fail(
                    f"identity-shared:{cm}{sfx}",
                    f"frame {t}: track {nm} was given to animals {sorted(owner[nm])} ({trackgen.cfg_label(cfg)}, window {cfg['window_size']})",
                )
    res.n_evals = max(1, res.n_evals)
    return res


def summarize(case):
    return {
        "cfg": case["cfg"],
        "kind": case["kind"],
        "motion": case.get("motion", "slow"),
        "n_nodes": case["n_nodes"],
        "frames(animal ids in listed order)": [[d["a"] for d in f] for f in case["frames"]],
        "first_detection": case["frames"][0][0] if case["frames"] and case["frames"][0] else None,
    }


def parts(tier):
    out = [
        Part(
            name="scene",
            evaluate=evaluate,
            strategy=lambda: strategy(16 if tier == "quick" else 40),
            budget={"quick": 400, "thorough": 120000},
            min_nontrivial={"quick": 60, "thorough": 8000},
            summarize=summarize,
        )
    ]
    if tier == "thorough":
        # same scenes and identity oracle, searched by libFuzzer guided by branch coverage of the tracking package
        from checks.c09 import TRACKING_MODULES

        out.append(
            Part(
                name="scene-coverage-guided",
                evaluate=evaluate,
                strategy=lambda: strategy(16),
                budget={"thorough": 144000},
                min_nontrivial={"thorough": 1000},
                summarize=summarize,
                fuzz={"instrument": ["sleap_nn.tracking", "sleap_nn.evaluation"], "modules": TRACKING_MODULES + ["sleap_nn.evaluation"]},
            )
        )
    return out


if __name__ == "__main__":
    runner.main(__name__)
