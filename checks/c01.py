"""C01 - confidence-map targets are Gaussian bumps sampled on the stride grid.

Observed APIs: `generate_confmaps` (rank-3 and rank-4 input), `generate_multiconfmaps`
(`is_centroids` False / True) and the legacy DataPipes `ConfidenceMapGenerator`,
`MultiConfidenceMapGenerator(centroids False / True)`.

Oracles (all grounded in the property statement):
  reference  : float64 numpy render `exp(-d^2 / (2 (sigma*stride)^2))` on `arange(0,size,stride)`
               (`vlib.ref_render`), per-cell max over animals for multi / centroid maps;
  predicates : finite, in [0,1], shape (1, nodes, H/stride, W/stride) (floor or ceil when the size
               is not a multiple of the stride), largest at the grid cell nearest the keypoint,
               exactly zero channel when every contribution is a missing point;
  metamorphic: x/y transposition, permutation of animals, appending an all-NaN animal
               (multi / centroid) or an all-NaN node (single).
"""

import math

import numpy as np

from vlib import ref_render as rr
from vlib import runner
from vlib.runner import Part, Result

PROPERTY = "C01"
LEVEL = "exploration"
RULE = (
    "cases = (variant single/multi/centroid, H, W, stride in {1,2,4,8,16}, sigma in [0.5,8], keypoints "
    "built per point from a drawn class: inside sub-pixel / exactly on a grid cell / midway between "
    "cells / on the border / outside by < 3 sigma*stride / far outside / NaN-both / NaN-x / NaN-y; "
    "NaN padding animals and num_instances as process_lf produces them); every case is run through the "
    "functional API and the DataPipe API; non-trivial = at least one finite keypoint within "
    "3*sigma*stride of the image AND at least one missing keypoint in the same call; distinct by hash "
    "of the serialised case"
)
ASSUMPTIONS = [
    "sigma < 0.5 is not generated (DESIGN: Python-double 2*sigma**2 underflow is unreachable from any config); infinite coordinates are not labels",
    "n_samples is always 1 (every caller passes one frame; make_multi_confmaps reduces over the flattened sample*instance axis)",
    "instances beyond num_instances are NaN padding, as process_lf produces; num_instances below the number of real animals is not generated",
    "for H or W not a multiple of the stride both floor(size/stride) and ceil(size/stride) cells are accepted (code and docstring disagree, the statement does not pick one); the reference is cropped to the observed size",
    "keypoint coordinates are rounded to float32 before both the call and the float64 reference (labels are float32 tensors in every caller)",
    "generate_confmaps with a rank-4 input is exercised with one animal only (its callers: single-instance and centered-instance samples)",
]

STRIDES = [1, 2, 4, 8, 16]
POINT_CLASSES = [
    # (label, weight)
    ("inside_subpixel", 22),
    ("on_grid", 12),
    ("cell_mid", 6),
    ("border", 10),
    ("outside_near", 12),
    ("outside_far", 8),
    ("nan_both", 12),
    ("nan_x", 9),
    ("nan_y", 9),
]

# float32 evaluation of exp(-(dx^2+dy^2)/(2 s^2)) from float32 inputs: the differences dx, dy carry
# one rounding each (<= 6e-8 relative), the exponent x therefore <= ~4e-7 relative, and
# |d exp(-x)| = exp(-x) x * rel <= 0.37 * 4e-7; torch's float32 exp adds ~1e-7.  1e-5 absolute
# (the DESIGN value) leaves more than an order of magnitude of slack.
TOL_REF = 1e-5
# value at the nearest cell vs channel maximum: only rounding can reorder near-equal distances
TOL_ARGMAX = 1e-6
# transposition: the same float32 operations with the two addends of d^2 exchanged; addition is
# commutative, so the result should be bit-identical; 1e-6 guards against kernel differences
TOL_TRANSPOSE = 1e-6


# --------------------------------------------------------------------------------------
# helpers


def f32(v):
    return float(np.float32(v))


def points_array(case):
    """(n_inst, n_nodes, 2) float32 array of the case's keypoints."""
    pts = np.array(case["pts"], dtype=np.float64).reshape(len(case["pts"]), -1, 2)
    return pts.astype(np.float32)


def expected_shapes(size, stride):
    return {size // stride, -(-size // stride)}


def dist_to_image(p, H, W):
    """Distance of a finite point to the rectangle [0,W-1] x [0,H-1]."""
    dx = max(0.0 - p[0], 0.0, p[0] - (W - 1))
    dy = max(0.0 - p[1], 0.0, p[1] - (H - 1))
    return math.hypot(dx, dy)


def check_maps(res, prefix, out, P, case, reduce_animals):
    """Judge one returned map tensor against the statement.

    P: float64 (n_inst, n_nodes, 2).  reduce_animals=False -> one channel per row of P[0]
    (single variant), True -> channel n is the max over animals of node n.
    Returns the float64 numpy map (n_ch, gh, gw) or None if the shape is unusable.
    """
    H, W, stride, sigma = case["H"], case["W"], case["stride"], case["sigma"]
    nonmult = (H % stride != 0) or (W % stride != 0)
    sfx = ":nonmultiple-size" if nonmult else ""
    res.n_evals += 1
    n_ch = P.shape[1]
    arr = out.detach().cpu().numpy() if hasattr(out, "detach") else np.asarray(out)
    shp = tuple(arr.shape)
    ok_shape = (
        len(shp) == 4
        and shp[0] == 1
        and shp[1] == n_ch
        and shp[2] in expected_shapes(H, stride)
        and shp[3] in expected_shapes(W, stride)
    )
    if not ok_shape:
        res.fail(
            f"{prefix}:shape{sfx}",
            f"shape {shp}, expected (1,{n_ch},{H}/{stride},{W}/{stride}) for H={H} W={W} stride={stride}",
        )
        return None
    if str(arr.dtype) != "float32":
        res.fail(f"{prefix}:dtype", f"dtype {arr.dtype}, float32 documented")
    m = arr[0].astype(np.float64)
    gh, gw = m.shape[1:]
    if gh == 0 or gw == 0:
        return m  # size < stride with floor semantics: no cell to judge (not generated)
    if not np.isfinite(m).all():
        bad = np.argwhere(~np.isfinite(m))[0]
        res.fail(f"{prefix}:nonfinite", f"non-finite value {m[tuple(bad)]} at (channel,row,col)={tuple(bad)}; points={P.tolist()}")
        return None
    if m.min() < 0.0 or m.max() > 1.0:
        res.fail(f"{prefix}:range", f"values outside [0,1]: min={m.min()} max={m.max()}")

    # (1) reference
    if reduce_animals:
        ref = rr.ref_multi_confmaps(P, H, W, stride, sigma)
    else:
        ref = rr.ref_confmaps(P[0], H, W, stride, sigma)
    ref = ref[:, :gh, :gw]
    err = np.abs(ref - m)
    if err.max() > TOL_REF:
        ch, r, c = np.unravel_index(int(err.argmax()), err.shape)
        res.fail(
            f"{prefix}:reference{sfx}",
            f"|out-ref|={err.max():.3g} at channel {ch} cell (r={r},c={c}) i.e. image (x={c * stride},y={r * stride}): "
            f"out={m[ch, r, c]:.6g} ref={ref[ch, r, c]:.6g}; H={H} W={W} stride={stride} sigma={sigma} "
            f"node coords={P[:, ch].tolist()}",
        )

    # (2) predicates that do not use the reference values
    miss = rr.is_missing(P)  # (n_inst, n_nodes)
    for ch in range(n_ch):
        contributors = [a for a in range(P.shape[0])] if reduce_animals else [0]
        finite_pts = [P[a, ch] for a in contributors if not miss[a, ch]]
        chan = m[ch]
        if not finite_pts:
            if np.any(chan != 0.0):
                res.fail(
                    f"{prefix}:missing-nonzero",
                    f"channel {ch} has only missing keypoints {P[:, ch].tolist()} but max |value| = {np.abs(chan).max():.6g}",
                )
            continue
        cmax = chan.max()
        if cmax <= 0.0:
            continue  # identically zero (underflow far outside): nothing to locate
        best = -1.0
        for p in finite_pts:
            for r, c in rr.nearest_cells(p, H, W, stride, grid_shape=(gh, gw)):
                best = max(best, chan[r, c])
        if best < cmax - TOL_ARGMAX:
            r, c = np.unravel_index(int(chan.argmax()), chan.shape)
            res.fail(
                f"{prefix}:argmax{sfx}",
                f"channel {ch}: maximum {cmax:.6g} at cell (r={r},c={c}) but the value at the cell(s) nearest to the "
                f"keypoint(s) {[q.tolist() for q in finite_pts]} is {best:.6g}; stride={stride}",
            )
    return m


def compare(res, bucket, a, b, tol, what):
    res.n_evals += 1
    a = a.detach().cpu().numpy().astype(np.float64)
    b = b if isinstance(b, np.ndarray) else b.detach().cpu().numpy().astype(np.float64)
    if a.shape != b.shape:
        res.fail(bucket + ":shape", f"{what}: shapes {a.shape} vs {b.shape}")
        return
    with np.errstate(invalid="ignore"):
        d = np.abs(a - b)
    if not np.isfinite(d).all() or d.max() > tol:
        res.fail(bucket, f"{what}: max |difference| = {np.nanmax(d) if np.isfinite(d).any() else float('nan'):.3g} (tolerance {tol})")


# --------------------------------------------------------------------------------------
# evaluate


def evaluate(case):
    import torch

    from sleap_nn.data import confidence_maps as cmod

    res = Result()
    res.n_evals = 0
    variant = case["variant"]
    H, W, stride, sigma = case["H"], case["W"], case["stride"], float(case["sigma"])
    P32 = points_array(case)  # (n_inst, n_nodes, 2)
    P = P32.astype(np.float64)
    n_inst, n_nodes = P.shape[:2]
    pad = int(case.get("pad", 0))
    nan = float("nan")

    # ---- classes / non-triviality
    labels = sorted({lab for row in case.get("cls", []) for lab in row})
    res.cls(f"variant={variant}|stride={stride}", f"variant={variant}", f"stride={stride}")
    res.cls("frame=large(>256px)" if max(H, W) > 256 else "frame=small")
    res.cls(*[f"pt={lab}" for lab in labels])
    if H % stride or W % stride:
        res.cls("size=non-multiple")
    miss = rr.is_missing(P)
    near = any(
        (not miss[a, n]) and dist_to_image(P[a, n], H, W) <= 3.0 * sigma * stride
        for a in range(n_inst)
        for n in range(n_nodes)
    )
    res.nontrivial = bool(near and miss.any())
    if variant != "single" and miss.all(axis=0).any():
        res.cls("multi:node-missing-in-all-animals")

    def T(a):
        return torch.tensor(np.ascontiguousarray(a), dtype=torch.float32)

    def padded(arr, k):
        """Append k all-NaN animals on axis 0."""
        if k == 0:
            return arr
        return np.concatenate([arr, np.full((k,) + arr.shape[1:], np.nan, dtype=arr.dtype)], axis=0)

    img = torch.zeros((1, 1, H, W), dtype=torch.float32)

    # ---- functional API ----------------------------------------------------------------
    if variant == "single":
        rank3 = bool(case.get("rank3", False))
        res.cls("single:rank3" if rank3 else "single:rank4")

        def call_single(arr, hw):
            t = T(arr[0][None]) if rank3 else T(arr[None])
            return cmod.generate_confmaps(t, hw, sigma=sigma, output_stride=stride)

        out = runner.guarded(res, "func:single", call_single, P32, (H, W))
        if out is not runner.FAILED:
            check_maps(res, "func:single", out, P, case, reduce_animals=False)
            # MR transposition
            outT = runner.guarded(res, "func:single:mr-transpose", call_single, P32[..., ::-1], (W, H))
            if outT is not runner.FAILED:
                compare(res, "mr:transpose:single", outT.transpose(-1, -2), out, TOL_TRANSPOSE, "swap x/y and H/W")
            # MR: an extra all-NaN node adds a zero channel and leaves the others untouched
            ext = np.concatenate([P32, np.full((1, 1, 2), np.nan, dtype=np.float32)], axis=1)
            outN = runner.guarded(res, "func:single:mr-nan-node", call_single, ext, (H, W))
            if outN is not runner.FAILED and tuple(outN.shape[:2]) == (1, n_nodes + 1):
                compare(res, "mr:nan-node:single", outN[:, :n_nodes], out, 0.0, "append an all-NaN node (other channels)")
                res.n_evals += 1
                if bool((outN[:, n_nodes] != 0).any()):
                    res.fail("mr:nan-node:single:nonzero", "channel of an appended all-NaN node is not exactly zero")
            elif outN is not runner.FAILED:
                res.fail("mr:nan-node:single:shape", f"shape {tuple(outN.shape)} after appending a node to {n_nodes}")
    else:
        cent = variant == "centroid"

        def call_multi(arr, hw, n_real, k_pad):
            a = padded(arr, k_pad)
            t = T(a[:, 0, :][None]) if cent else T(a[None])
            return cmod.generate_multiconfmaps(
                t, hw, num_instances=n_real, sigma=sigma, output_stride=stride, is_centroids=cent
            )

        pre = f"func:{variant}"
        out = runner.guarded(res, pre, call_multi, P32, (H, W), n_inst, pad)
        if out is not runner.FAILED:
            check_maps(res, pre, out, P, case, reduce_animals=True)
            outT = runner.guarded(res, pre + ":mr-transpose", call_multi, P32[..., ::-1], (W, H), n_inst, pad)
            if outT is not runner.FAILED:
                compare(res, f"mr:transpose:{variant}", outT.transpose(-1, -2), out, TOL_TRANSPOSE, "swap x/y and H/W")
            perm = case.get("perm") or list(range(n_inst))
            if perm != list(range(n_inst)):
                outP = runner.guarded(res, pre + ":mr-permute", call_multi, P32[perm], (H, W), n_inst, pad)
                if outP is not runner.FAILED:
                    # max is exactly commutative and associative on finite floats
                    compare(res, f"mr:permute:{variant}", outP, out, 0.0, f"permute animals {perm}")
            # one more all-NaN animal, counted as a real one (num_instances + 1), placed first or last
            first = bool(case.get("nan_first", False))
            extra = np.full((1,) + P32.shape[1:], np.nan, dtype=np.float32)
            arrN = np.concatenate([extra, P32] if first else [P32, extra], axis=0)
            outN = runner.guarded(res, pre + ":mr-nan-animal", call_multi, arrN, (H, W), n_inst + 1, pad)
            if outN is not runner.FAILED:
                compare(res, f"mr:nan-animal:{variant}", outN, out, 0.0, "insert an all-NaN animal")

    # ---- DataPipe API ------------------------------------------------------------------
    # For half of the cases the judged example is the SECOND one of the stream, behind a leading example of a
    # different image size (one pass over a mixed-resolution stream): per-pass state must not leak between examples.
    lead_on = (int(H) + int(W) + int(round(float(sigma) * 10))) % 2 == 1
    if lead_on:
        res.cls("dp:behind-differently-sized-example")

    def stream(ex):
        if not lead_on:
            return [ex]
        lead = dict(ex)
        lead["image"] = torch.zeros(1, 1, max(int(stride), int(H) // 2), int(W) + 3 * int(stride))
        return [lead, ex]

    n_expected = 2 if lead_on else 1
    if variant == "single":
        rank3 = bool(case.get("rank3", False))
        if rank3:
            ex = {"image": img, "instance": T(P32[0][None])}
            mk = lambda: cmod.ConfidenceMapGenerator(stream(ex), sigma=sigma, output_stride=stride, instance_key="instance")  # noqa: E731
        else:
            ex = {"image": img, "instances": T(P32[None])}
            mk = lambda: cmod.ConfidenceMapGenerator(stream(ex), sigma=sigma, output_stride=stride)  # noqa: E731
        got = runner.guarded(res, "dp:single", lambda: list(mk()))
        if got is not runner.FAILED:
            if len(got) != n_expected or "confidence_maps" not in got[-1]:
                res.fail("dp:single:protocol", f"{len(got)} examples / keys {sorted(got[0]) if got else None}")
            else:
                check_maps(res, "dp:single", got[-1]["confidence_maps"], P, case, reduce_animals=False)
    elif variant == "multi":
        ex = {"image": img, "instances": T(padded(P32, pad)[None]), "num_instances": n_inst}
        got = runner.guarded(
            res,
            "dp:multi",
            lambda: list(cmod.MultiConfidenceMapGenerator(stream(ex), sigma=sigma, output_stride=stride, centroids=False)),
        )
        if got is not runner.FAILED:
            if len(got) != n_expected or "confidence_maps" not in got[-1]:
                res.fail("dp:multi:protocol", f"{len(got)} examples / keys {sorted(got[0]) if got else None}")
            else:
                check_maps(res, "dp:multi", got[-1]["confidence_maps"], P, case, reduce_animals=True)
    else:
        ex = {
            "image": img,
            "instances": T(padded(P32, pad)[None]),
            "centroids": T(padded(P32, pad)[:, 0, :][None]),
            "num_instances": n_inst,
        }
        got = runner.guarded(
            res,
            "dp:centroid",
            lambda: list(cmod.MultiConfidenceMapGenerator(stream(ex), sigma=sigma, output_stride=stride, centroids=True)),
        )
        if got is not runner.FAILED:
            if len(got) != n_expected or "centroids_confidence_maps" not in got[-1]:
                res.fail("dp:centroid:protocol", f"{len(got)} examples / keys {sorted(got[0]) if got else None}")
            else:
                check_maps(res, "dp:centroid", got[-1]["centroids_confidence_maps"], P, case, reduce_animals=True)

    res.n_evals = max(res.n_evals, 1)
    return res


# --------------------------------------------------------------------------------------
# generator


def strategy():
    from hypothesis import strategies as st

    labels = [lab for lab, w in POINT_CLASSES for _ in range(w)]
    nan = float("nan")

    @st.composite
    def case(draw):
        variant = draw(st.sampled_from(["single", "single", "multi", "multi", "multi", "centroid", "centroid"]))
        # "large": 512..4096 px frames sampled at stride 32/64 (small grids, coordinates of thousands of pixels: the
        # rounding analysis above is relative, so the same tolerance applies; formulas that expand the square are not)
        large = draw(st.integers(0, 6)) == 0
        stride = draw(st.sampled_from([32, 64])) if large else draw(st.sampled_from(STRIDES))

        def size():
            if large:
                return stride * draw(st.integers(512 // stride, 4096 // stride)) + (draw(st.integers(1, stride - 1)) if draw(st.integers(0, 5)) == 0 else 0)
            if draw(st.integers(0, 99)) < 15:
                return draw(st.integers(max(8, stride), 96))  # at least one full cell
            return stride * draw(st.integers(max(1, -(-8 // stride)), 96 // stride))

        H, W = size(), size()
        sigma = draw(
            st.one_of(
                st.sampled_from([0.5, 1.0, 1.5, 2.5, 5.0, 8.0]),
                st.floats(0.5, 8.0, allow_nan=False, allow_infinity=False),
            )
        )
        reach = 3.0 * sigma * stride

        def inside(size_):
            return draw(st.floats(0.0, float(size_ - 1), allow_nan=False))

        def on_grid(size_):
            return float(stride * draw(st.integers(0, (size_ - 1) // stride)))

        def cell_mid(size_):
            k = draw(st.integers(0, (size_ - 1) // stride))
            v = stride * k + stride / 2.0
            return v if v <= size_ - 1 else stride * k - stride / 2.0 if k > 0 else v

        def outside(size_, lo, hi):
            u = draw(st.floats(lo, hi, allow_nan=False))
            return -u if draw(st.booleans()) else (size_ - 1) + u

        def point(lab):
            if lab == "inside_subpixel":
                x, y = inside(W), inside(H)
            elif lab == "on_grid":
                x, y = on_grid(W), on_grid(H)
            elif lab == "cell_mid":
                which = draw(st.integers(0, 2))
                x = cell_mid(W) if which != 1 else on_grid(W)
                y = cell_mid(H) if which != 0 else on_grid(H)
            elif lab == "border":
                which = draw(st.integers(0, 2))
                x = draw(st.sampled_from([0.0, float(W - 1)])) if which != 1 else inside(W)
                y = draw(st.sampled_from([0.0, float(H - 1)])) if which != 0 else inside(H)
            elif lab in ("outside_near", "outside_far"):
                lo, hi = (1e-3, 0.7 * reach) if lab == "outside_near" else (reach * 1.01 + 0.01, reach + 400.0)
                which = draw(st.integers(0, 2))
                x = outside(W, lo, hi) if which != 1 else inside(W)
                y = outside(H, lo, hi) if which != 0 else inside(H)
            elif lab == "nan_both":
                x, y = nan, nan
            elif lab == "nan_x":
                x, y = nan, inside(H)
            elif lab == "nan_y":
                x, y = inside(W), nan
            else:  # pragma: no cover
                raise AssertionError(lab)
            return [f32(x), f32(y)]

        n_inst = 1 if variant == "single" else draw(st.integers(1, 4))
        n_nodes = 1 if variant == "centroid" else draw(st.integers(1, 6))
        cls = [[draw(st.sampled_from(labels)) for _ in range(n_nodes)] for _ in range(n_inst)]
        # multi: sometimes one node is missing in every animal (all-zero channel by reduction)
        if variant == "multi" and n_inst > 1 and draw(st.integers(0, 3)) == 0:
            j = draw(st.integers(0, n_nodes - 1))
            for a in range(n_inst):
                cls[a][j] = draw(st.sampled_from(["nan_both", "nan_x", "nan_y"]))
        # keep most calls non-trivial: one present-and-near plus one missing point when there is room
        n_pts = n_inst * n_nodes
        if n_pts >= 2 and draw(st.integers(0, 9)) < 7:
            flat = [(a, n) for a in range(n_inst) for n in range(n_nodes)]
            i = draw(st.integers(0, n_pts - 1))
            k = draw(st.integers(0, n_pts - 2))
            k = k if k < i else k + 1
            if not any(c in ("inside_subpixel", "on_grid", "cell_mid", "border", "outside_near") for r in cls for c in r):
                cls[flat[i][0]][flat[i][1]] = draw(st.sampled_from(["inside_subpixel", "on_grid", "border", "outside_near"]))
            if not any(c.startswith("nan") for r in cls for c in r):
                cls[flat[k][0]][flat[k][1]] = draw(st.sampled_from(["nan_both", "nan_x", "nan_y"]))
        pts = [[point(cls[a][n]) for n in range(n_nodes)] for a in range(n_inst)]
        out = {
            "variant": variant,
            "H": H,
            "W": W,
            "stride": stride,
            "sigma": float(sigma),
            "pts": pts,
            "cls": cls,
        }
        if variant == "single":
            out["rank3"] = draw(st.booleans())
        else:
            out["pad"] = draw(st.sampled_from([0, 0, 1, 2]))
            out["perm"] = list(draw(st.permutations(list(range(n_inst)))))
            out["nan_first"] = draw(st.booleans())
        return out

    return case()


def parts(tier):
    return [
        Part(
            name="confmaps",
            evaluate=evaluate,
            strategy=strategy,
            budget={"quick": 1200, "thorough": 160000},
            shards={"quick": 1, "thorough": 16},
            min_nontrivial={"quick": 250, "thorough": 30000},
        )
    ]


if __name__ == "__main__":
    runner.main(__name__)
