"""C09 - tracking never drops, duplicates or double-assigns detections, never crashes.

Domain: frame histories (presence patterns of up to 5 animals: steady, single animal,
newcomer, flicker, stale track, burst of new animals, empty frames, chaos with jumps /
sub-threshold scores / NaN nodes / duplicate detections) x tracker configurations
{fixed_window, local_queues} x {hungarian, greedy} x {keypoints+oks, centroids+euclid,
bboxes+iou} x {mean, max} x window 1..6 x threshold {0, 0.5}.  The real `Tracker.from_config`
object is driven frame by frame; the oracle is a set of invariants over the history.
"""

from vlib import runner, trackgen
from vlib.runner import Part, Result

PROPERTY = "C09"
LEVEL = "exploration"
RULE = (
    "a case is a tracker configuration plus an explicit history of frames (each a list of detections "
    "with pose, score and ground-truth animal id) built by Hypothesis from a drawn presence pattern; "
    "after every Tracker.track call the invariants (no exception, output elements are input objects, "
    "no duplicates, every above-threshold input returned with a track, no two returned detections share "
    "a track) are evaluated; non-trivial = the history has an appearance after frame 0, or a "
    "disappearance followed by a reappearance, or a single-animal stretch of >= 2 frames"
)
ASSUMPTIONS = [
    "Tracker._track_objects (class-level shared dict, mutable attrs default) is cleared by the harness before every history",
    "detections are fresh sio.PredictedInstance objects without a track, as the predictors hand them to Tracker.track",
    "optical-flow tracker (use_flow) and image features need frames and are outside this check",
]

PATTERNS = ["steady", "single", "newcomer", "flicker", "stale", "burst", "empties", "chaos"]


def strategy(max_frames):
    from hypothesis import strategies as st

    @st.composite
    def history(draw):
        cfg = draw(trackgen.config_strategy())
        pattern = draw(st.sampled_from(PATTERNS))
        W = cfg["window_size"]
        thr = cfg["instance_score_threshold"]
        K = 1 if pattern == "single" else draw(st.integers(1, 5))
        n_nodes = draw(st.integers(1, 4))
        F = draw(st.integers(2, max_frames))
        offs = [[draw(st.integers(-20, 20)), draw(st.integers(-20, 20))] for _ in range(n_nodes)]
        offs[0] = [0, 0]
        vel = [[draw(st.integers(-2, 2)), draw(st.integers(-2, 2))] for _ in range(K)]
        # presence matrix
        pres = [[True] * K for _ in range(F)]
        if pattern == "newcomer" and K >= 1:
            for a in range(K):
                if a == K - 1 or draw(st.booleans()):
                    t0 = draw(st.integers(1, F - 1))
                    for t in range(t0):
                        pres[t][a] = False
        elif pattern in ("flicker", "chaos"):
            for t in range(F):
                for a in range(K):
                    pres[t][a] = draw(st.booleans())
        elif pattern == "stale":
            F = max(F, min(max_frames, W + 4))
            pres = [[True] * K for _ in range(F)]
            a = draw(st.integers(0, K - 1))
            t0 = draw(st.integers(1, max(1, F - 2)))
            L = draw(st.integers(W, 2 * W))
            for t in range(t0, min(F - 1, t0 + L)):
                pres[t][a] = False
            if draw(st.booleans()):  # everybody else leaves as well -> only stale tracks remain
                for t in range(t0, min(F - 1, t0 + L)):
                    for b in range(K):
                        pres[t][b] = False
        elif pattern == "burst":
            t0 = draw(st.integers(1, F - 1))
            nb = draw(st.integers(1, K))
            for a in range(K - nb, K):
                for t in range(t0):
                    pres[t][a] = False
        elif pattern == "empties":
            for t in range(F):
                if draw(st.integers(0, 3)) == 0:
                    pres[t] = [False] * K
        elif pattern == "single":
            if draw(st.booleans()) and F >= 3:
                t0 = draw(st.integers(1, F - 2))
                pres[t0][0] = False
        frames = []
        chaos = pattern == "chaos"
        score_pool = [0.9, 0.9, 0.9, 0.7, thr + 0.1, thr, max(0.0, thr - 0.1), 0.0] if (chaos or draw(st.integers(0, 4)) == 0) else [0.9, 0.8]
        for t in range(F):
            dets = []
            order = draw(st.permutations(list(range(K))))
            for a in order:
                if not pres[t][a]:
                    continue
                jx, jy = draw(st.integers(-3, 3)), draw(st.integers(-3, 3))
                bx = 60 + 130 * a + vel[a][0] * t + jx
                by = 90 + 50 * (a % 2) + vel[a][1] * t + jy
                if chaos and draw(st.integers(0, 7)) == 0:
                    bx += draw(st.sampled_from([-300, 300, 150]))
                pts = [[float(bx + o[0]) + 0.25, float(by + o[1]) + 0.5] for o in offs]
                nan_kind = draw(st.integers(0, 11)) if (chaos or n_nodes > 1) else 0
                if nan_kind == 1 and n_nodes > 1:
                    keep = draw(st.integers(0, n_nodes - 1))
                    mask = [draw(st.booleans()) or i == keep for i in range(n_nodes)]
                    pts = [p if m else None for p, m in zip(pts, mask)]
                elif nan_kind == 2 and chaos:
                    pts = [None] * n_nodes
                det = {"a": a, "pts": pts, "score": draw(st.sampled_from(score_pool))}
                dets.append(det)
                if chaos and draw(st.integers(0, 9)) == 0:
                    dets.append({"a": a, "pts": [None if p is None else list(p) for p in pts], "score": det["score"]})
            frames.append(dets)
        return {"cfg": cfg, "pattern": pattern, "n_nodes": n_nodes, "K": K, "frames": frames}

    return history()


def history_classes(case):
    """Non-triviality and class labels from the explicit history."""
    frames = case["frames"]
    seen, gone, labels = set(), set(), set()
    single_run = 0
    nontrivial = False
    for t, dets in enumerate(frames):
        ids = {d["a"] for d in dets}
        if t > 0 and (ids - seen):
            labels.add("newcomer_after_frame0")
            nontrivial = True
        if ids & gone:
            labels.add("reappearance")
            nontrivial = True
        gone |= seen - ids
        gone -= ids
        seen |= ids
        if len(dets) == 1:
            single_run += 1
            if single_run >= 2:
                labels.add("single_animal_stretch")
                nontrivial = True
        else:
            single_run = 0
        if not dets:
            labels.add("empty_frame")
        if any(all(p is None for p in d["pts"]) for d in dets):
            labels.add("all_nan_detection")
        if len(ids) < len(dets):
            labels.add("duplicate_detection")
    return nontrivial, sorted(labels)


def evaluate(case):
    res = Result()
    cfg = case["cfg"]
    thr = cfg["instance_score_threshold"]
    n_nodes = case["n_nodes"]
    nt, labels = history_classes(case)
    res.nontrivial = nt
    res.cls(f"pattern={case['pattern']}", trackgen.cfg_label(cfg), *labels)
    tracker = runner.guarded(res, "construct", trackgen.make_tracker, cfg)
    if tracker is runner.FAILED:
        return res
    cm = cfg["candidates_method"]
    res.n_evals = 0
    for t, dets in enumerate(case["frames"]):
        insts = [trackgen.make_detection(d, n_nodes) for d in dets]
        ids_in = {id(i): k for k, i in enumerate(insts)}
        try:
            out = tracker.track(list(insts), frame_idx=t, image=None)
        except Exception as e:  # noqa: BLE001
            b = runner.exc_bucket(f"track:{cm}", e)
            if b is None:
                raise
            res.fail(b, f"frame {t} ({len(dets)} detections): {type(e).__name__}: {str(e)[:200]}")
            break  # tracker state is undefined after an exception
        res.n_evals += 1
        out = list(out)
        # every returned object is one of the inputs (identity), none twice
        unknown = [o for o in out if id(o) not in ids_in]
        if unknown:
            res.fail(f"invented:{cm}", f"frame {t}: {len(unknown)} returned objects are not inputs")
        seen_ids = [id(o) for o in out]
        if len(set(seen_ids)) != len(seen_ids):
            res.fail(f"duplicated:{cm}", f"frame {t}: a detection was returned twice")
        # every above-threshold input is returned with a track
        for k, inst in enumerate(insts):
            if dets[k]["score"] > thr:
                if id(inst) not in seen_ids:
                    res.fail(
                        f"dropped:{cm}",
                        f"frame {t}: detection {k} (animal {dets[k]['a']}, score {dets[k]['score']} > {thr}) not returned; "
                        f"{len(dets)} detections in frame",
                    )
                elif inst.track is None:
                    res.fail(
                        f"untracked:{cm}",
                        f"frame {t}: detection {k} (animal {dets[k]['a']}, score {dets[k]['score']} > {thr}) returned without a track",
                    )
        # no two returned detections share a track
        tr = [o.track for o in out if id(o) in ids_in and o.track is not None]
        names = [x.name for x in tr]
        if len(set(map(id, tr))) != len(tr) or len(set(names)) != len(names):
            res.fail(f"shared-track:{cm}", f"frame {t}: two detections share a track: {names}")
    res.n_evals = max(1, res.n_evals)
    return res


def summarize(case):
    return {
        "cfg": case["cfg"],
        "pattern": case["pattern"],
        "n_nodes": case["n_nodes"],
        "frames(animal ids, scores)": [[(d["a"], d["score"]) for d in f] for f in case["frames"]],
    }


TRACKING_MODULES = [
    "sleap_nn.tracking.utils",
    "sleap_nn.tracking.track_instance",
    "sleap_nn.tracking.candidates.fixed_window",
    "sleap_nn.tracking.candidates.local_queues",
    "sleap_nn.tracking.tracker",
]


def parts(tier):
    out = [
        Part(
            name="history",
            evaluate=evaluate,
            strategy=lambda: strategy(14 if tier == "quick" else 30),
            budget={"quick": 400, "thorough": 120000},
            min_nontrivial={"quick": 100, "thorough": 15000},
            summarize=summarize,
        )
    ]
    if tier == "thorough":
        # the same histories and invariants, but searched by libFuzzer with branch coverage of the tracking
        # package as the guide (16 independent campaigns): reaches branch combinations of Tracker.track /
        # the candidate classes that uniform sampling visits rarely
        out.append(
            Part(
                name="history-coverage-guided",
                evaluate=evaluate,
                strategy=lambda: strategy(14),
                budget={"thorough": 128000},
                min_nontrivial={"thorough": 2000},
                summarize=summarize,
                fuzz={"instrument": ["sleap_nn.tracking"], "modules": TRACKING_MODULES},
            )
        )
    return out


if __name__ == "__main__":
    runner.main(__name__)
