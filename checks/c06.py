"""C06 - multi-peak detection returns exactly the strict local maxima above threshold.

Observed: the return tuples of ``find_local_peaks_rough`` and ``find_local_peaks``
(sleap_nn/inference/peak_finding.py).

Cases: a float32 batch ``(B 1..3, C 1..4, H 1..24, W 1..24)`` whose maps follow one of the
value models of ``vlib.peakmaps`` (iid floats, quantised levels -> plateaus/ties, sums of
Gaussians, constant, single hot pixel, hot pixels on borders/corners, negative-only, tied
maxima, 1xN / Nx1 / 1x1 maps, per-map mixtures), a threshold (-1, 0, 0.2, 0.5, a map
entry, a map maximum) and an integral patch size (3, 5, 7, 4).

Oracles (written from the property statement, no code shared with the implementation):
  rough    the returned (sample, channel, y, x) tuples, as a set, equal the brute-force
           set {v > thr and v > every existing neighbour among the 8}; no duplicates;
           values bit-equal ``cms[b,c,y,x]``; documented shapes / dtypes.
  indep    (metamorphic) the result restricted to one (b,c) equals the result of calling
           the function on ``cms[b:b+1, c:c+1]`` alone - rough and refined.
  refine   ``refinement=None`` returns the rough result; with ``"integral"`` the number,
           order, sample/channel vectors and values are unchanged and every point moves by
           at most patch/2 per axis from its grid cell.  The bound is a theorem only when
           the patch weights are non-negative, therefore peaks whose patch may contain a
           negative entry are judged in their own bucket
           ``refine:half-patch-bound:negative-patch`` (DESIGN.md section 4, D5).
  layout   the tensor handed to the code under test holds the case's values in a drawn memory
           layout: contiguous | channels_last | permuted view of a buffer in another axis order |
           slice of a larger tensor | strided view | expanded (stride 0) view (value model and
           layout drawn as ONE pair).  Values are identical, so every oracle above applies
           unchanged; the indep probes re-run one map, one whole channel ``cms[:, c:c+1]`` or one
           whole sample; (metamorphic) the peak set equals the one for the contiguous copy and the
           refined coordinates agree for non-negative patches.  A bucket that fails only with the
           non-contiguous tensor carries the suffix ``:only-with-noncontiguous-layout``.
  dtypes   (part ``dtypes``) the maps as float32 | float64 | float16 | bfloat16 tensors, (dtype, value
           model) drawn as ONE pair; models incl. ``neartie`` (candidate maxima - adjacent or apart - that
           differ by 1e-9..1e-13 relative for float64, by 1-4 spacings of the dtype otherwise), ``nearthr``
           (maximum just above / just below / equal to the threshold) and ``tiny`` (float64: magnitudes
           1e-45..1e-60).  rough / indep / refine oracles as above, "strictly greater" and "exceeds the
           threshold" decided on the case's exact doubles (= the map's own arithmetic); cells exact, a
           float64 value may come back rounded to the documented float32.  Buckets end in ``:dtype=<dtype>``.
"""

import numpy as np

from vlib import env, peakmaps as pm, runner
from vlib.runner import Part, Result

PROPERTY = "C06"
LEVEL = "exploration"
RULE = (
    "cases = (float32 batch of maps drawn from a labelled value model - iid / quantised plateaus / "
    "Gaussians / constant / hot pixel / border+corner pixels / negative-only / tied maxima / mixed - "
    "with shape class 1x1, 1xN, Nx1, small, medium, large; threshold in {-1,0,0.2,0.5,a map entry,a map "
    "maximum}; patch in {3,5,7,4}); judged against a brute-force 8-neighbour scan, single-map re-runs "
    "and the refinement laws; non-trivial = the batch holds >= 1 true peak AND >= 1 tie/plateau among "
    "the top values (a cell above threshold that is >= all neighbours and == one of them, or a map "
    "maximum attained twice) AND B*C > 1; the values are handed over in a drawn memory layout (contiguous / "
    "channels_last / permuted view / slice of a larger tensor / strided / expanded; value model and layout "
    "drawn as one pair); part dtypes: (map dtype in {float32,float64,float16,bfloat16}, value model) drawn as "
    "one pair, models incl. near-tied (adjacent) candidate maxima, maximum just above/below/at the threshold and "
    "tiny magnitudes at the resolution of the dtype; non-trivial there = some cell above threshold beats or ties "
    "its largest neighbour by < 1e-2 relative, or map maximum and threshold within 1e-2 relative, or magnitude "
    "< 1e-15; distinct by hash of the serialised case"
)
ASSUMPTIONS = [
    "maps are finite float32 tensors with |v| <= 2 (kornia's dilation encodes 'excluded' as -1e4, so "
    "|v| must stay far below 1e4; NaN/inf maps are outside the quantifier 'all float maps')",
    "non-zero map values have magnitude >= 1e-30 (the generator flushes smaller ones to 0): float32 "
    "denormals underflow inside the bilinear crop (0.25 * 1.4e-45 -> 0) and a denormal-valued peak would "
    "get an all-zero patch - an arithmetic artefact far outside any confidence-map value range",
    "thresholds are float32-exact numbers: torch compares a float32 map with the Python scalar in "
    "float32, so for a threshold such as the double 0.2 the cell float32(0.2) would be 'above' in real "
    "arithmetic and 'not above' in the implementation - a representation artefact, not a property clause",
    "half-patch bound: asserted strictly only for peaks whose patch footprint (dilated by one cell for "
    "the ~1e-6 px sampling jitter of the perspective crop) holds no negative value; peaks with a "
    "possibly negative patch entry are still run and a bound violation goes to bucket "
    "refine:half-patch-bound:negative-patch (D5); refined single-map independence is likewise compared "
    "only for non-negative patches (with negative weights the normaliser can be ~0 and the result is "
    "ill-conditioned)",
    "zero-mass patch (peak value exactly 0 and nothing else in reach, i.e. a 1x1 map holding 0 with a "
    "negative threshold): the expectation 0/0 is undefined and the implementation returns NaN; counted "
    "as class refine=zero-mass-patch / excluded, not judged (see final report)",
    "order of the rough tuples is not asserted (the statement only fixes the set); order is asserted to "
    "be *unchanged* by refinement",
    "single-map / whole-channel / whole-sample re-runs are done for at most 3 drawn (b,c) slots per case",
    "memory layouts: the tensor under test always has the case's shape and values (checked, harness error "
    "otherwise); cells of the larger tensor outside the view hold 0, +-9 or noise in [-2,2] (|v| << 1e4), "
    "never NaN/inf; an 'expanded' (stride 0) view is only built when all samples (or all channels) hold "
    "identical maps - the generator copies slot 0 over the others; every call of the code under test gets "
    "a freshly built tensor, the numpy reference is never shared with it",
    "part dtypes: case values are doubles exactly representable in the map's dtype (checked) and the oracle "
    "compares them in float64; the threshold is representable in the map's dtype (torch compares the map with "
    "the Python scalar in the map's dtype), any double for float64 maps; outputs may have the documented float32 "
    "type or the map's dtype; a float64 value may be reported rounded to float32 (one float32 spacing) - the set "
    "of cells is exact; float16 maps are at least 2x2 (kornia's homography normalisation is singular in half "
    "precision for one-cell-wide maps: find_local_peaks(float16 Nx1, 'integral') raises LinAlgError - not judged); "
    "contiguous tensors, one single-map probe per case, refined single-map independence not compared; |v| <= 8",
]

TOL_INDEP = 1e-4  # refined coordinates of one map, alone vs inside a batch: same arithmetic up to
# the batched 3x3 solve of the perspective transform (observed differences <= 1e-6)


# ------------------------------------------------------------------------------------
# memory layout axis (same code as in checks/c07.py): the SAME values handed over with different strides.  Real callers pass
# network outputs in channels_last format, maps permuted from (S,H,W,C), channel / sample / crop
# slices of a larger tensor, strided and expanded views; the property quantifies over "every batch
# of confidence maps", so every oracle applies unchanged to every layout.

# weights: ~1/6 plain contiguous, the rest spread over the non-contiguous kinds
LAYOUTS = [
    "contiguous", "contiguous", "channels_last", "channels_last", "permuted", "permuted",
    "slice", "slice", "slice", "strided", "strided", "expanded",
]
# physical axis order of the buffer the (S,C,H,W) tensor is permuted back from
PERM_ORDERS = [[0, 2, 3, 1], [0, 2, 3, 1], [0, 1, 3, 2], [1, 0, 2, 3], [2, 3, 0, 1], [3, 2, 1, 0], [0, 3, 2, 1]]
# which axes of the larger tensor carry extra entries around the wanted block
SLICE_AXES = ["c", "c", "c", "b", "bc", "w", "h", "hw", "cw", "bchw"]
FILLS = ["high", "high", "zero", "low", "noise"]
NONCONTIG_ONLY = ":only-with-noncontiguous-layout"
PROBE_KINDS = ["cell", "cell", "channel", "channel", "sample"]
MODEL_LAYOUT_PAIRS = [(m, l) for m in pm.LOCAL_MODELS for l in LAYOUTS]


def draw_layout(draw, st, kind):
    """JSON description of one memory layout of the given kind (independent of the map shape)."""
    lay = {"kind": kind}
    if kind == "permuted":
        lay["order"] = list(draw(st.sampled_from(PERM_ORDERS)))
    elif kind == "slice":
        axes = draw(st.sampled_from(SLICE_AXES))
        pads = [0] * 8
        for i, a in enumerate("bchw"):
            if a in axes:
                lo, hi = draw(st.sampled_from([(1, 0), (0, 1), (1, 1), (2, 1), (0, 2)]))
                pads[2 * i], pads[2 * i + 1] = lo, hi
        lay.update(pads=pads, fill=draw(st.sampled_from(FILLS)), seed=draw(st.integers(0, 2**31 - 1)))
    elif kind == "strided":
        steps = list(draw(st.sampled_from([(1, 1, 1, 2), (1, 1, 2, 1), (1, 1, 2, 2), (1, 2, 1, 1), (2, 1, 1, 1), (1, 2, 1, 3), (2, 2, 2, 2), (1, 1, 3, 2)])))
        lay.update(steps=steps, fill=draw(st.sampled_from(FILLS)), seed=draw(st.integers(0, 2**31 - 1)))
    elif kind == "expanded":
        lay["dim"] = draw(st.sampled_from([0, 1]))
    return lay


def expand_values(arr, layout):
    """An expanded (stride 0) view is only legal when all samples (or channels) hold the same maps:
    the generator copies slot 0 of the expanded axis over the others (in place)."""
    if layout["kind"] == "expanded":
        if layout["dim"] == 0:
            arr[1:] = arr[:1]
        else:
            arr[:, 1:] = arr[:, :1]
    return arr


def _filler(shape, layout):
    """Content of the larger tensor around / between the wanted cells.  'high' (9.0) exceeds every map
    value, so code that reads outside the view reports it; never NaN/inf."""
    fill = layout.get("fill", "zero")
    if fill == "noise":
        return np.random.RandomState(int(layout["seed"])).uniform(-2.0, 2.0, size=shape).astype(pm.F32)
    return np.full(shape, {"high": 9.0, "low": -9.0, "zero": 0.0}[fill], dtype=pm.F32)


def build_layout(arr, layout, torch):
    """A NEW float32 tensor of shape arr.shape holding exactly arr's values in the given layout.
    Called once per call of the code under test: nothing the callee does to its argument (or to the
    storage around it) can reach the numpy reference or a later call."""
    kind = layout["kind"]
    B, C, H, W = arr.shape
    if kind == "contiguous":
        t = torch.from_numpy(arr.copy())
    elif kind == "channels_last":
        t = torch.from_numpy(arr.copy()).contiguous(memory_format=torch.channels_last)
    elif kind == "permuted":
        order = [int(i) for i in layout["order"]]
        base = torch.from_numpy(np.ascontiguousarray(arr.transpose(order)))
        t = base.permute(*[order.index(i) for i in range(4)])
    elif kind == "slice":
        p = [int(i) for i in layout["pads"]]
        big = _filler((B + p[0] + p[1], C + p[2] + p[3], H + p[4] + p[5], W + p[6] + p[7]), layout)
        sl = (slice(p[0], p[0] + B), slice(p[2], p[2] + C), slice(p[4], p[4] + H), slice(p[6], p[6] + W))
        big[sl] = arr
        t = torch.from_numpy(big)[sl]
    elif kind == "strided":
        s = [int(i) for i in layout["steps"]]
        big = _filler((B * s[0], C * s[1], H * s[2], W * s[3]), layout)
        sl = (slice(None, None, s[0]), slice(None, None, s[1]), slice(None, None, s[2]), slice(None, None, s[3]))
        big[sl] = arr
        t = torch.from_numpy(big)[sl]
    elif kind == "expanded":
        first = arr[:1] if int(layout["dim"]) == 0 else arr[:, :1]
        if not np.array_equal(np.broadcast_to(first, arr.shape), arr):
            raise runner.HarnessError("layout generator: 'expanded' needs identical maps along the expanded axis")
        t = torch.from_numpy(first.copy()).expand(B, C, H, W)
    else:
        raise runner.HarnessError(f"unknown layout {kind}")
    if tuple(t.shape) != arr.shape or t.dtype != torch.float32 or not torch.equal(t, torch.from_numpy(arr)):
        raise runner.HarnessError(f"layout builder {layout} changed the values")
    return t


def layout_classes(res, arr, layout, torch):
    noncontig = not build_layout(arr, layout, torch).is_contiguous()
    res.cls(f"layout={layout['kind']}", "layout-strides=" + ("noncontiguous" if noncontig else "contiguous"))
    return noncontig


def attribute_layout(res, layout, rerun_contiguous):
    """Failure triage only (never runs on a passing case): a bucket that fails with the drawn layout but
    not with the contiguous copy of the same values gets the suffix NONCONTIG_ONLY, so that a
    layout-specific root cause is told apart from one that shows for every layout."""
    if layout["kind"] == "contiguous" or not res.failures:
        return res
    ref = {b for b, _ in rerun_contiguous().failures}
    res.failures = [
        (b if (b in ref or b.startswith("layout:")) else b + NONCONTIG_ONLY, m + ("" if b in ref else f" [layout {layout}]"))
        for b, m in res.failures
    ]
    return res


def _block(kind, b, c):
    """Index of the sub-batch one independence probe looks at: one map, one whole channel (all
    samples - a non-contiguous view of a contiguous batch when B > 1) or one whole sample."""
    if kind == "channel":
        return (slice(None), slice(c, c + 1))
    if kind == "sample":
        return (slice(b, b + 1), slice(None))
    return (slice(b, b + 1), slice(c, c + 1))


def _probes(case):
    out = []
    for p in case.get("probes", []):
        out.append((int(p[0]), int(p[1]), p[2] if len(p) > 2 else "cell"))
    return out


def _struct(res, where, out, B, C, torch):
    if not (isinstance(out, tuple) and len(out) == 2):
        res.fail(f"{where}:shape-dtype", f"expected a 2-tuple, got {type(out)}")
        return None
    pts, vals = out
    if not (tuple(pts.shape) == (B, C, 2) and pts.dtype == torch.float32 and tuple(vals.shape) == (B, C) and vals.dtype == torch.float32):
        res.fail(f"{where}:shape-dtype", f"points {tuple(pts.shape)} {pts.dtype}, vals {tuple(vals.shape)} {vals.dtype} for B={B} C={C}")
        return None
    return pts.detach().cpu().numpy().copy(), vals.detach().cpu().numpy().copy()


def _same(a, b):
    return a.shape == b.shape and np.array_equal(a, b, equal_nan=True)


def judge_rough(res, arr, thr, rough):
    """Clauses (1) and (2).  Returns per-slot status dict: 'invalid' | 'ok' | 'wrong'."""
    B, C, H, W = arr.shape
    pts, vals = rough
    status = {}
    for b in range(B):
        for c in range(C):
            m = arr[b, c]
            mx = m.max()
            x, y, v = float(pts[b, c, 0]), float(pts[b, c, 1]), float(vals[b, c])
            if mx < thr:
                status[(b, c)] = "invalid"
                if not (np.isnan(x) and np.isnan(y)):
                    res.fail("global:below-threshold:coords-not-nan", f"(b={b},c={c}) max {float(mx)!r} < thr {thr!r} but coordinates ({x},{y})")
                if not (v == 0.0):
                    res.fail("global:below-threshold:value-not-zero", f"(b={b},c={c}) max {float(mx)!r} < thr {thr!r} but value {v!r}")
                continue
            n_at = int((m == mx).sum())
            cls = "tied-maxima" if n_at > 1 else "unique-max"
            status[(b, c)] = "wrong"
            if np.isnan(x) or np.isnan(y):
                res.fail("global:valid-reported-missing", f"(b={b},c={c}) max {float(mx)!r} >= thr {thr!r} but coordinates ({x},{y})")
                continue
            if not (x == int(x) and y == int(y) and 0 <= x < W and 0 <= y < H):
                res.fail("global:out-of-range", f"(b={b},c={c}) coordinates ({x},{y}) for a {H}x{W} map")
                continue
            if not (m[int(y), int(x)] == mx):
                res.fail(
                    f"global:max-membership:{cls}",
                    f"(b={b},c={c}) reported cell (x={int(x)},y={int(y)}) holds {float(m[int(y), int(x)])!r} but the map maximum is {float(mx)!r} "
                    f"(attained {n_at}x, first at {tuple(int(i) for i in np.argwhere(m == mx)[0])[::-1]} as (x,y)); shape {H}x{W}",
                )
            else:
                status[(b, c)] = "ok"
            if not (v == float(mx)):
                res.fail("global:value", f"(b={b},c={c}) reported value {v!r}, map maximum {float(mx)!r}")
    return status


def judge_refined(res, arr, thr, patch, rough, status, refined, prefix="refine"):
    """Clause (4): values, NaN pattern, half-patch bound.  Returns per-slot patch class."""
    B, C, H, W = arr.shape
    pts, vals = rough
    rpts, rvals = refined
    if not _same(rvals, vals):
        res.fail(f"{prefix}:values", f"peak values changed by refinement: {vals.tolist()} -> {rvals.tolist()}")
    half = patch / 2.0
    pclass = {}
    for b in range(B):
        for c in range(C):
            st_ = status[(b, c)]
            if st_ == "invalid":
                if not np.isnan(rpts[b, c]).all():
                    res.fail(f"{prefix}:invalid-became-valid", f"(b={b},c={c}) is below threshold but refined coordinates are {rpts[b, c].tolist()}")
                continue
            if st_ == "wrong":
                res.excluded += 1
                continue
            x, y = int(pts[b, c, 0]), int(pts[b, c, 1])
            pc = pm.patch_class(arr[b, c], y, x, patch)
            pclass[(b, c)] = pc
            res.n_evals += 1
            if pc == "zero-mass":
                res.excluded += 1
                continue
            d = rpts[b, c].astype(np.float64) - pts[b, c].astype(np.float64)
            # patch/2 is the property's bound; with non-negative weights the centre of mass of the
            # sample grid lies within (patch-1)/2, the remaining 0.5 absorbs every rounding effect
            if not (np.isfinite(d).all() and (np.abs(d) <= half).all()):
                key = f"{prefix}:half-patch-bound:" + ("nonneg-patch" if pc == "nonneg" else "negative-patch")
                res.fail(
                    key,
                    f"(b={b},c={c}) peak at (x={x},y={y}) value {float(vals[b, c])!r} moved by ({float(d[0]):.6g},{float(d[1]):.6g}) with patch {patch} (bound {half}); patch class {pc}",
                )
    return pclass


def _as_tuples(pts, vals, si, ci):
    pts = pts.detach().cpu().numpy()
    vals = vals.detach().cpu().numpy()
    si = si.detach().cpu().numpy()
    ci = ci.detach().cpu().numpy()
    return pts, vals, si, ci


def _check_struct(res, where, out, torch, dtypes=None):
    """Documented shapes / dtypes of the 4-tuple.  Returns numpy views or None.
    `dtypes` (part dtypes): the floating types accepted for points and values - the documented float32
    or the dtype of the maps; the arrays then come back as float64 / int64."""
    if not (isinstance(out, tuple) and len(out) == 4):
        res.fail(f"{where}:shape-dtype", f"expected a 4-tuple, got {type(out)}")
        return None
    pts, vals, si, ci = out
    n = pts.shape[0] if pts.dim() >= 1 else -1
    ok_dt = (torch.float32,) if dtypes is None else dtypes
    ok = (
        pts.dim() == 2
        and pts.shape[1] == 2
        and pts.dtype in ok_dt
        and tuple(vals.shape) == (n,)
        and vals.dtype in ok_dt
        and tuple(si.shape) == (n,)
        and si.dtype == torch.int32
        and tuple(ci.shape) == (n,)
        and ci.dtype == torch.int32
    )
    if not ok:
        res.fail(
            f"{where}:shape-dtype",
            f"points {tuple(pts.shape)} {pts.dtype}, vals {tuple(vals.shape)} {vals.dtype}, "
            f"sample {tuple(si.shape)} {si.dtype}, channel {tuple(ci.shape)} {ci.dtype}",
        )
        return None
    if dtypes is not None:
        return tuple(pm.out_to_numpy(t, torch) for t in (pts, vals, si, ci))
    return _as_tuples(pts, vals, si, ci)


def _restrict(tup, b, c):
    pts, vals, si, ci = tup
    sel = (si == b) & (ci == c)
    return pts[sel], vals[sel]


def evaluate(case):
    layout = case.get("layout") or {"kind": "contiguous"}
    res = _evaluate(case, layout)
    return attribute_layout(res, layout, lambda: _evaluate(case, {"kind": "contiguous"}))


def _evaluate(case, layout):
    import torch

    from sleap_nn.inference.peak_finding import find_local_peaks, find_local_peaks_rough

    res = Result()
    arr = pm.from_case_maps(case["maps"])
    B, C, H, W = arr.shape
    thr = float(case["thr"])
    patch = int(case["patch"])
    probes = _probes(case)

    def cms():
        return build_layout(arr, layout, torch)

    # ---------------- oracle sets
    expected = {}
    n_weak = 0
    tied_max = False
    for b in range(B):
        for c in range(C):
            m = arr[b, c]
            pk = pm.brute_local_peaks(m, thr)
            if H * W <= 64 and pk != pm.brute_local_peaks_loop(m, thr):
                raise runner.HarnessError("the two brute-force scans disagree")
            expected[(b, c)] = pk
            n_weak += pm.weak_local_max_ties(m, thr)
            mx = m.max()
            if mx > thr and int((m == mx).sum()) >= 2:
                tied_max = True
    n_exp = sum(len(v) for v in expected.values())
    exp_set = {(b, c, y, x) for (b, c), v in expected.items() for (y, x) in v}
    pos = {pm.cell_class(arr[b, c], y, x) for (b, c, y, x) in exp_set} if H > 1 and W > 1 else set()

    res.nontrivial = bool(n_exp >= 1 and (n_weak > 0 or tied_max) and B * C > 1)
    res.cls(
        f"model={case['model']}",
        f"shape={case['shape']}",
        f"thr={case['thr_kind']}",
        f"patch={patch}",
        "BC=1" if B * C == 1 else ("BC=2-4" if B * C <= 4 else "BC=5+"),
        "peaks=0" if n_exp == 0 else ("peaks=1" if n_exp == 1 else ("peaks=2-5" if n_exp <= 5 else "peaks=6+")),
    )
    if n_weak:
        res.cls("has-plateau-or-adjacent-tie")
    if tied_max:
        res.cls("has-tied-map-maximum")
    if (arr < 0).any():
        res.cls("has-negative-values")
    for p in sorted(pos):
        res.cls(f"true-peak-on-{p}")
    noncontig = layout_classes(res, arr, layout, torch)
    res.cls(f"model={case['model']}|layout={layout['kind']}")
    if n_exp and (n_weak or tied_max):
        res.cls("peaks-and-ties|layout-strides=" + ("noncontiguous" if noncontig else "contiguous"))
    for _, _, k in probes:
        res.cls(f"probe={k}")
    res.n_evals = B * C

    # ---------------- rough detector vs brute force
    out = runner.guarded(res, "rough", find_local_peaks_rough, cms(), thr)
    if out is runner.FAILED:
        return res
    rough = _check_struct(res, "rough", out, torch)
    if rough is None:
        return res
    pts, vals, si, ci = rough
    got = []
    bad_range = False
    for i in range(len(vals)):
        x, y = float(pts[i, 0]), float(pts[i, 1])
        b, c = int(si[i]), int(ci[i])
        if not (x == int(x) and y == int(y) and 0 <= x < W and 0 <= y < H and 0 <= b < B and 0 <= c < C):
            res.fail("rough:out-of-range", f"tuple {i}: sample {b} channel {c} x {x} y {y} for shape {arr.shape}")
            bad_range = True
            continue
        got.append((b, c, int(y), int(x)))
        if not (vals[i] == arr[b, c, int(y), int(x)]):
            res.fail(
                "rough:value",
                f"value {float(vals[i])!r} reported for (b={b},c={c},y={int(y)},x={int(x)}) but the map holds {float(arr[b, c, int(y), int(x)])!r}",
            )
    if len(set(got)) != len(got):
        res.fail("rough:duplicate", f"{len(got) - len(set(got))} duplicated tuples")
    got_set = set(got)
    for b, c, y, x in sorted(exp_set - got_set):
        res.fail(
            f"rough:missing-peak:{pm.cell_class(arr[b, c], y, x)}",
            f"strict local maximum {float(arr[b, c, y, x])!r} > thr {thr!r} at (b={b},c={c},y={y},x={x}) not returned; shape {arr.shape}",
        )
    for b, c, y, x in sorted(got_set - exp_set):
        m = arr[b, c].astype(np.float64)
        v = m[y, x]
        nb = pm.neighbour_max(m)[y, x]
        why = "not-above-threshold" if not (v > thr) else ("tie-with-neighbour" if v == nb else "smaller-than-neighbour")
        res.fail(
            f"rough:spurious-peak:{why}",
            f"(b={b},c={c},y={y},x={x}) value {float(v)!r} thr {thr!r} largest neighbour {float(nb)!r} returned but is not a strict local maximum above threshold",
        )

    # ---------------- batch / channel independence of the rough detector
    for b, c, kind in probes:
        blk = _block(kind, b, c)
        bs, cs = list(range(B))[blk[0]], list(range(C))[blk[1]]
        one = runner.guarded(res, "independence", find_local_peaks_rough, cms()[blk], thr)
        if one is runner.FAILED:
            continue
        res.n_evals += len(bs) * len(cs)
        one = _check_struct(res, "independence", one, torch)
        if one is None:
            continue
        opts, ovals, osi, oci = one
        if ((osi < 0) | (osi >= len(bs)) | (oci < 0) | (oci >= len(cs))).any():
            res.fail("independence:rough", f"{kind} probe (b={b},c={c}): sub-batch call returned sample/channel indices outside the sub-batch")
            continue
        for ib, bb in enumerate(bs):
            for ic, cc in enumerate(cs):
                bp, bv = _restrict(rough, bb, cc)
                op, ov = _restrict(one, ib, ic)
                a = sorted((float(p[1]), float(p[0]), float(v)) for p, v in zip(bp, bv))
                o = sorted((float(p[1]), float(p[0]), float(v)) for p, v in zip(op, ov))
                if a != o:
                    res.fail(
                        "independence:rough",
                        f"{kind} probe (b={b},c={c}): peaks of map (b={bb},c={cc}) inside the batch {a[:6]} differ from the same map in the sub-batch {o[:6]}",
                    )

    # ---------------- refinement
    r0 = runner.guarded(res, "refine-none", find_local_peaks, cms(), thr, None, patch)
    if r0 is not runner.FAILED:
        r0 = _check_struct(res, "refine-none", r0, torch)
        if r0 is not None:
            same = all(a.shape == b_.shape and np.array_equal(a, b_) for a, b_ in zip(r0, rough))
            if not same:
                res.fail("refine:none-equals-rough", "find_local_peaks(refinement=None) differs from find_local_peaks_rough")
    r1 = runner.guarded(res, "refine", find_local_peaks, cms(), thr, "integral", patch)
    if r1 is runner.FAILED or bad_range:
        return res
    r1 = _check_struct(res, "refine", r1, torch)
    if r1 is None:
        return res
    rpts, rvals, rsi, rci = r1
    if len(rvals) != len(vals):
        res.fail("refine:count", f"{len(vals)} rough peaks but {len(rvals)} refined peaks")
        return res
    if not (np.array_equal(rsi, si) and np.array_equal(rci, ci)):
        res.fail("refine:indices", f"sample/channel vectors changed by refinement: {si.tolist()[:8]}/{ci.tolist()[:8]} -> {rsi.tolist()[:8]}/{rci.tolist()[:8]}")
    if not np.array_equal(rvals, vals):
        res.fail("refine:values", "peak values changed by refinement")
    half = patch / 2.0
    pclass = []
    for i in range(len(vals)):
        b, c, y, x = int(si[i]), int(ci[i]), int(pts[i, 1]), int(pts[i, 0])
        pc = pm.patch_class(arr[b, c], y, x, patch)
        pclass.append(pc)
        d = rpts[i].astype(np.float64) - pts[i].astype(np.float64)
        res.n_evals += 1
        if pc == "zero-mass":
            res.excluded += 1
            continue
        # patch/2 is the property's bound; for non-negative weights the centre of mass of the
        # sample grid lies within (patch-1)/2, so the extra 0.5 absorbs every rounding effect
        ok = bool(np.isfinite(d).all() and (np.abs(d) <= half).all())
        if not ok:
            key = "refine:half-patch-bound:" + ("nonneg-patch" if pc == "nonneg" else "negative-patch")
            res.fail(
                key,
                f"peak (b={b},c={c},y={y},x={x}) value {float(vals[i])!r} moved by ({float(d[0]):.6g},{float(d[1]):.6g}) with patch {patch} (bound {half}); patch class {pc}",
            )
    for pc in sorted(set(pclass)):
        res.cls(f"refine={pc}-patch")

    # refined result of one map / channel / sample alone vs inside the batch
    for b, c, kind in probes:
        blk = _block(kind, b, c)
        bs, cs = list(range(B))[blk[0]], list(range(C))[blk[1]]
        one = runner.guarded(res, "independence", find_local_peaks, cms()[blk], thr, "integral", patch)
        if one is runner.FAILED:
            continue
        res.n_evals += len(bs) * len(cs)
        one = _check_struct(res, "independence", one, torch)
        if one is None:
            continue
        opts, _, osi, oci = one
        # both calls enumerate the peaks in the same order as their own rough pass; match by rough cell
        # to stay independent of that order
        single_rough = runner.guarded(res, "independence", find_local_peaks_rough, cms()[blk], thr)
        if single_rough is runner.FAILED:
            continue
        single_rough = _check_struct(res, "independence", single_rough, torch)
        if single_rough is None:
            continue
        if len(single_rough[1]) != len(opts):
            res.fail("independence:refined", f"{kind} probe (b={b},c={c}): {len(single_rough[1])} rough but {len(opts)} refined peaks in the sub-batch")
            continue
        key_single = {
            (int(single_rough[2][j]), int(single_rough[3][j]), float(single_rough[0][j, 0]), float(single_rough[0][j, 1])): j for j in range(len(opts))
        }
        for ib, bb in enumerate(bs):
            for ic, cc in enumerate(cs):
                idx = [i for i in range(len(vals)) if int(si[i]) == bb and int(ci[i]) == cc]
                n_one = int(((osi == ib) & (oci == ic)).sum())
                if len(idx) != n_one:
                    res.fail("independence:refined", f"{kind} probe (b={b},c={c}): map (b={bb},c={cc}) has {len(idx)} refined peaks in the batch, {n_one} in the sub-batch")
                    continue
                for i in idx:
                    if pclass[i] != "nonneg":
                        if pclass[i] == "negative":
                            res.excluded += 1
                        continue
                    j = key_single.get((ib, ic, float(pts[i, 0]), float(pts[i, 1])))
                    if j is None:
                        continue  # already reported by independence:rough
                    diff = np.abs(opts[j].astype(np.float64) - rpts[i].astype(np.float64))
                    if not (np.isfinite(diff).all() and (diff <= TOL_INDEP).all()):
                        res.fail(
                            "independence:refined",
                            f"{kind} probe (b={b},c={c}): map (b={bb},c={cc}) cell (x={pts[i, 0]},y={pts[i, 1]}): refined {rpts[i].tolist()} inside the batch, {opts[j].tolist()} in the sub-batch",
                        )

    # ---------------- layout metamorphic: same values, other strides.  The set of peaks is fixed by the
    # statement (so it must equal the one for the contiguous copy); refined coordinates of the same rough
    # cell are compared with TOL_INDEP for non-negative patches, as for the sub-batch re-runs
    if layout["kind"] != "contiguous":
        ref = runner.guarded(res, "layout", find_local_peaks_rough, torch.from_numpy(arr.copy()), thr)
        rref = runner.guarded(res, "layout", find_local_peaks, torch.from_numpy(arr.copy()), thr, "integral", patch)
        ref = None if ref is runner.FAILED else _check_struct(res, "layout", ref, torch)
        rref = None if rref is runner.FAILED else _check_struct(res, "layout", rref, torch)
        if ref is not None:
            res.n_evals += 1
            a = sorted((int(si[i]), int(ci[i]), float(pts[i, 1]), float(pts[i, 0]), float(vals[i])) for i in range(len(vals)))
            o = sorted((int(ref[2][i]), int(ref[3][i]), float(ref[0][i, 1]), float(ref[0][i, 0]), float(ref[1][i])) for i in range(len(ref[1])))
            if a != o:
                res.fail("layout:peaks-differ-from-contiguous", f"{len(a)} peaks for this layout, {len(o)} for the contiguous copy; first difference {sorted(set(a) ^ set(o))[:4]}")
            elif rref is not None and len(rref[1]) == len(ref[1]):
                key_ref = {(int(ref[2][j]), int(ref[3][j]), float(ref[0][j, 0]), float(ref[0][j, 1])): j for j in range(len(ref[1]))}
                for i in range(len(vals)):
                    if pclass[i] != "nonneg":
                        continue
                    j = key_ref[(int(si[i]), int(ci[i]), float(pts[i, 0]), float(pts[i, 1]))]
                    diff = np.abs(rref[0][j].astype(np.float64) - rpts[i].astype(np.float64))
                    res.n_evals += 1
                    if not (np.isfinite(diff).all() and (diff <= TOL_INDEP).all()):
                        res.fail(
                            "layout:refined-differs-from-contiguous",
                            f"peak (b={int(si[i])},c={int(ci[i])},x={pts[i, 0]},y={pts[i, 1]}): refined {rpts[i].tolist()} for this layout, {rref[0][j].tolist()} for the contiguous copy (patch {patch})",
                        )
    return res


def evaluate_dtypes(case):
    """Part dtypes: the maps as float32 / float64 / float16 / bfloat16 tensors.  Same oracles as `evaluate`
    (brute-force strict local maxima above the threshold, single-map re-run, refinement laws), decided on the
    case's exact doubles, i.e. in the map's own arithmetic."""
    import torch

    from sleap_nn.inference.peak_finding import find_local_peaks, find_local_peaks_rough

    res = Result()
    dtype = case["dtype"]
    arr = np.asarray(case["maps"], dtype=np.float64)
    B, C, H, W = arr.shape
    thr = float(case["thr"])
    patch = int(case["patch"])
    sfx = f":dtype={dtype}"
    ok_dt = (torch.float32, getattr(torch, dtype))

    def cms():
        return pm.to_tensor(arr, dtype, torch)

    expected = {}
    sens = False
    for b in range(B):
        for c in range(C):
            m = arr[b, c]
            pk = pm.brute_local_peaks(m, thr)
            if H * W <= 30 and pk != pm.brute_local_peaks_loop(m, thr):
                raise runner.HarnessError("the two brute-force scans disagree")
            expected[(b, c)] = pk
            # cells above the threshold that beat / tie their largest neighbour by a small relative margin
            nb = pm.neighbour_max(m)
            with np.errstate(divide="ignore", invalid="ignore"):
                gap = np.where((m > thr) & (m >= nb) & (m != 0) & np.isfinite(nb), (m - nb) / np.abs(m), np.inf)
            g = float(gap.min()) if gap.size else np.inf
            if g < 1e-2:
                sens = True
                res.cls(f"dtype={dtype}|cell-vs-largest-neighbour:" + ("tie" if g == 0 else ("<1e-12" if g < 1e-12 else ("<2^-23" if g < 2.0**-23 else "<1e-2"))))
            t = pm.thr_gap_class(float(m.max()), thr)
            if t:
                sens = True
                res.cls(f"dtype={dtype}|{t}")
            if 0 < abs(float(m.max())) < 1e-15:
                sens = True
                res.cls(f"dtype={dtype}|magnitude" + ("<1e-44" if abs(float(m.max())) < 1e-44 else "<1e-15"))
    n_exp = sum(len(v) for v in expected.values())
    exp_set = {(b, c, y, x) for (b, c), v in expected.items() for (y, x) in v}
    res.nontrivial = bool(sens)
    res.cls(
        f"dtype={dtype}",
        f"dtype={dtype}|model={case['model']}",
        f"thr={case['thr_kind']}",
        f"patch={patch}",
        "peaks=0" if n_exp == 0 else ("peaks=1" if n_exp == 1 else ("peaks=2-5" if n_exp <= 5 else "peaks=6+")),
    )
    res.n_evals = B * C

    # ---------------- rough detector vs brute force (cells exact; a float64 value may come back as float32)
    out = runner.guarded(res, "rough", find_local_peaks_rough, cms(), thr)
    if out is runner.FAILED:
        return res
    rough = _check_struct(res, "rough", out, torch, ok_dt)
    if rough is None:
        return res
    pts, vals, si, ci = rough
    got = []
    bad_range = False
    for i in range(len(vals)):
        x, y = float(pts[i, 0]), float(pts[i, 1])
        b, c = int(si[i]), int(ci[i])
        if not (x == int(x) and y == int(y) and 0 <= x < W and 0 <= y < H and 0 <= b < B and 0 <= c < C):
            res.fail("rough:out-of-range" + sfx, f"tuple {i}: sample {b} channel {c} x {x} y {y} for shape {arr.shape}")
            bad_range = True
            continue
        got.append((b, c, int(y), int(x)))
        v = float(arr[b, c, int(y), int(x)])
        if not (abs(float(vals[i]) - v) <= pm.value_tol(dtype, v)):
            res.fail("rough:value" + sfx, f"value {float(vals[i])!r} reported for (b={b},c={c},y={int(y)},x={int(x)}) but the map holds {v!r}")
    if len(set(got)) != len(got):
        res.fail("rough:duplicate" + sfx, f"{len(got) - len(set(got))} duplicated tuples")
    got_set = set(got)
    for b, c, y, x in sorted(exp_set - got_set):
        res.fail(
            f"rough:missing-peak:{pm.cell_class(arr[b, c], y, x)}" + sfx,
            f"strict local maximum {float(arr[b, c, y, x])!r} > thr {thr!r} at (b={b},c={c},y={y},x={x}) not returned (largest neighbour "
            f"{float(pm.neighbour_max(arr[b, c])[y, x])!r}); shape {arr.shape}",
        )
    for b, c, y, x in sorted(got_set - exp_set):
        v = arr[b, c, y, x]
        nb = pm.neighbour_max(arr[b, c])[y, x]
        why = "not-above-threshold" if not (v > thr) else ("tie-with-neighbour" if v == nb else "smaller-than-neighbour")
        res.fail(
            f"rough:spurious-peak:{why}" + sfx,
            f"(b={b},c={c},y={y},x={x}) value {float(v)!r} thr {thr!r} largest neighbour {float(nb)!r} returned but is not a strict local maximum above threshold",
        )

    # ---------------- one map alone
    b, c = int(case["probe"][0]), int(case["probe"][1])
    one = runner.guarded(res, "independence", find_local_peaks_rough, cms()[b : b + 1, c : c + 1], thr)
    if one is not runner.FAILED:
        one = _check_struct(res, "independence", one, torch, ok_dt)
        if one is not None:
            res.n_evals += 1
            bp, bv = _restrict(rough, b, c)
            a = sorted((float(p[1]), float(p[0]), float(v)) for p, v in zip(bp, bv))
            o = sorted((float(p[1]), float(p[0]), float(v)) for p, v in zip(one[0], one[1]))
            if a != o or (one[2] != 0).any() or (one[3] != 0).any():
                res.fail("independence:rough" + sfx, f"peaks of map (b={b},c={c}) inside the batch {a[:6]} differ from the map alone {o[:6]}")

    # ---------------- refinement
    r0 = runner.guarded(res, "refine-none", find_local_peaks, cms(), thr, None, patch)
    if r0 is not runner.FAILED:
        r0 = _check_struct(res, "refine-none", r0, torch, ok_dt)
        if r0 is not None and not all(a.shape == b_.shape and np.array_equal(a, b_) for a, b_ in zip(r0, rough)):
            res.fail("refine:none-equals-rough" + sfx, "find_local_peaks(refinement=None) differs from find_local_peaks_rough")
    r1 = runner.guarded(res, "refine", find_local_peaks, cms(), thr, "integral", patch)
    if r1 is runner.FAILED or bad_range:
        return res
    r1 = _check_struct(res, "refine", r1, torch, ok_dt)
    if r1 is None:
        return res
    rpts, rvals, rsi, rci = r1
    if len(rvals) != len(vals):
        res.fail("refine:count" + sfx, f"{len(vals)} rough peaks but {len(rvals)} refined peaks")
        return res
    if not (np.array_equal(rsi, si) and np.array_equal(rci, ci)):
        res.fail("refine:indices" + sfx, f"sample/channel vectors changed by refinement: {si.tolist()[:8]}/{ci.tolist()[:8]} -> {rsi.tolist()[:8]}/{rci.tolist()[:8]}")
    if not np.array_equal(rvals, vals):
        res.fail("refine:values" + sfx, "peak values changed by refinement")
    half = patch / 2.0
    for i in range(len(vals)):
        b, c, y, x = int(si[i]), int(ci[i]), int(pts[i, 1]), int(pts[i, 0])
        pc = pm.patch_class(arr[b, c], y, x, patch)
        d = rpts[i] - pts[i]
        res.n_evals += 1
        if pc == "zero-mass":
            res.excluded += 1
            continue
        # patch/2 is the property's bound (see evaluate)
        if not (np.isfinite(d).all() and (np.abs(d) <= half).all()):
            res.fail(
                "refine:half-patch-bound:" + ("nonneg-patch" if pc == "nonneg" else "negative-patch") + sfx,
                f"peak (b={b},c={c},y={y},x={x}) value {float(vals[i])!r} moved by ({float(d[0]):.6g},{float(d[1]):.6g}) with patch {patch} (bound {half}); patch class {pc}",
            )
    return res


def strategy_dtypes():
    from hypothesis import strategies as st

    @st.composite
    def build(draw):
        # map dtype and value model are ONE choice
        dtype, model = draw(st.sampled_from(pm.DTYPE_MODEL_PAIRS))
        B, C, H, W, arr, thr_kind, thr = pm.draw_dtype_maps(draw, st, dtype, model)
        return {
            "dtype": dtype,
            "model": model,
            "thr_kind": thr_kind,
            "thr": thr,
            "patch": draw(st.sampled_from([3, 5, 5, 7, 4])),
            "probe": [draw(st.integers(0, B - 1)), draw(st.integers(0, C - 1))],
            "maps": arr.tolist(),
        }

    return build()


def strategy():
    from hypothesis import strategies as st

    @st.composite
    def build(draw):
        # value model and memory layout are ONE choice (joint coverage of every pair)
        model, lkind = draw(st.sampled_from(MODEL_LAYOUT_PAIRS))
        shape_cls, B, C, H, W, model, arr = pm.draw_maps(draw, st, [model])
        layout = draw_layout(draw, st, lkind)
        expand_values(arr, layout)
        thr_kind, thr = pm.draw_threshold(draw, st, arr)
        patch = draw(st.sampled_from([3, 3, 5, 5, 5, 7, 4, 4]))
        slots = [(b, c) for b in range(B) for c in range(C)]
        if len(slots) > 3:
            slots = draw(st.lists(st.sampled_from(slots), min_size=3, max_size=3, unique=True))
        # a probe re-runs one map alone, one whole channel (cms[:, c:c+1]: strided whenever B > 1) or one
        # whole sample (cms[b:b+1]); for B*C == 1 all three are the batch itself
        kinds = [draw(st.sampled_from(PROBE_KINDS)) if B * C > 1 else "cell" for _ in slots]
        return {
            "model": model,
            "shape": shape_cls,
            "thr_kind": thr_kind,
            "thr": thr,
            "patch": patch,
            "probes": [[s[0], s[1], k] for s, k in zip(slots, kinds)],
            "layout": layout,
            "maps": pm.to_case_maps(arr),
        }

    return build()


def parts(tier):
    return [
        Part(
            name="maps",
            evaluate=evaluate,
            strategy=strategy,
            budget={"quick": 1500, "thorough": 120000},
            shards={"quick": 1, "thorough": 16},
            min_nontrivial={"quick": 170, "thorough": 4000},
        ),
        Part(
            name="dtypes",
            evaluate=evaluate_dtypes,
            strategy=strategy_dtypes,
            budget={"quick": 380, "thorough": 40000},
            shards={"quick": 1, "thorough": 16},
            min_nontrivial={"quick": 80, "thorough": 1200},
        ),
    ]


if __name__ == "__main__":
    runner.main(__name__)
