"""C06 - multi-peak detection returns exactly the strict local maxima above threshold.

Observed: the return tuples of ``find_local_peaks_rough`` and ``find_local_peaks``
(sleap_nn/inference/peak_finding.py).

Cases: a float32 batch ``(B 1..3, C 1..4, H 1..24, W 1..24)`` whose maps follow one of the
value models of ``vlib.peakmaps`` (iid floats, quantised levels -> plateaus/ties, sums of
Gaussians, constant, single hot pixel, hot pixels on borders/corners, negative-only, tied
maxima, 1xN / Nx1 / 1x1 maps, per-map mixtures), a threshold (-1, 0, 0.2, 0.5, a map
entry, a map maximum) and an integral patch size (3, 5, 7, 4).

Oracles (written from the property statement, no code shared with the implementation):
  rough    the returned (sample, channel, y, x) tuples, as a set, equal the brute-force
           set {v > thr and v > every existing neighbour among the 8}; no duplicates;
           values bit-equal ``cms[b,c,y,x]``; documented shapes / dtypes.
  indep    (metamorphic) the result restricted to one (b,c) equals the result of calling
           the function on ``cms[b:b+1, c:c+1]`` alone - rough and refined.
  refine   ``refinement=None`` returns the rough result; with ``"integral"`` the number,
           order, sample/channel vectors and values are unchanged and every point moves by
           at most patch/2 per axis from its grid cell.  The bound is a theorem only when
           the patch weights are non-negative, therefore peaks whose patch may contain a
           negative entry are judged in their own bucket
           ``refine:half-patch-bound:negative-patch`` (DESIGN.md section 4, D5).
"""

import numpy as np

from vlib import env, peakmaps as pm, runner
from vlib.runner import Part, Result

PROPERTY = "C06"
LEVEL = "exploration"
RULE = (
    "cases = (float32 batch of maps drawn from a labelled value model - iid / quantised plateaus / "
    "Gaussians / constant / hot pixel / border+corner pixels / negative-only / tied maxima / mixed - "
    "with shape class 1x1, 1xN, Nx1, small, medium, large; threshold in {-1,0,0.2,0.5,a map entry,a map "
    "maximum}; patch in {3,5,7,4}); judged against a brute-force 8-neighbour scan, single-map re-runs "
    "and the refinement laws; non-trivial = the batch holds >= 1 true peak AND >= 1 tie/plateau among "
    "the top values (a cell above threshold that is >= all neighbours and == one of them, or a map "
    "maximum attained twice) AND B*C > 1; distinct by hash of the serialised case"
)
ASSUMPTIONS = [
    "maps are finite float32 tensors with |v| <= 2 (kornia's dilation encodes 'excluded' as -1e4, so "
    "|v| must stay far below 1e4; NaN/inf maps are outside the quantifier 'all float maps')",
    "non-zero map values have magnitude >= 1e-30 (the generator flushes smaller ones to 0): float32 "
    "denormals underflow inside the bilinear crop (0.25 * 1.4e-45 -> 0) and a denormal-valued peak would "
    "get an all-zero patch - an arithmetic artefact far outside any confidence-map value range",
    "thresholds are float32-exact numbers: torch compares a float32 map with the Python scalar in "
    "float32, so for a threshold such as the double 0.2 the cell float32(0.2) would be 'above' in real "
    "arithmetic and 'not above' in the implementation - a representation artefact, not a property clause",
    "half-patch bound: asserted strictly only for peaks whose patch footprint (dilated by one cell for "
    "the ~1e-6 px sampling jitter of the perspective crop) holds no negative value; peaks with a "
    "possibly negative patch entry are still run and a bound violation goes to bucket "
    "refine:half-patch-bound:negative-patch (D5); refined single-map independence is likewise compared "
    "only for non-negative patches (with negative weights the normaliser can be ~0 and the result is "
    "ill-conditioned)",
    "zero-mass patch (peak value exactly 0 and nothing else in reach, i.e. a 1x1 map holding 0 with a "
    "negative threshold): the expectation 0/0 is undefined and the implementation returns NaN; counted "
    "as class refine=zero-mass-patch / excluded, not judged (see final report)",
    "order of the rough tuples is not asserted (the statement only fixes the set); order is asserted to "
    "be *unchanged* by refinement",
    "single-map re-runs are done for at most 3 drawn (b,c) slots per case",
]

TOL_INDEP = 1e-4  # refined coordinates of one map, alone vs inside a batch: same arithmetic up to
# the batched 3x3 solve of the perspective transform (observed differences <= 1e-6)


def _as_tuples(pts, vals, si, ci):
    pts = pts.detach().cpu().numpy()
    vals = vals.detach().cpu().numpy()
    si = si.detach().cpu().numpy()
    ci = ci.detach().cpu().numpy()
    return pts, vals, si, ci


def _check_struct(res, where, out, torch):
    """Documented shapes / dtypes of the 4-tuple.  Returns numpy views or None."""
    if not (isinstance(out, tuple) and len(out) == 4):
        res.fail(f"{where}:shape-dtype", f"expected a 4-tuple, got {type(out)}")
        return None
    pts, vals, si, ci = out
    n = pts.shape[0] if pts.dim() >= 1 else -1
    ok = (
        pts.dim() == 2
        and pts.shape[1] == 2
        and pts.dtype == torch.float32
        and tuple(vals.shape) == (n,)
        and vals.dtype == torch.float32
        and tuple(si.shape) == (n,)
        and si.dtype == torch.int32
        and tuple(ci.shape) == (n,)
        and ci.dtype == torch.int32
    )
    if not ok:
        res.fail(
            f"{where}:shape-dtype",
            f"points {tuple(pts.shape)} {pts.dtype}, vals {tuple(vals.shape)} {vals.dtype}, "
            f"sample {tuple(si.shape)} {si.dtype}, channel {tuple(ci.shape)} {ci.dtype}",
        )
        return None
    return _as_tuples(pts, vals, si, ci)


def _restrict(tup, b, c):
    pts, vals, si, ci = tup
    sel = (si == b) & (ci == c)
    return pts[sel], vals[sel]


def evaluate(case):
    import torch

    from sleap_nn.inference.peak_finding import find_local_peaks, find_local_peaks_rough

    res = Result()
    arr = pm.from_case_maps(case["maps"])
    B, C, H, W = arr.shape
    thr = float(case["thr"])
    patch = int(case["patch"])
    probes = [tuple(p) for p in case.get("probes", [])]
    cms = torch.from_numpy(arr.copy())

    # ---------------- oracle sets
    expected = {}
    n_weak = 0
    tied_max = False
    for b in range(B):
        for c in range(C):
            m = arr[b, c]
            pk = pm.brute_local_peaks(m, thr)
            if H * W <= 64 and pk != pm.brute_local_peaks_loop(m, thr):
                raise runner.HarnessError("the two brute-force scans disagree")
            expected[(b, c)] = pk
            n_weak += pm.weak_local_max_ties(m, thr)
            mx = m.max()
            if mx > thr and int((m == mx).sum()) >= 2:
                tied_max = True
    n_exp = sum(len(v) for v in expected.values())
    exp_set = {(b, c, y, x) for (b, c), v in expected.items() for (y, x) in v}
    pos = {pm.cell_class(arr[b, c], y, x) for (b, c, y, x) in exp_set} if H > 1 and W > 1 else set()

    res.nontrivial = bool(n_exp >= 1 and (n_weak > 0 or tied_max) and B * C > 1)
    res.cls(
        f"model={case['model']}",
        f"shape={case['shape']}",
        f"thr={case['thr_kind']}",
        f"patch={patch}",
        "BC=1" if B * C == 1 else ("BC=2-4" if B * C <= 4 else "BC=5+"),
        "peaks=0" if n_exp == 0 else ("peaks=1" if n_exp == 1 else ("peaks=2-5" if n_exp <= 5 else "peaks=6+")),
    )
    if n_weak:
        res.cls("has-plateau-or-adjacent-tie")
    if tied_max:
        res.cls("has-tied-map-maximum")
    if (arr < 0).any():
        res.cls("has-negative-values")
    for p in sorted(pos):
        res.cls(f"true-peak-on-{p}")
    res.n_evals = B * C

    # ---------------- rough detector vs brute force
    out = runner.guarded(res, "rough", find_local_peaks_rough, cms, thr)
    if out is runner.FAILED:
        return res
    rough = _check_struct(res, "rough", out, torch)
    if rough is None:
        return res
    pts, vals, si, ci = rough
    got = []
    bad_range = False
    for i in range(len(vals)):
        x, y = float(pts[i, 0]), float(pts[i, 1])
        b, c = int(si[i]), int(ci[i])
        if not (x == int(x) and y == int(y) and 0 <= x < W and 0 <= y < H and 0 <= b < B and 0 <= c < C):
            res.fail("rough:out-of-range", f"tuple {i}: sample {b} channel {c} x {x} y {y} for shape {arr.shape}")
            bad_range = True
            continue
        got.append((b, c, int(y), int(x)))
        if not (vals[i] == arr[b, c, int(y), int(x)]):
            res.fail(
                "rough:value",
                f"value {float(vals[i])!r} reported for (b={b},c={c},y={int(y)},x={int(x)}) but the map holds {float(arr[b, c, int(y), int(x)])!r}",
            )
    if len(set(got)) != len(got):
        res.fail("rough:duplicate", f"{len(got) - len(set(got))} duplicated tuples")
    got_set = set(got)
    for b, c, y, x in sorted(exp_set - got_set):
        res.fail(
            f"rough:missing-peak:{pm.cell_class(arr[b, c], y, x)}",
            f"strict local maximum {float(arr[b, c, y, x])!r} > thr {thr!r} at (b={b},c={c},y={y},x={x}) not returned; shape {arr.shape}",
        )
    for b, c, y, x in sorted(got_set - exp_set):
        m = arr[b, c].astype(np.float64)
        v = m[y, x]
        nb = pm.neighbour_max(m)[y, x]
        why = "not-above-threshold" if not (v > thr) else ("tie-with-neighbour" if v == nb else "smaller-than-neighbour")
        res.fail(
            f"rough:spurious-peak:{why}",
            f"(b={b},c={c},y={y},x={x}) value {float(v)!r} thr {thr!r} largest neighbour {float(nb)!r} returned but is not a strict local maximum above threshold",
        )

    # ---------------- batch / channel independence of the rough detector
    for b, c in probes:
        one = runner.guarded(res, "independence", find_local_peaks_rough, cms[b : b + 1, c : c + 1], thr)
        if one is runner.FAILED:
            continue
        res.n_evals += 1
        one = _check_struct(res, "independence", one, torch)
        if one is None:
            continue
        opts, ovals, osi, oci = one
        if (osi != 0).any() or (oci != 0).any():
            res.fail("independence:rough", "single-map call returned non-zero sample/channel indices")
        bp, bv = _restrict(rough, b, c)
        a = sorted((float(p[1]), float(p[0]), float(v)) for p, v in zip(bp, bv))
        o = sorted((float(p[1]), float(p[0]), float(v)) for p, v in zip(opts, ovals))
        if a != o:
            res.fail(
                "independence:rough",
                f"peaks of map (b={b},c={c}) inside the batch {a[:6]} differ from the same map alone {o[:6]}",
            )

    # ---------------- refinement
    r0 = runner.guarded(res, "refine-none", find_local_peaks, cms, thr, None, patch)
    if r0 is not runner.FAILED:
        r0 = _check_struct(res, "refine-none", r0, torch)
        if r0 is not None:
            same = all(a.shape == b_.shape and np.array_equal(a, b_) for a, b_ in zip(r0, rough))
            if not same:
                res.fail("refine:none-equals-rough", "find_local_peaks(refinement=None) differs from find_local_peaks_rough")
    r1 = runner.guarded(res, "refine", find_local_peaks, cms, thr, "integral", patch)
    if r1 is runner.FAILED or bad_range:
        return res
    r1 = _check_struct(res, "refine", r1, torch)
    if r1 is None:
        return res
    rpts, rvals, rsi, rci = r1
    if len(rvals) != len(vals):
        res.fail("refine:count", f"{len(vals)} rough peaks but {len(rvals)} refined peaks")
        return res
    if not (np.array_equal(rsi, si) and np.array_equal(rci, ci)):
        res.fail("refine:indices", f"sample/channel vectors changed by refinement: {si.tolist()[:8]}/{ci.tolist()[:8]} -> {rsi.tolist()[:8]}/{rci.tolist()[:8]}")
    if not np.array_equal(rvals, vals):
        res.fail("refine:values", "peak values changed by refinement")
    half = patch / 2.0
    pclass = []
    for i in range(len(vals)):
        b, c, y, x = int(si[i]), int(ci[i]), int(pts[i, 1]), int(pts[i, 0])
        pc = pm.patch_class(arr[b, c], y, x, patch)
        pclass.append(pc)
        d = rpts[i].astype(np.float64) - pts[i].astype(np.float64)
        res.n_evals += 1
        if pc == "zero-mass":
            res.excluded += 1
            continue
        # patch/2 is the property's bound; for non-negative weights the centre of mass of the
        # sample grid lies within (patch-1)/2, so the extra 0.5 absorbs every rounding effect
        ok = bool(np.isfinite(d).all() and (np.abs(d) <= half).all())
        if not ok:
            key = "refine:half-patch-bound:" + ("nonneg-patch" if pc == "nonneg" else "negative-patch")
            res.fail(
                key,
                f"peak (b={b},c={c},y={y},x={x}) value {float(vals[i])!r} moved by ({float(d[0]):.6g},{float(d[1]):.6g}) with patch {patch} (bound {half}); patch class {pc}",
            )
    for pc in sorted(set(pclass)):
        res.cls(f"refine={pc}-patch")

    # refined result of one map alone vs inside the batch
    for b, c in probes:
        one = runner.guarded(res, "independence", find_local_peaks, cms[b : b + 1, c : c + 1], thr, "integral", patch)
        if one is runner.FAILED:
            continue
        res.n_evals += 1
        one = _check_struct(res, "independence", one, torch)
        if one is None:
            continue
        opts = one[0]
        idx = [i for i in range(len(vals)) if int(si[i]) == b and int(ci[i]) == c]
        if len(idx) != len(opts):
            res.fail("independence:refined", f"map (b={b},c={c}): {len(idx)} refined peaks in the batch, {len(opts)} alone")
            continue
        # both calls enumerate one map's peaks in the same (row-major) order as their own rough pass;
        # match by rough cell to stay independent of that
        single_rough = runner.guarded(res, "independence", find_local_peaks_rough, cms[b : b + 1, c : c + 1], thr)
        if single_rough is runner.FAILED:
            continue
        key_single = {(float(p[0]), float(p[1])): j for j, p in enumerate(single_rough[0].numpy())}
        for i in idx:
            if pclass[i] != "nonneg":
                if pclass[i] == "negative":
                    res.excluded += 1
                continue
            j = key_single.get((float(pts[i, 0]), float(pts[i, 1])))
            if j is None:
                continue  # already reported by independence:rough
            diff = np.abs(opts[j].astype(np.float64) - rpts[i].astype(np.float64))
            if not (np.isfinite(diff).all() and (diff <= TOL_INDEP).all()):
                res.fail(
                    "independence:refined",
                    f"map (b={b},c={c}) cell (x={pts[i, 0]},y={pts[i, 1]}): refined {rpts[i].tolist()} inside the batch, {opts[j].tolist()} alone",
                )
    return res


def strategy():
    from hypothesis import strategies as st

    @st.composite
    def build(draw):
        shape_cls, B, C, H, W, model, arr = pm.draw_maps(draw, st, pm.LOCAL_MODELS)
        thr_kind, thr = pm.draw_threshold(draw, st, arr)
        patch = draw(st.sampled_from([3, 3, 5, 5, 5, 7, 4, 4]))
        slots = [(b, c) for b in range(B) for c in range(C)]
        if len(slots) > 3:
            slots = draw(st.lists(st.sampled_from(slots), min_size=3, max_size=3, unique=True))
        return {
            "model": model,
            "shape": shape_cls,
            "thr_kind": thr_kind,
            "thr": thr,
            "patch": patch,
            "probes": [list(s) for s in slots],
            "maps": pm.to_case_maps(arr),
        }

    return build()


def parts(tier):
    return [
        Part(
            name="maps",
            evaluate=evaluate,
            strategy=strategy,
            budget={"quick": 1500, "thorough": 120000},
            shards={"quick": 1, "thorough": 16},
            min_nontrivial={"quick": 170, "thorough": 4000},
        )
    ]


if __name__ == "__main__":
    runner.main(__name__)
