"""C19 - training runs complete, leave the documented artifacts, never persist the API key.

Fault model: *every file-write boundary* of trainer construction + a 1-step training run.

A case is one training configuration (model type x data framework/chunk options x
experiment tracking on/off x checkpointing on/off x structured/plain config object, all
drawn jointly) plus an experiment-tracking key (40 hex characters drawn by Hypothesis) and
a list of kill points.  Every configuration is executed against the real ``ModelTrainer``
in a fresh scratch directory:

* run A ("snapshot" run, always): one process-wide ``sys.addaudithook`` observes, on the
  main thread, every ``open`` with a writing mode, ``os.rename/replace``, ``os.remove``,
  ``shutil.rmtree/copyfile/move``, ``os.symlink/link/truncate`` below the case's output
  directories; ``OmegaConf.save`` and ``torch.save`` are additionally wrapped (boundary
  after the call returns) and entering ``lightning.Trainer.fit`` is a boundary too (so every
  configuration has a crash point inside the try-block of ``ModelTrainer.train``).  At each such boundary the *crash snapshot* is taken: every
  file currently below the output / chunk / wandb directories is searched for the key
  (raw bytes in utf-8/16/32, every member of zip archives - Lightning checkpoints and
  ``.npz`` chunks are zip files).  A process dying at that boundary leaves exactly that
  directory, so one run evaluates all its crash points.  After the run the directory is
  scanned once more, checkpoints are additionally un-pickled and walked recursively.
* runs B (one per kill point k): the same configuration, but the hook raises
  ``SimulatedKill(BaseException)`` or ``KeyboardInterrupt`` at boundary ``k mod n``; all
  boundaries reached while the stack unwinds (Lightning's teardown, the ``finally:`` block of
  ``ModelTrainer.train``) and the directory left behind are scanned as well.

Oracle clauses (each its own bucket): (1) no snapshot contains the key; (2) construction
and training finish without an exception; (3) ``initial_config.yaml`` equals the supplied
configuration and the final ``training_config.yaml`` equals ``trainer.config`` (both with
the key blanked), the final file carries skeletons / total_params / max_height,max_width /
crop_hw (centered-instance) / wandb run_id (tracking on); ``best.ckpt`` (and ``last.ckpt``,
``save_last=True``) exist iff ``save_ckpt``; ``train_chunks``/``val_chunks`` are gone iff
deletion was requested; the configuration embedded in every checkpoint has a blank key.

Checkpoint options (joint axis of every part): ``trainer_config.model_ckpt.(save_top_k, save_last)`` is drawn with the
other configuration axes from {(1, True) builder default, (0, True) "keep only the latest model", (-1, True) keep all,
(1, None) best only, (2, False)}.  Clause (3) for a checkpointing-on run is the statement's: at least one ``*.ckpt``
written by the run below its folder (every checkpoint found must load and embed a config with a blank key); in addition
``best.ckpt`` iff documented (``save_top_k != 0``) and ``last.ckpt`` where ``save_last=True`` and a best model is saved.
With ``save_top_k=0`` only "a checkpoint" is asserted.  (0, None/False) promises no checkpoint and is not drawn.  Which
files a run wrote is recorded as class ``ckpt-opts=top_k=*,last=*|wrote=*``.  Run 2 of a resume history draws from the
pairs with ``save_last=True`` only.  All crash-snapshot key scans apply to these runs as to any other.

Key form (joint axis of every part): "literal" = the key is a string in the configuration; "env" = the
configuration holds the reference ``${oc.env:C19_TRACKING_KEY}`` (plain: in the YAML; structured: set with
``OmegaConf.update``) and the real key lives in that environment variable only while the trainer runs.  The
scans always look for the REAL key; the saved configs must hold a blank key for both forms.

Parts `chunk-reuse` / `chunk-reuse-sampled` - histories of 2-3 runs over ONE directory tree: run 1 trains with
``torch_dataset_np_chunks`` and keeps its chunks (``delete_chunks_after_training=False``, ``np_chunks_path``
None or a separate directory); run 2 trains with ``use_existing_chunks=True`` on those chunks with deletion
requested or not (its own key, possibly different from run 1's: neither key may appear anywhere); an optional
run 3 re-uses chunks that survived run 2 and requests their deletion.  Every write boundary of every run is a
crash snapshot over all shared directories.  Judged per run: completes; chunk files gone iff that run asked
for deletion (and unchanged - same size/mtime/inode, never opened for writing - while re-used); the key
clause; initial/final config and checkpoints-iff-save_ckpt of the run (only checkpoints written by the run
itself count in a shared directory).  History class "explicit" spells out crop_hw / part_names / edges in the
configuration (as the repo's own reuse test does), class "defaults" leaves them to the trainer.

Parts `resume` / `resume-sampled` - RESUME histories of two runs: run 1 trains one epoch with checkpointing on; run 2
is a new ``ModelTrainer`` whose configuration sets ``trainer_config.resume_ckpt_path`` to run 1's ``last.ckpt`` or
``best.ckpt`` and asks for one more epoch (``max_epochs`` 1 -> 2, optionally another learning rate), writing into run
1's folder ("same", what the repository's own resume test does) or into a fresh one.  Tracking on/off in either run
(with run 1's run id handed on as ``prv_runid`` or not), checkpointing on/off in run 2, structured/plain config, the
three key forms, same/different keys.  Every write boundary of both runs is a crash snapshot over both folders (both
keys searched).  Judged for run 2 exactly as for any run: completes; ``initial_config.yaml`` (when the constructor
returns and at the end) equals the configuration supplied to THIS run; ``training_config.yaml`` equals the trainer's
final config; checkpointing on => the folder holds a checkpoint and run 2 wrote one; embedded configs carry a blank
key.  Whether run 2 really resumed (its checkpoint opened for reading, ``Trainer.ckpt_path`` set to it, global step
2) decides non-triviality and is recorded as class ``resume|really-resumed=*``.
"""

import hashlib
import itertools
import os
import shutil
import signal
import stat
import sys
import tempfile
import threading
import time
import traceback
import zipfile

from vlib import env, runner
from vlib.runner import Part, Result

PROPERTY = "C19"
LEVEL = "fault_enumeration"
RULE = (
    "case = one training configuration drawn jointly from model type {single_instance, centroid, "
    "centered_instance, bottomup} x (data_pipeline_fw, delete_chunks_after_training, np_chunks_path) "
    "{6 variants} x use_wandb x save_ckpt x checkpoint options (save_top_k, save_last) in {(1,True), (0,True), (-1,True), "
    "(1,None), (2,False)} (checkpointing on; two inert pairs when off) x config object {structured (builders + "
    "TrainingJobConfig.to_sleap_nn_cfg), plain (YAML round trip)} x key form {literal, ${oc.env:...} reference with "
    "the real key in the environment during the run} + a 40-hex-char API key + kill points; "
    "each case runs the real ModelTrainer once with a crash snapshot (key search over all files below the "
    "output directories) at EVERY file-write boundary, then once per kill point with an exception injected "
    "at that boundary; thorough tier enumerates all 192 configurations x all boundaries x 2 kill flavours; "
    "non-trivial = key non-empty and at least one of {structured config, tracking on, np_chunks}; "
    "one oracle evaluation = one snapshot (or final) scan / one artifact clause group; "
    "chunk-reuse parts: case = history (run 1 creates+keeps np chunks; run 2 use_existing_chunks=True with delete in "
    "{T,F}; optional run 3 re-uses again and deletes) x model type x np_chunks_path {None, separate} x form x "
    "use_wandb x save_ckpt x {explicit, defaults} drawn jointly, two keys (same or different); thorough enumerates all "
    "model x npp x delete x form x class histories with a kill at every boundary inside run 2's Trainer.fit; "
    "resume parts: case = history (run 1: one epoch, checkpointing on; run 2: a new ModelTrainer with resume_ckpt_path = "
    "run 1's {last, best}.ckpt, max_epochs 2, {same lr, other lr}) x model type x {in-memory, np_chunks} x run 2's folder "
    "{same as run 1, fresh} x form x tracking (run 1, run 2) x prv_runid handed on or not x run 2 checkpointing x key form, "
    "two keys (same or different), 0-1 kill points inside run 2; non-trivial = both keys non-empty and run 2 verifiably "
    "resumed (checkpoint opened for reading, Trainer.ckpt_path set to it, global step 2 after run 2); thorough "
    "enumerates model x fw x folder x form x run-2 checkpointing (64 histories, other axes cycled) with two kills each"
)
ASSUMPTIONS = [
    "wandb runs in offline mode only (no network in the sandbox): wandb_mode='offline', so wandb.login(key) "
    "(which would write ~/.netrc, outside the output directories) is never reached",
    "crash points = Python-level write events on the main thread + torch.save/OmegaConf.save returns + entry of "
    "Trainer.fit (all patched in the harness for the duration of a case only); writes "
    "done by other threads/processes (wandb-core service) raise no boundary of their own but their files are "
    "part of every later snapshot and of the final scan",
    "a crash *inside* one write leaves a prefix of what the next snapshot sees, so scanning at the next "
    "boundary covers it (the audit event of an overwriting open fires before the file is truncated)",
    "key search = full key in utf-8 / utf-16-le / utf-32-le in raw bytes and in every zip member; other "
    "encodings (base64, compression other than zip/deflate) are not searched",
    "single_instance models are trained on a one-instance copy of the asset labels (the asset has two "
    "instances per frame, outside that model type's input domain)",
    "UNet with convs_per_block=2 (convs_per_block=1 is a C14 triage class, not a C19 concern); "
    "trainer_accelerator='cpu', num_workers=0, batch_size=1, max_epochs=1, steps_per_epoch=1",
    "the file may contain extra keys with value None that the supplied plain config lacks (schema defaults "
    "merged in by verify_training_cfg); all supplied keys must be present with equal values",
    "key_form=env: the environment variable is set immediately before ModelTrainer(cfg) and restored when train() "
    "returns or raises; configurations are compared unresolved, the expected saved api_key is blank for both key "
    "forms (a kept reference is reported in its own bucket api_key-not-blank:reference-kept, apart from the "
    "no-real-key clause)",
    "kill runs judge only the key clause (a dying process has no artifact contract)",
    "checkpoint options: (save_top_k=0, save_last falsy) is not drawn - ModelCkptConfig documents 'If save_top_k == 0, no "
    "models are saved' and nothing requests a last.ckpt, so no checkpoint is promised; for (0, True) only the statement's "
    "'a checkpoint when checkpointing is on' is asserted (any *.ckpt written by the run), not its name; with save_last "
    "falsy a last.ckpt is neither expected nor forbidden; versioned names (best-v1.ckpt, save_top_k=-1/2) are not judged; "
    "run 1 of a resume history keeps the default options (its {last,best}.ckpt is what run 2 resumes from) and run 2 draws "
    "only pairs with save_last=True (with run 1's best score restored a resumed run may rewrite no best.ckpt)",
    "chunk-reuse histories: a re-using run never opens the labels file, so skeletons / max_height,max_width / "
    "crop_hw of its final config are recorded as class labels (reuse:final-config-without-*) and not judged; in a "
    "directory shared by several runs (np_chunks_path=None) run 1 writes no checkpoint and only checkpoints written "
    "by the judged run itself count for the checkpoint clause",
    "resume histories: torch in this image defaults torch.load(weights_only=True), which cannot un-pickle the DictConfig "
    "stored in sleap-nn checkpoints, so Trainer.fit(ckpt_path=...) cannot resume at all here; the check sets "
    "TORCH_FORCE_NO_WEIGHTS_ONLY_LOAD=1 (image shim, like the kornia one) for the duration of a resumed run only; with it "
    "run 2 loads the checkpoint and trains its extra epoch on the unchanged tree (class resume|really-resumed=1)",
    "resume histories: run 2 always asks for one more epoch than run 1 trained (max_epochs 1 -> 2), so that resuming "
    "has work to do; checkpoint clause of a resumed run = 'checkpointing on => the folder holds a checkpoint and the run "
    "wrote at least one' (in run 1's folder Lightning restores the best score, so whether best.ckpt is rewritten depends "
    "on the losses: recorded as class resume|run2-wrote=*, not judged); np_chunks resume histories delete their chunks "
    "in both runs (np_chunks_path=None)",
    "ModelTrainer is driven directly (as sleap_nn.train.run_training does in its first two lines); the "
    "post-training predict/evaluate part of run_training depends on the sleap-io version shim and belongs to C02",
]

ASSET = os.path.join(env.REPO, "tests", "assets", "minimal_instance.pkg.slp")
if not os.path.exists(ASSET):
    ASSET = "/repo/tests/assets/minimal_instance.pkg.slp"

MODELS = ["single_instance", "centroid", "centered_instance", "bottomup"]
# (data_pipeline_fw, delete_chunks_after_training, np_chunks_path variant)
FW_VARIANTS = [
    ("torch_dataset", True, None),
    ("torch_dataset", False, "sep"),
    ("torch_dataset_np_chunks", True, None),
    ("torch_dataset_np_chunks", True, "sep"),
    ("torch_dataset_np_chunks", False, None),
    ("torch_dataset_np_chunks", False, "sep"),
]
GRID = [
    (m, fw, uw, ck, form)
    for m in MODELS
    for fw in FW_VARIANTS
    for uw in (False, True)
    for ck in (False, True)
    for form in ("structured", "plain")
]
# checkpoint options (trainer_config.model_ckpt.save_top_k, .save_last): the builder's default first, then "keep only
# the latest model" (no best checkpoint, last.ckpt only), "keep all models", "best only" (ModelCkptConfig's own
# default save_last=None), "best two, no last".  (0, None/False) is left out: ModelCkptConfig's docstring says "If
# save_top_k == 0, no models are saved" and nothing asks for a last.ckpt, so no checkpoint is promised there.
CKPT_DEFAULT = (1, True)
CKPT_OPTS = [CKPT_DEFAULT, (0, True), (-1, True), (1, None), (2, False)]
# with save_ckpt=False the options are inert (no callback is built): two values only, so that the joint draw does not
# starve the checkpointing-off half of the grid
CKPT_OPTS_OFF = [CKPT_DEFAULT, (0, True)]
# a resumed run (run 2 of a resume history) may find run 1's best score restored and then rewrites no best.ckpt: only
# options with save_last=True promise that the resumed run itself writes a checkpoint
CKPT_OPTS_RESUMED = [CKPT_DEFAULT, (0, True), (-1, True)]


def _ckpt_opts(case):
    """(save_top_k, save_last) of a run case; cases written before the axis existed carry the builder's default."""
    o = case.get("ckpt_opts")
    return (int(o[0]), o[1]) if o else CKPT_DEFAULT


def _opts_label(opts):
    return f"ckpt-opts=top_k={opts[0]},last={opts[1]}"


class SimulatedKill(BaseException):
    """The process 'dies' at a write boundary (not an Exception: nothing should swallow it)."""


# ----------------------------------------------------------------------------------
# write-boundary monitor (one audit hook per process; hooks cannot be removed)


_EVENT_PATHS = {
    "open": (0,),
    "os.rename": (0, 1),
    "os.remove": (0,),
    "shutil.rmtree": (0,),
    "shutil.copyfile": (1,),
    "shutil.move": (0, 1),
    "os.symlink": (1,),
    "os.link": (1,),
    "os.truncate": (0,),
}
_WFLAGS = os.O_WRONLY | os.O_RDWR | os.O_APPEND | os.O_CREAT | os.O_TRUNC
_SMALL = 1 << 16  # files up to this size are always re-read (coarse mtime granularity)


class _Monitor:
    def __init__(self):
        self.active = False
        self.busy = False
        self.main_ident = None
        self.hook_error = None
        self.reset([], "", None, "")

    def reset(self, roots, key, kill, base):
        self.roots = [os.path.abspath(r) for r in roots]
        self.prefixes = tuple(r + os.sep for r in self.roots)
        self.base = base
        keys = [key] if isinstance(key, str) else list(key)
        self.key = keys[0] if keys else ""
        self.needles = [k.encode(enc) for k in keys if k for enc in ("utf-8", "utf-16-le", "utf-32-le")]
        self.kill = kill  # None | (k, "base"|"kbd")
        self.killed_at = None
        self.n = 0
        self.labels = []
        self.cache = {}
        self.fit_span = None  # [first boundary index inside Trainer.fit, first index after it]
        self.watch_read = None  # absolute path whose opens-for-reading are counted (the checkpoint a run resumes from)
        self.read_opens = 0
        self.hits = {}  # rel path -> {"first": idx, "last": idx, "how": str, "n": count}
        self.scans = 0

    # -- event side
    def on_event(self, event, args):
        idxs = _EVENT_PATHS.get(event)
        if idxs is None or not self.active or self.busy:
            return
        if threading.get_ident() != self.main_ident:
            return
        kill_exc = None
        try:
            if event == "open":
                mode, flags = args[1], args[2]
                if isinstance(mode, str):
                    writing = any(c in mode for c in "wax+")
                else:
                    writing = bool(isinstance(flags, int) and flags & _WFLAGS)
                if not writing:
                    if self.watch_read is not None and isinstance(args[0], (str, bytes, os.PathLike)):
                        p0 = os.fspath(args[0])
                        if isinstance(p0, bytes):
                            p0 = p0.decode("utf-8", "replace")
                        if os.path.abspath(p0) == self.watch_read:
                            self.read_opens += 1  # evidence that a resumed run really opened its checkpoint
                    return
            hit = None
            for i in idxs:
                p = args[i] if i < len(args) else None
                if isinstance(p, int) or p is None:
                    continue
                try:
                    p = os.fspath(p)
                except TypeError:
                    continue
                if isinstance(p, bytes):
                    p = p.decode("utf-8", "replace")
                p = os.path.abspath(p)
                if p.startswith(self.prefixes) or p in self.roots:
                    hit = p
                    break
            if hit is None:
                return
            kill_exc = self.boundary(f"{event}:{os.path.relpath(hit, self.base)}", _raise=False)
        except Exception:  # a bug of the monitor must never look like a failure of the code under test
            self.hook_error = traceback.format_exc()
            return
        if kill_exc is not None:
            raise kill_exc

    def boundary(self, label, _raise=True):
        """Crash snapshot at a write boundary; returns/raises the kill exception if due."""
        if not self.active or self.busy:
            return None
        self.busy = True
        try:
            idx = self.n
            self.n += 1
            self.labels.append(_stable_label(label))
            self.scan(idx)
        finally:
            self.busy = False
        exc = None
        if self.kill is not None and self.killed_at is None and idx == self.kill[0]:
            self.killed_at = idx
            exc = KeyboardInterrupt("C19 simulated Ctrl-C") if self.kill[1] == "kbd" else SimulatedKill(f"boundary {idx}")
        if exc is not None and _raise:
            raise exc
        return exc

    # -- scanning side
    def scan(self, idx):
        self.scans += 1
        for root in self.roots:
            for dirpath, dirnames, filenames in os.walk(root):
                dirnames.sort()
                for fn in sorted(filenames):
                    p = os.path.join(dirpath, fn)
                    try:
                        st = os.stat(p)
                    except OSError:
                        continue
                    if not stat.S_ISREG(st.st_mode):
                        continue
                    sig = (st.st_size, st.st_mtime_ns, st.st_ino)
                    ent = self.cache.get(p)
                    if ent is not None and ent[0] == sig and st.st_size > _SMALL:
                        how = ent[1]
                    else:
                        how = self.scan_file(p)
                        self.cache[p] = (sig, how)
                    if how:
                        self.record(p, idx, how)

    def scan_file(self, p):
        try:
            with open(p, "rb") as f:
                data = f.read()
        except OSError:
            return None
        for nd in self.needles:
            if nd in data:
                return "raw bytes"
        if data[:2] == b"PK":
            try:
                with zipfile.ZipFile(p) as z:
                    for name in z.namelist():
                        try:
                            member = z.read(name)
                        except Exception:
                            continue
                        for nd in self.needles:
                            if nd in member:
                                return f"zip member {name.split('/')[-1]}"
            except Exception:
                return None
        return None

    def record(self, p, idx, how):
        rel = os.path.relpath(p, self.base)
        h = self.hits.get(rel)
        if h is None:
            self.hits[rel] = {"first": idx, "last": idx, "how": how, "n": 1}
        else:
            h["last"] = idx
            h["n"] += 1


def _stable_label(label):
    # strip random directory names (wandb run ids, timestamps) from a boundary label
    parts = label.split("/")
    return "/".join(p if not (p.startswith("offline-run-") or p.startswith("run-")) else "<run>" for p in parts)


_MON = _Monitor()
_HOOKED = False


def _install_hook():
    global _HOOKED
    if _HOOKED:
        return
    mon = _MON

    def _audit(event, args):
        if mon.active:
            mon.on_event(event, args)

    sys.addaudithook(_audit)
    _HOOKED = True


# ----------------------------------------------------------------------------------
# configuration building


_ASSETS = {}
TIMING = []  # (config label, seconds of run A, boundaries) - evidence only, never used by the oracle


def _labels_path(kind):
    """'asset' = the repo asset (2 instances); 'one' = one-instance copy (made once per process)."""
    if kind == "asset":
        return ASSET
    if "one" not in _ASSETS:
        import sleap_io as sio

        d = env.scratch_dir("c19-assets")
        lb = sio.load_slp(ASSET)
        for lf in lb:
            lf.instances = lf.instances[:1]
        p = os.path.join(d, "one_instance.pkg.slp")
        with _Quiet():  # sleap-io prints progress bars
            lb.save(p, embed="all")
        _ASSETS["one"] = p
    return _ASSETS["one"]


def _labels_facts(path):
    import numpy as np
    import sleap_io as sio

    if path in _ASSETS.get("facts", {}):
        return _ASSETS["facts"][path]
    lb = sio.load_slp(path)
    ext = 0.0
    for lf in lb:
        for inst in lf.instances:
            pts = inst.numpy()
            ext = max(ext, float(np.nanmax(pts[:, 0]) - np.nanmin(pts[:, 0])), float(np.nanmax(pts[:, 1]) - np.nanmin(pts[:, 1])))
    facts = {
        "nodes": [n.name for n in lb.skeletons[0].nodes],
        "hw": (int(lb.video.shape[1]), int(lb.video.shape[2])),
        "edges": [(e.source.name, e.destination.name) for e in lb.skeletons[0].edges],
        "max_extent": ext,
    }
    _ASSETS.setdefault("facts", {})[path] = facts
    return facts


HEADS = {
    "single_instance": {"single_instance": {"confmaps": {"part_names": None, "sigma": 1.5, "output_stride": 2}}},
    "centroid": {"centroid": {"confmaps": {"anchor_part": None, "sigma": 1.5, "output_stride": 2}}},
    "centered_instance": {
        "centered_instance": {"confmaps": {"part_names": None, "anchor_part": None, "sigma": 1.5, "output_stride": 2}}
    },
    "bottomup": {
        "bottomup": {
            "confmaps": {"part_names": None, "sigma": 1.5, "output_stride": 2, "loss_weight": 1.0},
            "pafs": {"edges": None, "sigma": 4, "output_stride": 4, "loss_weight": 1.0},
        }
    },
}
MIN_CROP = 30  # not a multiple of max_stride=8 -> crop size really is computed from the instances
MAX_STRIDE = 8
KEY_ENV = "C19_TRACKING_KEY"  # environment variable holding the real key for key_form="env" (set only inside a run)
KEY_REF = "${oc.env:" + KEY_ENV + "}"
EXPLICIT_CROP = 96  # chunk-reuse histories of class "explicit": user-given crop_hw / part_names / edges


def _heads(model, facts=None):
    """Head config of the model type; with `facts` the part names / edges are spelled out by the user."""
    import copy

    h = copy.deepcopy(HEADS[model])
    if facts is not None:
        for head in h[model].values():
            if "part_names" in head:
                head["part_names"] = list(facts["nodes"])
            if "edges" in head:
                head["edges"] = [list(e) for e in facts["edges"]]
    return h


def build_config(case, out, chunks, indir):
    """Structured config from the public builders; plain = YAML round trip of it."""
    from omegaconf import OmegaConf
    from sleap_nn.config.training_job_config import TrainingJobConfig
    from sleap_nn.train import get_data_config, get_model_config, get_trainer_config

    labels = _labels_path(case["labels"])
    explicit = bool(case.get("explicit", False))
    dc = get_data_config(
        train_labels_path=labels,
        val_labels_path=labels,
        data_pipeline_fw=case["fw"],
        np_chunks_path=chunks,
        use_existing_chunks=bool(case.get("use_existing", False)),
        delete_chunks_after_training=case["delete"],
        crop_hw=(EXPLICIT_CROP, EXPLICIT_CROP) if explicit else None,
        min_crop_size=MIN_CROP,
    )
    mc = get_model_config(
        backbone_config={
            "unet": {
                "in_channels": 1,
                "kernel_size": 3,
                "filters": 8,
                "filters_rate": 1.5,
                "max_stride": MAX_STRIDE,
                "convs_per_block": 2,
                "stacks": 1,
                "stem_stride": None,
                "middle_block": True,
                "up_interpolate": True,
                "output_stride": 2,
            }
        },
        head_configs=_heads(case["model"], _labels_facts(labels) if explicit else None),
    )
    extra = {}
    if case.get("lr") is not None:
        extra["learning_rate"] = float(case["lr"])
    if case.get("resume_ckpt") is not None:  # resume histories: run 2 continues from a checkpoint of run 1
        extra["resume_ckpt_path"] = case["resume_ckpt"]
    if case.get("prv_runid") is not None:
        extra["wandb_resume_prv_runid"] = case["prv_runid"]
    tc = get_trainer_config(
        **extra,
        batch_size=1,
        shuffle_train=False,
        num_workers=0,
        ckpt_save_top_k=_ckpt_opts(case)[0],
        ckpt_save_last=_ckpt_opts(case)[1],
        trainer_num_devices=1,
        trainer_accelerator="cpu",
        enable_progress_bar=False,
        steps_per_epoch=1,
        max_epochs=int(case.get("max_epochs", 1)),
        seed=int(case["seed"]),
        use_wandb=case["use_wandb"],
        save_ckpt=case["save_ckpt"],
        save_ckpt_path=out,
        wandb_project="c19",
        wandb_name="c19_run",
        wandb_api_key=None if case.get("key_form", "literal") == "env" else case["key"],
        wandb_mode="offline",
    )
    cfg = TrainingJobConfig(data_config=dc, model_config=mc, trainer_config=tc).to_sleap_nn_cfg()
    if case.get("key_form", "literal") == "env":
        # the key is not written into the configuration: it is a reference to an environment variable
        # (structured: OmegaConf.update on the builder-made config; plain: `api_key: ${oc.env:...}` in the YAML)
        OmegaConf.update(cfg, KEYPATH, KEY_REF)
    if case["form"] == "plain":
        y = os.path.join(indir, "config.yaml")  # the user's own file: not an output directory
        OmegaConf.save(cfg, y)
        if case.get("key_form", "literal") == "digits":
            # a hand-written YAML file holds the key unquoted; a digits-only key is then a YAML integer
            txt = open(y).read()
            quoted = [q + case["key"] + q for q in ("'", '"')]
            if not any(q in txt for q in quoted):
                raise runner.HarnessError("key_form=digits: quoted key not found in the saved YAML")
            for q in quoted:
                txt = txt.replace(q, case["key"])
            open(y, "w").write(txt)
        cfg = OmegaConf.load(y)
        if case.get("key_form", "literal") == "digits" and not isinstance(OmegaConf.select(cfg, KEYPATH), int):
            raise runner.HarnessError("key_form=digits: the YAML-loaded key is not an integer")
    return cfg, labels


# ----------------------------------------------------------------------------------
# container comparison (independent of OmegaConf's own equality)


def _norm(x):
    if isinstance(x, tuple):
        return [_norm(v) for v in x]
    if isinstance(x, list):
        return [_norm(v) for v in x]
    if isinstance(x, dict):
        return {str(k): _norm(v) for k, v in x.items()}
    return x


def diff_containers(want, got, path="", out=None, extra_none_ok=True):
    """Paths where `got` differs from `want` (lists==tuples, 1==1.0, extra None keys in got allowed)."""
    if out is None:
        out = []
    if isinstance(want, dict) and isinstance(got, dict):
        for k in want:
            if k not in got:
                out.append(f"{path}.{k}: missing")
            else:
                diff_containers(want[k], got[k], f"{path}.{k}", out, extra_none_ok)
        for k in got:
            if k not in want and not (extra_none_ok and got[k] is None):
                out.append(f"{path}.{k}: unexpected {got[k]!r}")
    elif isinstance(want, list) and isinstance(got, list):
        if len(want) != len(got):
            out.append(f"{path}: length {len(got)} != {len(want)}")
        else:
            for i, (a, b) in enumerate(zip(want, got)):
                diff_containers(a, b, f"{path}[{i}]", out, extra_none_ok)
    else:
        same = want == got and (isinstance(want, bool) == isinstance(got, bool))
        if not same:
            out.append(f"{path}: {got!r} != {want!r}")
    return out


def _get(d, dotted, default=None):
    for k in dotted.split("."):
        if not isinstance(d, dict) or k not in d:
            return default
        d = d[k]
    return d


def _set(d, dotted, value):
    ks = dotted.split(".")
    for k in ks[:-1]:
        d = d.get(k)
        if not isinstance(d, dict):
            return
    if ks[-1] in d:
        d[ks[-1]] = value


KEYPATH = "trainer_config.wandb.api_key"


def _walk_has_key(obj, needle, depth=0):
    from omegaconf import DictConfig, ListConfig, OmegaConf

    if depth > 12:
        return False
    if isinstance(obj, str):
        return needle in obj
    if isinstance(obj, bytes):
        return needle.encode() in obj
    if isinstance(obj, (DictConfig, ListConfig)):
        return _walk_has_key(OmegaConf.to_container(obj, resolve=False), needle, depth + 1)
    if isinstance(obj, dict):
        return any(_walk_has_key(k, needle, depth + 1) or _walk_has_key(v, needle, depth + 1) for k, v in obj.items())
    if isinstance(obj, (list, tuple, set)):
        return any(_walk_has_key(v, needle, depth + 1) for v in obj)
    return False


# ----------------------------------------------------------------------------------
# one execution of the code under test


class _Quiet:
    """fd-level silence for Lightning's rich model summary / wandb banners."""

    def __enter__(self):
        sys.stdout.flush()
        sys.stderr.flush()
        self.saved = (os.dup(1), os.dup(2))
        self.null = os.open(os.devnull, os.O_WRONLY)
        os.dup2(self.null, 1)
        os.dup2(self.null, 2)
        return self

    def __exit__(self, *a):
        try:
            sys.stdout.flush()
            sys.stderr.flush()
        except Exception:
            pass
        os.dup2(self.saved[0], 1)
        os.dup2(self.saved[1], 2)
        for fd in (self.saved[0], self.saved[1], self.null):
            os.close(fd)
        return False


_ENV_KEYS = ["WANDB_DIR", "WANDB_CACHE_DIR", "WANDB_CONFIG_DIR", "WANDB_DATA_DIR", "WANDB_MODE", "WANDB_SILENT", "TMPDIR", "TORCH_FORCE_NO_WEIGHTS_ONLY_LOAD"]
_SIGS = [signal.SIGINT, signal.SIGTERM] + ([signal.SIGUSR1] if hasattr(signal, "SIGUSR1") else [])


def run_once(case, kill=None, layout=None, keys=None):
    """Run ModelTrainer(cfg).train() under the monitor; returns a report dict (all facts the oracle needs).

    `layout` (chunk-reuse histories): directories that outlive this run - {"d", "out", "chunks", "roots"};
    they are neither created fresh nor removed here.  `keys`: every key that must not be found (default: the
    case's own key).
    """
    import torch
    import wandb
    from omegaconf import OmegaConf

    _install_hook()
    mon = _MON
    d = layout["d"] if layout else env.scratch_dir("c19")
    out = layout["out"] if layout else os.path.join(d, "out")
    indir = os.path.join(d, "in")
    tmpd = os.path.join(d, "tmp")
    home = os.path.join(d, "wandb-home")
    cwd = os.path.join(d, "cwd")  # working directory of the run: nothing may be written there either
    for x in (indir, tmpd, home, cwd):
        os.makedirs(x, exist_ok=True)
    chunks = os.path.join(d, "chunks") if case["npp"] == "sep" else None
    roots = [out] + ([chunks] if chunks else []) + [cwd]
    if layout:
        chunks = layout["chunks"]
        roots = list(layout["roots"]) + [cwd]
    chunk_base = chunks or (layout["chunk_out"] if layout else out)
    keys = list(keys) if keys else [case["key"]]
    out_rel = os.path.relpath(out, d)

    def _ckpt_sigs():
        sigs = {}
        for dp, _dn, fns in os.walk(out):
            for fn in fns:
                if fn.endswith(".ckpt"):
                    st = os.stat(os.path.join(dp, fn))
                    sigs[os.path.relpath(os.path.join(dp, fn), d)] = (st.st_size, st.st_mtime_ns, st.st_ino)
        return sigs

    prior_ckpts = _ckpt_sigs() if os.path.isdir(out) else {}  # checkpoints of earlier runs of a history
    rep = {"outcome": None, "exc": None, "exc_bucket": None, "tr_config": None, "dir": d}

    saved_env = {k: os.environ.get(k) for k in _ENV_KEYS}
    saved_tmp = tempfile.tempdir
    saved_cwd = os.getcwd()
    saved_sigs = {s: signal.getsignal(s) for s in _SIGS}
    orig_osave = OmegaConf.__dict__["save"]
    orig_tsave = torch.save
    orig_lfit = None
    threads_before = set(threading.enumerate())
    tr = None
    try:
        cfg, labels = build_config(case, out, chunks, indir)
        supplied = _norm(OmegaConf.to_container(cfg, resolve=False))  # a key reference stays a reference here
        env_key = case.get("key_form", "literal") == "env"
        if env_key and not OmegaConf.is_interpolation(cfg.trainer_config.wandb, "api_key"):
            raise runner.HarnessError("key_form=env but the api_key node is not an interpolation")
        rep["labels"] = labels

        os.environ.update(
            WANDB_DIR=out, WANDB_CACHE_DIR=home, WANDB_CONFIG_DIR=home, WANDB_DATA_DIR=home,
            WANDB_MODE="offline", WANDB_SILENT="true", TMPDIR=tmpd,
        )
        if case.get("resume_ckpt") is not None:
            # image shim (like the kornia one): torch >= 2.6 defaults torch.load(weights_only=True), which cannot
            # un-pickle the DictConfig sleap-nn stores in its checkpoints, so Trainer.fit(ckpt_path=...) could not
            # resume at all in this image; set for the duration of a resumed run only
            os.environ["TORCH_FORCE_NO_WEIGHTS_ONLY_LOAD"] = "1"
        tempfile.tempdir = tmpd
        os.chdir(cwd)

        def osave(*a, **k):
            r = orig_osave.__func__(*a, **k)
            mon.boundary("OmegaConf.save:returned")
            return r

        def tsave(*a, **k):
            r = orig_tsave(*a, **k)
            mon.boundary("torch.save:returned")
            return r

        from lightning.pytorch import Trainer as _LTrainer
        from sleap_nn.training.model_trainer import ModelTrainer

        def lfit(self_, *a, **k):
            # entering Trainer.fit is a boundary of its own, so that every configuration (also those that
            # write nothing during fit) has a crash/kill point inside the try-block of ModelTrainer.train
            mon.fit_span = [mon.n, None]
            try:
                mon.boundary("Trainer.fit:entered")
                return orig_lfit(self_, *a, **k)
            finally:
                mon.fit_span[1] = mon.n

        mon.reset(roots, keys, kill, d)
        mon.main_ident = threading.get_ident()
        mon.hook_error = None
        if case.get("resume_ckpt") is not None:
            mon.watch_read = os.path.abspath(case["resume_ckpt"])
        t0 = time.time()
        with _Quiet():
            OmegaConf.save = staticmethod(osave)
            torch.save = tsave
            orig_lfit = _LTrainer.fit
            _LTrainer.fit = lfit
            mon.active = True
            saved_key_env = os.environ.get(KEY_ENV)
            import logging

            saved_log_disable = logging.root.manager.disable
            logging.disable(logging.NOTSET)  # vlib.env mutes `logging`; wandb's debug.log files are written through it
            try:
                if env_key:
                    os.environ[KEY_ENV] = case["key"]  # the real key exists only in the environment of the run
                tr = ModelTrainer(cfg)
                rep["constructed"] = True
                # the initial configuration file as it is when the constructor returns (reading raises no boundary)
                p_init = os.path.join(out, "initial_config.yaml")
                rep["initial_after_init"] = (
                    _norm(OmegaConf.to_container(OmegaConf.load(p_init), resolve=False)) if os.path.exists(p_init) else None
                )
                tr.train()
                rep["outcome"] = "completed"
            except BaseException as e:  # noqa: BLE001
                mon.active = False
                if kill is not None and mon.killed_at is not None:
                    rep["outcome"] = "killed"  # whatever exception surfaced while dying
                elif isinstance(e, Exception):
                    rep["outcome"] = "raised"
                    rep["exc"] = f"{type(e).__name__}: {str(e)[:300]}"
                    rep["exc_bucket"] = runner.exc_bucket("train" if rep.get("constructed") else "init", e)
                    if rep["exc_bucket"] is None:
                        raise
                else:
                    raise
            finally:
                mon.active = False
                logging.disable(saved_log_disable)
                if saved_key_env is None:
                    os.environ.pop(KEY_ENV, None)
                else:
                    os.environ[KEY_ENV] = saved_key_env
                OmegaConf.save = orig_osave
                torch.save = orig_tsave
                _LTrainer.fit = orig_lfit
                # nothing started by the case may outlive it
                try:
                    wandb.finish()
                except BaseException:  # noqa: BLE001
                    pass
                try:
                    wandb.teardown()
                except BaseException:  # noqa: BLE001
                    pass
        rep["seconds"] = time.time() - t0
        if mon.hook_error:
            raise runner.HarnessError("monitor hook failed:\n" + mon.hook_error)

        # ---- final scan (the directory a finished / dead process leaves behind)
        mon.busy = True
        try:
            mon.scan("final")
        finally:
            mon.busy = False
        rep["n_boundaries"] = mon.n
        rep["boundary_labels"] = list(mon.labels)
        rep["killed_at"] = mon.killed_at
        rep["fit_span"] = list(mon.fit_span) if mon.fit_span else None
        rep["scans"] = mon.scans
        rep["read_opens"] = mon.read_opens
        lt = getattr(tr, "trainer", None) if tr is not None else None
        rep["global_step"] = int(lt.global_step) if lt is not None else None
        rep["fit_ckpt_path"] = (str(lt.ckpt_path) if getattr(lt, "ckpt_path", None) else None) if lt is not None else None

        # ---- artifacts
        files = []
        for root in roots:
            for dp, dn, fns in os.walk(root):
                for fn in fns:
                    files.append(os.path.relpath(os.path.join(dp, fn), d))
        rep["files"] = sorted(files)
        rep["supplied"] = supplied
        for name in ("initial_config.yaml", "training_config.yaml"):
            p = os.path.join(out, name)
            rep[name] = _norm(OmegaConf.to_container(OmegaConf.load(p), resolve=False)) if os.path.exists(p) else None
        if tr is not None:
            rep["tr_config"] = _norm(OmegaConf.to_container(tr.config, resolve=False))
            if getattr(tr, "model", None) is not None:
                rep["n_params"] = int(sum(p.numel() for p in tr.model.parameters()))
        ckpts = {}
        for rel in rep["files"]:
            if rel.endswith(".ckpt") and rel.startswith(out_rel + "/"):  # this run's own output directory
                p = os.path.join(d, rel)
                try:
                    ck = torch.load(p, map_location="cpu", weights_only=False)
                except Exception as e:  # noqa: BLE001 - e.g. truncated by a kill
                    ckpts[rel] = {"unreadable": f"{type(e).__name__}"}
                    continue
                conf = ck.get("config") if isinstance(ck, dict) else None
                info = {"has_config": conf is not None, "deep_key": any(_walk_has_key(ck, k) for k in keys)}
                if isinstance(ck, dict):
                    info["epoch"], info["global_step"] = ck.get("epoch"), ck.get("global_step")
                if conf is not None:
                    c = _norm(OmegaConf.to_container(conf, resolve=False)) if not isinstance(conf, dict) else _norm(conf)
                    info["api_key"] = _get(c, KEYPATH, "<absent>")
                    info["skeleton_nodes"] = _skeleton_nodes(c)
                if info["deep_key"] and rel not in mon.hits:
                    mon.hits[rel] = {"first": "final", "last": "final", "how": "torch.load + recursive walk", "n": 1}
                ckpts[rel] = info
        rep["ckpts"] = ckpts
        now = _ckpt_sigs()
        rep["own_ckpts"] = sorted(r for r, sg in now.items() if prior_ckpts.get(r) != sg)  # written by THIS run
        rep["chunk_state"] = {}
        rep["npz"] = {}
        rep["out_rel"] = out_rel
        for nm in ("train_chunks", "val_chunks"):
            p = os.path.join(chunk_base, nm)
            rep["chunk_state"][nm] = (
                None if not os.path.isdir(p) else sum(len(f) for _, _, f in os.walk(p))
            )  # None = absent, else number of files
            if os.path.isdir(p):
                for fn in sorted(os.listdir(p)):
                    st = os.stat(os.path.join(p, fn))
                    rep["npz"][f"{nm}/{fn}"] = (st.st_size, st.st_mtime_ns, st.st_ino)
        rep["hits"] = {k: dict(v) for k, v in mon.hits.items()}
        rep["threads_left"] = len([t for t in threading.enumerate() if t not in threads_before and t.is_alive() and not t.daemon])
        try:
            import psutil

            kids = psutil.Process().children(recursive=True)
            kids = [k for k in kids if k.is_running() and k.status() != psutil.STATUS_ZOMBIE and "resource_tracker" not in " ".join(k.cmdline())]
            rep["children_left"] = len(kids)
            for k in kids:
                try:
                    k.kill()
                except Exception:  # noqa: BLE001
                    pass
        except Exception:  # noqa: BLE001
            rep["children_left"] = 0
        return rep
    finally:
        mon.active = False
        OmegaConf.save = orig_osave
        torch.save = orig_tsave
        if orig_lfit is not None:
            from lightning.pytorch import Trainer as _LT

            _LT.fit = orig_lfit
        tempfile.tempdir = saved_tmp
        if case.get("key_form", "literal") == "env" and os.environ.get(KEY_ENV) == case["key"]:
            os.environ.pop(KEY_ENV, None)
        os.chdir(saved_cwd)
        for k, v in saved_env.items():
            if v is None:
                os.environ.pop(k, None)
            else:
                os.environ[k] = v
        for s, h in saved_sigs.items():
            try:
                if h is not None:
                    signal.signal(s, h)
            except Exception:  # noqa: BLE001
                pass
        del tr
        if layout is None:
            shutil.rmtree(d, ignore_errors=True)


def _skeleton_nodes(conf):
    sk = _get(conf, "data_config.skeletons")
    if not isinstance(sk, dict) or not sk:
        return None
    first = next(iter(sk.values()))
    try:
        return [n["name"] if isinstance(n, dict) else str(n) for n in first["nodes"]]
    except Exception:  # noqa: BLE001
        return None


# ----------------------------------------------------------------------------------
# oracle


def file_class(rel):
    """Stable class of a file below the case directory (no run ids / timestamps)."""
    loc, parts = rel.split("/")[0], rel.split("/")[1:]  # 'out' / 'chunks' / 'cwd'
    if loc == "cwd":
        return "cwd/*" + os.path.splitext(parts[-1])[1]
    if len(parts) == 1:
        name = parts[0]
        if name == "config.yaml":
            return "chunk-config.yaml"
        if name.endswith(".ckpt") and name not in ("best.ckpt", "last.ckpt"):
            return "other.ckpt"
        return name
    return f"{parts[0]}/*{os.path.splitext(parts[-1])[1]}"


def judge_key(res, case, rep):
    """Clause (1): the key is in no crash snapshot and not in the directory left behind."""
    uw = case["use_wandb"]
    for rel in sorted(rep["hits"]):
        h = rep["hits"][rel]
        ka = rep["killed_at"]
        if ka is not None and (h["first"] == "final" or h["first"] > ka):
            phase = "unwind"  # first written with the key while the stack unwound after the kill
        elif h["last"] == "final":
            phase = "final"  # still there when the process ended
        else:
            phase = "transient"  # only a process dying at the right moment leaves it
        first = h["first"]
        where = (
            "the directory left at exit"
            if first == "final"
            else f"crash snapshot #{first} of {rep['n_boundaries']} (taken at `{rep['boundary_labels'][first]}`)"
        )
        res.fail(
            f"key-persisted:{file_class(rel)}:use_wandb={uw}:{phase}",
            f"API key found ({h['how']}) in {rel}, first in {where}, in {h['n']} scans, last seen at {h['last']}; "
            f"config={_label(case)} kill={rep.get('kill')}",
        )


def judge_artifacts(res, case, rep, reuse=False, resumed=False):
    """Clauses (2) and (3) for the un-killed run.

    resumed=True: the run continued from a checkpoint of an earlier run (`resume_ckpt_path`), possibly in the earlier
    run's folder: the checkpoint clause is "checkpointing on => the folder holds a checkpoint and this run wrote one"
    (which of best/last a resumed run rewrites depends on the restored best score - recorded, not judged).

    reuse=True: the run re-used existing chunks (`use_existing_chunks`): the labels file is never opened, the
    skeleton / max_height,max_width / crop size are read from the chunk directory's config.yaml and are NOT
    written back into the configuration, so those computed fields are recorded as class labels, not judged.
    """
    uw, ck, model = case["use_wandb"], case["save_ckpt"], case["model"]
    lab = _label(case)
    run = rep["outcome"]
    sfx = "" if run == "completed" else ":run=raised"
    n = 0
    # (2) completes
    n += 1
    if run == "raised":
        res.fail(f"{rep['exc_bucket']}:cfg={case['form']}:use_wandb={uw}", f"{rep['exc']} ; config={lab}")
    key = case["key"]

    def cmp_conf(name, want, got, what):
        if got is None:
            res.fail(f"artifacts:{name}:missing{sfx}", f"{name} does not exist after the run; config={lab}")
            return
        want = _norm(want)
        # the key field: blank expected; the supplied key itself is clause (1)'s business
        actual = _get(got, KEYPATH, None)
        if actual == KEY_REF:
            # the statement wants the key *blanked* in both files (what the tree does for a literal and for a
            # referenced key alike); a kept reference is not the key itself, hence a bucket of its own
            res.fail(f"artifacts:{name}:api_key-not-blank:reference-kept{sfx}", f"{KEYPATH}={actual!r} in {name}; config={lab}")
        elif actual not in ("", None) and actual != key:
            res.fail(f"artifacts:{name}:api_key-altered{sfx}", f"{KEYPATH}={actual!r} in {name}; config={lab}")
        import copy

        w, g = copy.deepcopy(want), copy.deepcopy(got)
        _set(w, KEYPATH, "")
        _set(g, KEYPATH, "")
        dd = diff_containers(w, g)
        if dd:
            res.fail(
                f"artifacts:{name}:differs-from-{what}{sfx}",
                f"{name} != {what} (key blanked) at {len(dd)} paths, e.g. {dd[:4]}; config={lab}",
            )

    # (3a) initial config == supplied
    n += 1
    cmp_conf("initial_config.yaml", rep["supplied"], rep["initial_config.yaml"], "supplied-config")
    early = rep.get("initial_after_init")
    if early is not None and early != rep["initial_config.yaml"]:
        # the file as the constructor left it is not the one found at the end: it has to equal the supplied
        # configuration at that point as well (identical contents were just compared above)
        n += 1
        cmp_conf("initial_config.yaml@constructed", rep["supplied"], early, "supplied-config")
    # (3b) final config == configuration actually used
    final = rep["training_config.yaml"]
    if rep["tr_config"] is not None:
        n += 1
        cmp_conf("training_config.yaml", rep["tr_config"], final, "trainer.config")
    # (3c) documented computed fields of the final config
    if final is not None:
        n += 1
        facts = _labels_facts(rep["labels"])
        miss = []
        if reuse:
            if _skeleton_nodes(final) is None:
                res.cls("reuse:final-config-without-skeletons")
            if _get(final, "data_config.preprocessing.max_height") is None:
                res.cls("reuse:final-config-without-max_hw")
        elif _skeleton_nodes(final) != facts["nodes"]:
            miss.append(f"data_config.skeletons nodes {_skeleton_nodes(final)} != labels' {facts['nodes']}")
        tp = _get(final, "model_config.total_params")
        if rep.get("n_params") is not None and tp != rep["n_params"]:
            miss.append(f"model_config.total_params {tp!r} != {rep['n_params']} parameters of the trained model")
        mh, mw = _get(final, "data_config.preprocessing.max_height"), _get(final, "data_config.preprocessing.max_width")
        if not reuse and (mh, mw) != facts["hw"]:
            miss.append(f"preprocessing.max_height/max_width {(mh, mw)} != image size {facts['hw']}")
        if model == "centered_instance" and not reuse:
            chw = _get(final, "data_config.preprocessing.crop_hw")
            ok = (
                isinstance(chw, list)
                and len(chw) == 2
                and all(isinstance(v, int) and not isinstance(v, bool) for v in chw)
                and chw[0] == chw[1]
                and chw[0] % MAX_STRIDE == 0
                and chw[0] >= max(MIN_CROP, facts["max_extent"])  # docstring: >= min_crop_size, contains the largest instance
            )
            if not ok:
                miss.append(f"preprocessing.crop_hw {chw!r} is not a stride-divisible square >= max({MIN_CROP}, {facts['max_extent']:.1f})")
        if uw and run == "completed":
            rid = _get(final, "trainer_config.wandb.run_id")
            if not (isinstance(rid, str) and rid):
                miss.append(f"trainer_config.wandb.run_id {rid!r} (tracking on)")
        for m in miss:
            fld = m.split(" ")[0]
            res.fail(f"artifacts:training_config.yaml:computed-field:{fld}{sfx}", f"{m}; config={lab}")
    # (3d) checkpoints iff save_ckpt
    n += 1
    names = {os.path.basename(r) for r in rep["own_ckpts"]}
    if resumed:
        if ck and run == "completed":
            present = sorted(os.path.basename(r) for r in rep["ckpts"])
            opts = _ckpt_opts(case)  # a resumed run draws options with save_last=True only (CKPT_OPTS_RESUMED)
            osfx = "" if opts == CKPT_DEFAULT else ":" + _opts_label(opts)
            if not present:
                res.fail(f"artifacts:ckpt-missing:any:save_ckpt=True{osfx}", f"no checkpoint file in the output folder after a completed resumed run; config={lab}")
            elif not names:
                res.fail(
                    f"artifacts:ckpt-not-written:save_ckpt=True{osfx}",
                    f"the resumed run trained with checkpointing on (save_top_k={opts[0]}, save_last={opts[1]}) but wrote no "
                    f"checkpoint (folder holds {present} of the earlier run); config={lab}",
                )
            res.cls("resume|run2-wrote=" + ("+".join(sorted(names)) or "nothing"), "resume|run2|" + _opts_label(opts) + "|wrote=" + ("+".join(sorted(names)) or "nothing"))
        elif not ck and names:
            res.fail("artifacts:ckpt-unexpected:save_ckpt=False", f"checkpoints {sorted(names)} written although save_ckpt=False; config={lab}")
    elif ck:
        # the statement: "a checkpoint when checkpointing is on" = at least one *.ckpt written by this run below its
        # folder, whatever model_ckpt options are set (that it loads and embeds a config with a blank key is (3e));
        # which files: best.ckpt is what save_top_k != 0 documents ("the best k models ... will be saved", file name
        # "best"), last.ckpt what save_last=True documents ("saves a last.ckpt whenever a checkpoint file gets saved");
        # with save_top_k=0 only the statement's "a checkpoint" is asserted, with save_last falsy no last.ckpt is
        # expected and none is forbidden
        opts = _ckpt_opts(case)
        osfx = "" if opts == CKPT_DEFAULT else ":" + _opts_label(opts)  # default options keep their bucket names
        if run == "completed":
            res.cls(_opts_label(opts) + "|wrote=" + ("+".join(sorted(names)) or "nothing"))
            if not names:
                res.fail(
                    f"artifacts:ckpt-missing:any:save_ckpt=True{osfx}",
                    f"checkpointing is on (save_ckpt=True, save_top_k={opts[0]}, save_last={opts[1]}) but the completed run "
                    f"wrote no *.ckpt below its folder (files: {[f for f in rep['files'] if f.startswith(rep['out_rel'] + '/')][:8]}); config={lab}",
                )
            wants = (["best.ckpt"] if opts[0] != 0 else []) + (["last.ckpt"] if opts[1] is True and opts[0] != 0 else [])
            for want in wants:
                if want not in names and (names or opts == CKPT_DEFAULT):
                    res.fail(f"artifacts:ckpt-missing:{want}:save_ckpt=True{osfx}", f"no {want} after a completed run (found {sorted(names)}); config={lab}")
    elif names:
        res.fail("artifacts:ckpt-unexpected:save_ckpt=False", f"checkpoints {sorted(names)} written although save_ckpt=False; config={lab}")
    # (3e) embedded config of every checkpoint
    for rel, info in sorted(rep["ckpts"].items()):
        n += 1
        fc = file_class(rel)
        if "unreadable" in info:
            res.fail(f"artifacts:ckpt-unreadable:{fc}{sfx}", f"{rel}: {info['unreadable']}; config={lab}")
            continue
        if not info["has_config"]:
            res.fail(f"artifacts:ckpt-config-missing:{fc}{sfx}", f"{rel} has no 'config' entry; config={lab}")
            continue
        if info["api_key"] == KEY_REF:
            res.fail(f"artifacts:ckpt-config:api_key-not-blank:reference-kept:{fc}{sfx}", f"{rel}: embedded {KEYPATH}={info['api_key']!r}; config={lab}")
        elif info["api_key"] not in ("", None) and info["api_key"] != key:
            res.fail(f"artifacts:ckpt-config:api_key-altered:{fc}{sfx}", f"{rel}: embedded {KEYPATH}={info['api_key']!r}; config={lab}")
        if info["api_key"] == key and rel not in rep["hits"]:
            raise runner.HarnessError(f"scanner missed the key in {rel}")
        if not reuse and info["skeleton_nodes"] != _labels_facts(rep["labels"])["nodes"]:
            res.fail(f"artifacts:ckpt-config:skeletons:{fc}{sfx}", f"{rel}: embedded skeleton nodes {info['skeleton_nodes']}; config={lab}")
    # (3f) chunk directories
    n += 1
    cs = rep["chunk_state"]
    left = {k: v for k, v in cs.items() if v}  # directories that still hold files
    if case["delete"] and not left and any(v is not None for v in cs.values()):
        # the datasets mkdir their chunk directory unconditionally; an *empty* directory holds no chunk
        # file, which is all the statement promises - recorded, not judged
        res.cls("empty-chunk-dir-left")
    if case["delete"] and left:
        res.fail(
            f"artifacts:chunks-remain:delete_chunks_after_training=True:run={run}",
            f"chunk directories after the run: {cs} (None=absent, else #files); config={lab}",
        )
    if not case["delete"] and case["fw"] == "torch_dataset_np_chunks" and run == "completed":
        if not all(cs.get(k) for k in ("train_chunks", "val_chunks")):
            res.fail(
                "artifacts:chunks-not-retained:delete_chunks_after_training=False",
                f"chunk directories after the run: {cs}; config={lab}",
            )
    return n


def _label(case):
    return (
        f"{case['model']}|{case['fw']}|delete={case['delete']}|npp={case['npp']}|wandb={case['use_wandb']}"
        f"|ckpt={case['save_ckpt']}|{case['form']}|labels={case['labels']}|key={case.get('key_form', 'literal')}"
        f"|{_opts_label(_ckpt_opts(case))}"
    )


def evaluate(case):
    res = Result()
    res.nontrivial = bool(case["key"]) and (
        case["form"] == "structured" or case["use_wandb"] or case["fw"] == "torch_dataset_np_chunks"
    )
    res.cls(
        f"{case['model']}|{'np_chunks' if 'np_chunks' in case['fw'] else 'in_memory'}|wandb={int(case['use_wandb'])}"
        f"|ckpt={int(case['save_ckpt'])}|{case['form']}",
        f"model={case['model']}",
        f"fw={case['fw']}|delete={int(case['delete'])}|npp={case['npp']}",
        f"labels={case['labels']}",
        f"key={case.get('key_form', 'literal')}|wandb={int(case['use_wandb'])}|{case['form']}",
        f"{_opts_label(_ckpt_opts(case))}|save_ckpt={int(case['save_ckpt'])}",
    )
    if case["save_ckpt"]:
        res.cls(_opts_label(_ckpt_opts(case)), f"{_opts_label(_ckpt_opts(case))}|{case['model']}")
    facts = _labels_facts(_labels_path(case["labels"]))
    assert case["key"] not in open(_labels_path(case["labels"]), "rb").read().decode("latin-1"), "key collides with labels file"
    del facts
    # ---- run A: all crash points of one undisturbed run
    rep = run_once(case, kill=None)
    rep["kill"] = None
    n_evals = rep["scans"] + 1
    nb = rep["n_boundaries"]
    res.cls(f"boundaries={nb}", f"runA={rep['outcome']}")
    TIMING.append((case["model"], round(rep["seconds"], 2), nb))
    if rep["threads_left"] or rep["children_left"]:
        res.cls(f"leftover:threads={rep['threads_left']},children={rep['children_left']}")
    if nb < 3:
        raise runner.HarnessError(f"only {nb} write boundaries observed - the monitor is blind; {_label(case)}")
    judge_key(res, case, rep)
    n_evals += judge_artifacts(res, case, rep)
    # ---- runs B: die at boundary k, unwind, scan what is left
    kills = case.get("kills") or []
    if kills == "all":
        kills = [[k, fl] for k in range(nb) for fl in ("base", "kbd")]
    elif kills in ("all-alt", "all-alt1"):
        off = 0 if kills == "all-alt" else 1
        kills = [[k, ("base", "kbd")[(k + off) % 2]] for k in range(nb)]
    span = rep["fit_span"]
    for kl in kills:
        k_raw, flavour = kl[0], kl[1]
        region = kl[2] if len(kl) > 2 else "any"
        if region == "fit" and span and span[1] is not None and span[1] > span[0]:
            k = span[0] + int(k_raw) % (span[1] - span[0])  # a boundary inside Trainer.fit of run A
        else:
            k = int(k_raw) % nb
        rb = run_once(case, kill=(k, flavour))
        rb["kill"] = [k, flavour]
        n_evals += rb["scans"] + 1
        if rb["killed_at"] is None:
            # the run diverged from run A before boundary k (only possible after an exception)
            res.cls("kill:not-reached")
        else:
            where = "init" if not rb.get("constructed") else ("fit" if span and span[0] <= k < (span[1] or 0) else "train")
            res.cls(f"kill:{flavour}", f"kill-in:{where}", f"unwind-boundaries={min(rb['n_boundaries'] - 1 - k, 9)}")
        judge_key(res, case, rb)
    res.n_evals = n_evals
    return res


# ----------------------------------------------------------------------------------
# chunk-reuse histories: run 1 creates and keeps chunks, run 2 (3) re-use them


def _hlabel(case):
    return (
        f"{case['model']}|npp={case['npp']}|delete2={case['delete2']}|third={case['third']}|wandb={case['use_wandb']}"
        f"|ckpt={case['save_ckpt']}|{case['form']}|{'explicit' if case['explicit'] else 'defaults'}|{_opts_label(_ckpt_opts(case))}"
    )


def _history_runs(case):
    """The run cases of a history (run 1 creates + keeps, the others re-use), sharing one directory layout."""
    shared = case["npp"] is None  # chunks live in save_ckpt_path: every run has to use the same directory
    base = {
        "model": case["model"], "fw": "torch_dataset_np_chunks", "npp": case["npp"], "use_wandb": case["use_wandb"],
        "form": case["form"], "labels": case["labels"], "seed": case["seed"], "explicit": case["explicit"],
        "key_form": case.get("key_form", "literal"), "ckpt_opts": list(_ckpt_opts(case)),
    }
    # with a shared directory run 1 writes no checkpoint, so that run 2's best.ckpt/last.ckpt are its own
    runs = [dict(base, delete=False, use_existing=False, save_ckpt=case["save_ckpt"] and not shared, key=case["key"], out="out")]
    runs.append(dict(base, delete=case["delete2"], use_existing=True, save_ckpt=case["save_ckpt"], key=case["key2"], out="out" if shared else "out2"))
    if case["third"] and not case["delete2"]:
        # chunks survived a re-using run: a third run re-uses them again and asks for their deletion
        runs.append(dict(base, delete=True, use_existing=True, save_ckpt=False, key=case["key"], out="out" if shared else "out3"))
    return runs


def _run_history(case, upto=None, kill=None):
    """Execute the runs of a history in ONE directory tree; returns the reports (kill applies to the last run)."""
    runs = _history_runs(case)
    if upto is not None:
        runs = runs[: upto + 1]
    d = env.scratch_dir("c19h")
    try:
        chunks = os.path.join(d, "chunks") if case["npp"] == "sep" else None
        outs = sorted({os.path.join(d, r["out"]) for r in runs})
        roots = outs + ([chunks] if chunks else [])
        keys = sorted({case["key"], case["key2"]})
        reps = []
        for i, rc in enumerate(runs):
            layout = {"d": d, "out": os.path.join(d, rc["out"]), "chunks": chunks, "roots": roots, "chunk_out": os.path.join(d, "out")}
            rep = run_once(rc, kill=kill if i == len(runs) - 1 else None, layout=layout, keys=keys)
            rep["kill"] = list(kill) if (kill and i == len(runs) - 1) else None
            rep["case"] = rc
            reps.append(rep)
            if rep["outcome"] != "completed":
                break
        return reps
    finally:
        shutil.rmtree(d, ignore_errors=True)


def evaluate_history(case):
    res = Result()
    res.nontrivial = bool(case["key"]) and bool(case["key2"])  # every history re-uses chunks with keys present
    res.cls(
        f"reuse|{case['model']}|npp={case['npp']}|delete2={int(case['delete2'])}|{case['form']}",
        f"reuse|{'explicit' if case['explicit'] else 'defaults'}|{case['model']}",
        f"reuse|wandb={int(case['use_wandb'])}|ckpt={int(case['save_ckpt'])}",
        f"reuse|keys={'same' if case['key'] == case['key2'] else 'different'}",
        f"reuse|key={case.get('key_form', 'literal')}|wandb={int(case['use_wandb'])}",
        f"reuse|runs={len(_history_runs(case))}",
        f"reuse|{_opts_label(_ckpt_opts(case))}|save_ckpt={int(case['save_ckpt'])}",
    )
    n_evals = 0
    reps = _run_history(case)
    prev = None
    for i, rep in enumerate(reps):
        rc = rep["case"]
        tmp = Result()
        nb = rep["n_boundaries"]
        n_evals += rep["scans"] + 1
        judge_key(tmp, rc, rep)
        n_evals += judge_artifacts(tmp, rc, rep, reuse=rc["use_existing"])
        if rc["use_existing"]:
            n_evals += 1
            # "use existing chunks": the chunk files are read, never written again
            rewritten = [l for l in rep["boundary_labels"] if l.startswith("open:") and "_chunks/" in l]
            if rewritten:
                tmp.fail(
                    "chunks-rewritten:use_existing_chunks=True",
                    f"run {i + 1} opened chunk files for writing: {rewritten[:3]}; history={_hlabel(case)}",
                )
            elif not rc["delete"] and rep["outcome"] == "completed" and prev is not None and rep["npz"] != prev["npz"]:
                tmp.fail(
                    "chunks-changed:use_existing_chunks=True",
                    f"chunk files (size, mtime, inode) differ after run {i + 1}: {rep['npz']} vs {prev['npz']}; history={_hlabel(case)}",
                )
        for b, m in tmp.failures:
            if ":raise:" in b:  # one bucket per raising frame and history class, not per config form / tracking
                b = b.split(":cfg=")[0] + (":explicit" if case["explicit"] else ":defaults")
            res.fail(f"reuse:run{i + 1}:{b}", f"{m} ; history={_hlabel(case)}")
        for c in tmp.classes:
            res.cls(c)
        res.cls(f"reuse|run{i + 1}={rep['outcome']}", f"reuse|run{i + 1}-boundaries={nb}")
        TIMING.append((f"reuse-run{i + 1}", round(rep["seconds"], 2), nb))
        prev = rep
    # ---- die inside a re-using run (run 2), unwind, scan both runs' directories
    kills = case.get("kills") or []
    if len(reps) >= 2 and reps[1]["outcome"] == "completed":
        r2 = reps[1]
        span = r2["fit_span"]
        if kills == "fit-all":
            kills = [[k, fl, "abs"] for k in range(span[0], span[1]) for fl in ("base", "kbd")] if span and span[1] else []
        for kl in kills:
            k_raw, flavour, region = kl[0], kl[1], (kl[2] if len(kl) > 2 else "any")
            if region == "abs":
                k = int(k_raw)
            elif region == "fit" and span and span[1] is not None and span[1] > span[0]:
                k = span[0] + int(k_raw) % (span[1] - span[0])
            else:
                k = int(k_raw) % r2["n_boundaries"]
            rb = _run_history(case, upto=1, kill=(k, flavour))[-1]
            n_evals += rb["scans"] + 1
            res.cls("reuse|kill:not-reached" if rb["killed_at"] is None else f"reuse|kill:{flavour}")
            tmp = Result()
            judge_key(tmp, rb["case"], rb)
            for b, m in tmp.failures:
                res.fail(f"reuse:run2:{b}", f"{m} ; history={_hlabel(case)}")
    res.n_evals = max(1, n_evals)
    return res


# ----------------------------------------------------------------------------------
# resume histories: run 1 trains with checkpointing on, run 2 (a new ModelTrainer) continues from run 1's checkpoint


RESUME_LR = 5e-4  # run 2's learning rate in histories of change class "epochs+lr" (run 1: the builder's default 1e-3)


def _rlabel(case):
    return (
        f"{case['model']}|{case['fw']}|folder2={case['folder2']}|from={case['from']}|change={case['change']}"
        f"|wandb={int(case['uw1'])}{int(case['uw2'])}|prv={int(case['prv'])}|ckpt2={case['ck2']}|{case['form']}"
        f"|key={case.get('key_form', 'literal')}|keys={'same' if case['key'] == case['key2'] else 'different'}"
        f"|run2:{_opts_label(_ckpt_opts(case))}"
    )


def _resume_runs(case):
    """Run cases of a resume history; run 2's `resume_ckpt` / `prv_runid` are filled in once run 1 has finished."""
    np_chunks = case["fw"] == "np_chunks"
    base = {
        "model": case["model"], "fw": "torch_dataset_np_chunks" if np_chunks else "torch_dataset", "delete": True, "npp": None,
        "form": case["form"], "labels": case["labels"], "seed": case["seed"], "key_form": case.get("key_form", "literal"),
    }
    r1 = dict(base, use_wandb=case["uw1"], save_ckpt=True, key=case["key"], out="out", max_epochs=1)
    r2 = dict(
        base, use_wandb=case["uw2"], save_ckpt=case["ck2"], key=case["key2"], out="out" if case["folder2"] == "same" else "out2",
        max_epochs=2, lr=RESUME_LR if case["change"] == "epochs+lr" else None, ckpt_opts=list(_ckpt_opts(case)),
    )
    return [r1, r2]


def _run_resume(case, kill=None):
    """Run 1, then run 2 resuming from run 1's checkpoint, in ONE directory tree (kill applies to run 2)."""
    r1, r2 = _resume_runs(case)
    d = env.scratch_dir("c19r")
    try:
        outs = sorted({os.path.join(d, r["out"]) for r in (r1, r2)})
        keys = sorted({case["key"], case["key2"]})
        reps = []
        for i, rc in enumerate((r1, r2)):
            out = os.path.join(d, rc["out"])
            if i == 1:
                rc["resume_ckpt"] = os.path.join(d, r1["out"], case["from"] + ".ckpt")
                if case["prv"] and case["uw1"] and case["uw2"]:
                    # continue run 1's tracking run: its id is documented to be in run 1's final configuration
                    rc["prv_runid"] = _get(reps[0]["training_config.yaml"] or {}, "trainer_config.wandb.run_id")
            layout = {"d": d, "out": out, "chunks": None, "roots": outs, "chunk_out": out}
            rep = run_once(rc, kill=kill if i == 1 else None, layout=layout, keys=keys)
            rep["kill"] = list(kill) if (kill and i == 1) else None
            rep["case"] = rc
            reps.append(rep)
            if rep["outcome"] != "completed" or not os.path.exists(os.path.join(d, r1["out"], case["from"] + ".ckpt")):
                break
        return reps
    finally:
        shutil.rmtree(d, ignore_errors=True)


def evaluate_resume(case):
    res = Result()
    folder = f"{case['folder2']}-folder"
    res.cls(
        f"resume|{folder}|{case['model']}|{case['form']}",
        f"resume|{folder}|wandb={int(case['uw1'])}{int(case['uw2'])}|ckpt2={int(case['ck2'])}",
        f"resume|{folder}|keys={'same' if case['key'] == case['key2'] else 'different'}|key={case.get('key_form', 'literal')}",
        f"resume|from={case['from']}|change={case['change']}|fw={case['fw']}",
        f"resume|prv_runid={int(bool(case['prv'] and case['uw1'] and case['uw2']))}",
        f"resume|run2|{_opts_label(_ckpt_opts(case))}|ckpt2={int(case['ck2'])}|{folder}",
    )
    n_evals = 0
    reps = _run_resume(case)
    for i, rep in enumerate(reps):
        rc = rep["case"]
        tmp = Result()
        n_evals += rep["scans"] + 1
        judge_key(tmp, rc, rep)
        n_evals += judge_artifacts(tmp, rc, rep, resumed=(i == 1))
        for b, m in tmp.failures:
            if ":raise:" in b:
                b = b.split(":cfg=")[0]
            res.fail(f"resume:run{i + 1}:{folder}:{b}" if i == 1 else f"resume:run1:{b}", f"{m} ; history={_rlabel(case)}")
        for c in tmp.classes:
            res.cls(c)
        res.cls(f"resume|run{i + 1}={rep['outcome']}", f"resume|run{i + 1}-boundaries={rep['n_boundaries']}")
        TIMING.append((f"resume-run{i + 1}", round(rep["seconds"], 2), rep["n_boundaries"]))
    if len(reps) == 1 and reps[0]["outcome"] == "completed":
        res.cls(f"resume|run1-left-no-{case['from']}.ckpt")  # run 1's own artifact clause has reported it
    # did run 2 really resume?  (harness fact, not an oracle clause: decides whether the case counts as non-trivial)
    resumed = False
    if len(reps) == 2 and reps[1]["outcome"] == "completed":
        r2 = reps[1]
        want = os.path.abspath(r2["case"]["resume_ckpt"])
        resumed = (
            r2["read_opens"] >= 1  # the checkpoint file was opened for reading during run 2
            and r2["fit_ckpt_path"] is not None
            and os.path.abspath(r2["fit_ckpt_path"]) == want  # ... by Trainer.fit as the state to restore
            and r2["global_step"] == 2  # run 1's step + the one step of run 2's extra epoch
        )
        res.cls(f"resume|really-resumed={int(resumed)}")
        own_last = [v for k, v in r2["ckpts"].items() if k.endswith("/last.ckpt") and k in r2["own_ckpts"]]
        for info in own_last:
            res.cls(f"resume|run2-last.ckpt-epoch={info.get('epoch')}-step={info.get('global_step')}")
    res.nontrivial = bool(case["key"]) and bool(case["key2"]) and resumed
    # ---- die inside the resumed run, unwind, scan both runs' directories
    kills = case.get("kills") or []
    if len(reps) == 2 and reps[1]["outcome"] == "completed":
        r2 = reps[1]
        span = r2["fit_span"]
        for kl in kills:
            k_raw, flavour, region = kl[0], kl[1], (kl[2] if len(kl) > 2 else "any")
            if region == "fit" and span and span[1] is not None and span[1] > span[0]:
                k = span[0] + int(k_raw) % (span[1] - span[0])
            else:
                k = int(k_raw) % r2["n_boundaries"]
            rb = _run_resume(case, kill=(k, flavour))[-1]
            n_evals += rb["scans"] + 1
            res.cls("resume|kill:not-reached" if rb["killed_at"] is None else f"resume|kill:{flavour}")
            tmp = Result()
            judge_key(tmp, rb["case"], rb)
            for b, m in tmp.failures:
                res.fail(f"resume:run2:{folder}:{b}", f"{m} ; history={_rlabel(case)}")
    res.n_evals = max(1, n_evals)
    return res


# ----------------------------------------------------------------------------------
# generators


KEY_FORMS = ("literal", "env", "digits")


def _digits(key):
    """Digits-only key of the same length (no leading zero) derived from a hex key."""
    return "71" + "".join(str(int(ch, 16) % 10) for ch in key[2:])


def _case(cfg, key, seed, labels, kills, key_form="literal", ckpt_opts=CKPT_DEFAULT):
    m, (fw, delete, npp), uw, ck, form = cfg
    if key_form == "digits" and not key.isdigit():
        key = _digits(key)
    return {
        "key_form": key_form,
        "model": m,
        "fw": fw,
        "delete": delete,
        "npp": npp,
        "use_wandb": uw,
        "save_ckpt": ck,
        "ckpt_opts": list(ckpt_opts),
        "form": form,
        "labels": "one" if m == "single_instance" else labels,
        "key": key,
        "seed": seed,
        "kills": kills,
    }


def _det_key(i):
    return hashlib.sha1(f"c19-grid-{i}".encode()).hexdigest()  # 40 hex chars, like a real wandb key


def grid_cases(tier):
    if tier == "quick":
        # a fixed 8-configuration covering slice: every model type twice, 5 of the 6 fw variants, every
        # pair (use_wandb, save_ckpt) twice, both config forms four times
        td, tdf = FW_VARIANTS[0], FW_VARIANTS[1]
        nc, ncs, ncf, ncfs = FW_VARIANTS[2], FW_VARIANTS[3], FW_VARIANTS[4], FW_VARIANTS[5]
        # key form: four literal, four env-referenced - tracking on + plain, tracking on + structured,
        # tracking off + plain (checkpointing on), tracking off + structured
        # checkpoint options: the four checkpointing-on configurations carry four different (save_top_k, save_last)
        # pairs - keep all / keep only the latest / the builder's default / best only; one checkpointing-off
        # configuration carries a non-default pair too (inert there)
        picks = [
            (("single_instance", td, False, True, "structured"), "literal", (-1, True)),
            (("single_instance", ncs, True, False, "plain"), "env", (0, True)),
            (("centroid", nc, True, True, "structured"), "env", (0, True)),
            (("centroid", tdf, False, False, "plain"), "digits", CKPT_DEFAULT),
            (("centered_instance", ncf, False, True, "plain"), "env", CKPT_DEFAULT),
            (("centered_instance", ncs, True, False, "structured"), "literal", CKPT_DEFAULT),
            (("bottomup", ncfs, True, True, "plain"), "digits", (1, None)),
            (("bottomup", nc, False, False, "structured"), "env", CKPT_DEFAULT),
        ]
        for cfg, kf, opts in picks:
            i = GRID.index(cfg)
            yield _case(cfg, _det_key(i), 1000 + i, "asset", [], kf, opts)
    else:
        for i, cfg in enumerate(GRID):
            yield _case(cfg, _det_key(i), 1000 + i, "asset", "all", "literal")
        # the key as an environment reference: model x {in-memory, np_chunks in a separate dir} x use_wandb x
        # save_ckpt x form, a kill at every boundary with alternating flavour
        j = 0
        for i, cfg in enumerate(GRID):
            if cfg[1] in (FW_VARIANTS[0], FW_VARIANTS[3]):
                yield _case(cfg, _det_key(50_000 + i), 5000 + i, "asset", "all-alt" if j % 2 else "all-alt1", "env")
                j += 1
        # checkpoint options: every checkpointing-on configuration of model x {in-memory, np_chunks in a separate dir} x
        # use_wandb x form with each non-default (save_top_k, save_last) pair; every boundary of the undisturbed run is
        # a crash snapshot, plus one kill inside Trainer.fit (where the checkpoint files are written)
        j = 0
        for i, cfg in enumerate(GRID):
            if cfg[3] and cfg[1] in (FW_VARIANTS[0], FW_VARIANTS[3]):
                for opts in CKPT_OPTS[1:]:
                    yield _case(cfg, _det_key(60_000 + j), 6000 + j, "asset", [[j, ("base", "kbd")[j % 2], "fit"]], KEY_FORMS[j % 3], opts)
                    j += 1


def strategy():
    from hypothesis import strategies as st

    @st.composite
    def case(draw):
        # ONE joint choice over all configuration axes, the key form included
        # (checkpoint options included: five pairs where checkpointing is on, two where it is off and they are inert)
        cfg, key_form, opts = draw(
            st.sampled_from([(g, kf, o) for g in GRID for kf in KEY_FORMS for o in (CKPT_OPTS if g[3] else CKPT_OPTS_OFF)])
        )
        tail = draw(st.text(alphabet="0123456789abcdef", min_size=38, max_size=38))
        key = "c1" + tail  # 40 hex characters; the fixed head keeps shrunk keys from degenerating to a common string
        # key_form "digits": _case maps the key to digits only (unquoted in a YAML file such a key is an integer)
        seed = draw(st.integers(0, 2**16))
        labels = draw(st.sampled_from(["asset", "one"]))
        # (k, flavour, region) drawn as ONE joint choice of (flavour, region); "fit" = inside Trainer.fit, where
        # Lightning's teardown and the finally-block of ModelTrainer.train unwind
        kinds = [("base", "fit"), ("kbd", "fit"), ("base", "fit"), ("kbd", "fit"), ("base", "any"), ("kbd", "any")]
        kills = draw(
            st.lists(
                st.tuples(st.integers(0, 999), st.sampled_from(kinds)).map(lambda t: [t[0], t[1][0], t[1][1]]),
                min_size=1,
                max_size=2,
            )
        )
        return _case(cfg, key, seed, labels, kills, key_form, opts)

    return case()


HGRID = [
    (m, npp, d2, form, uw, ck, ex)
    for m in MODELS
    for npp in (None, "sep")
    for d2 in (True, False)
    for form in ("structured", "plain")
    for uw in (False, True)
    for ck in (False, True)
    for ex in (True, False)
]


def _hcase(cfg, key, key2, seed, third, kills, key_form="literal", ckpt_opts=CKPT_DEFAULT):
    m, npp, d2, form, uw, ck, ex = cfg
    if key_form == "digits":
        key, key2 = (k if k.isdigit() else ("7" + _digits(k)[1:] if k.startswith("c1") else "8" + _digits(k)[1:]) for k in (key, key2))
    return {
        "key_form": key_form,
        "model": m, "npp": npp, "delete2": d2, "form": form, "use_wandb": uw, "save_ckpt": ck, "explicit": ex,
        "ckpt_opts": list(ckpt_opts),
        "third": bool(third), "labels": "one" if m == "single_instance" else "asset",
        "key": key, "key2": key2, "seed": seed, "kills": kills,
    }


def history_cases(tier):
    if tier == "quick":
        # eight fixed histories: every model type twice, both np_chunks_path variants, deletion requested by
        # run 2 in six, two three-run histories, both config forms; five of class "explicit" (crop_hw / part_names /
        # edges given by the user, as in the repo's own reuse test) and three of class "defaults"
        picks = [
            (("centroid", "sep", True, "structured", False, True, True), False, False),
            (("centered_instance", None, True, "plain", True, False, True), True, False),
            (("single_instance", None, False, "structured", False, True, True), False, True),
            (("single_instance", "sep", True, "plain", False, False, True), True, False),
            (("bottomup", "sep", True, "plain", False, False, True), False, False),
            (("centered_instance", "sep", True, "structured", False, False, False), False, False),
            (("centroid", None, True, "plain", False, True, False), True, False),
            (("bottomup", None, False, "structured", True, False, False), False, True),
        ]
        # checkpoint options of the three checkpointing-on histories: keep only the latest / keep all / best only
        hopts = {0: (0, True), 2: (-1, True), 6: (1, None)}
        for i, (cfg, diffkeys, third) in enumerate(picks):
            k1 = _det_key(10_000 + i)
            yield _hcase(cfg, k1, _det_key(20_000 + i) if diffkeys else k1, 2000 + i, third, [], "env" if i % 3 == 1 else "literal", hopts.get(i, CKPT_DEFAULT))
    else:
        # all (model x npp x delete2 x form) histories, for both classes; use_wandb / save_ckpt cycle jointly
        i = 0
        for m in MODELS:
            for npp in (None, "sep"):
                for d2 in (True, False):
                    for form in ("structured", "plain"):
                        for ex in (True, False):
                            uw, ck = [(False, True), (True, False), (True, True), (False, False)][i % 4]
                            k1 = _det_key(10_000 + i)
                            # checkpoint options cycle over the checkpointing-on histories (every 2nd; i // 2 counts them)
                            opts = CKPT_OPTS[(i // 2) % len(CKPT_OPTS)] if ck else CKPT_DEFAULT
                            yield _hcase((m, npp, d2, form, uw, ck, ex), k1, _det_key(20_000 + i) if i % 2 else k1, 2000 + i, not d2, "fit-all", "env" if (i // 4) % 2 else "literal", opts)
                            i += 1


def history_strategy():
    from hypothesis import strategies as st

    @st.composite
    def case(draw):
        cfg, key_form, opts = draw(  # ONE joint choice, checkpoint options included (index 5 of a HGRID entry = save_ckpt)
            st.sampled_from([(g, kf, o) for g in HGRID for kf in KEY_FORMS for o in (CKPT_OPTS if g[5] else CKPT_OPTS_OFF)])
        )
        k1 = "c1" + draw(st.text(alphabet="0123456789abcdef", min_size=38, max_size=38))
        same = draw(st.booleans())
        k2 = k1 if same else "c2" + draw(st.text(alphabet="0123456789abcdef", min_size=38, max_size=38))
        seed = draw(st.integers(0, 2**16))
        third = draw(st.booleans())
        kinds = [("base", "fit"), ("kbd", "fit"), ("base", "any"), ("kbd", "any")]
        kills = draw(
            st.lists(st.tuples(st.integers(0, 999), st.sampled_from(kinds)).map(lambda t: [t[0], t[1][0], t[1][1]]), min_size=0, max_size=1)
        )
        return _hcase(cfg, k1, k2, seed, third, kills, key_form, opts)

    return case()


# resume histories: (model, fw, folder2, form, (uw1, uw2), ck2) is ONE joint choice
RGRID = [
    (m, fw, f2, form, uws, ck2)
    for m in MODELS
    for fw in ("in_memory", "np_chunks")
    for f2 in ("same", "fresh")
    for form in ("structured", "plain")
    for uws in ((False, False), (False, True), (True, False), (True, True))
    for ck2 in (True, False)
]
RVARIANTS = [(frm, ch, prv) for frm in ("last", "best") for ch in ("epochs", "epochs+lr") for prv in (False, True)]


def _rcase(cfg, variant, key, key2, seed, kills, key_form="literal", ckpt_opts=CKPT_DEFAULT):
    m, fw, f2, form, (uw1, uw2), ck2 = cfg
    frm, change, prv = variant
    if key_form == "digits":
        key, key2 = (k if k.isdigit() else ("7" + _digits(k)[1:] if k.startswith("c1") else "8" + _digits(k)[1:]) for k in (key, key2))
    return {
        "kind": "resume", "key_form": key_form,
        "model": m, "fw": fw, "folder2": f2, "form": form, "uw1": uw1, "uw2": uw2, "ck2": ck2,
        "from": frm, "change": change, "prv": bool(prv), "ckpt_opts": list(ckpt_opts),  # run 2's options (run 1: default)
        "labels": "one" if m == "single_instance" else "asset",
        "key": key, "key2": key2, "seed": seed, "kills": kills,
    }


def resume_cases(tier):
    if tier == "quick":
        # four fixed histories: every model type once; run 2 in run 1's folder three times (as the repo's own resume
        # test does) and in a fresh folder once; both config forms twice; same / different keys; all three key forms;
        # tracking on in run 2 only / in both runs with run 1's run id handed on (prv_runid) / off
        picks = [
            (("centered_instance", "in_memory", "same", "plain", (False, False), True), ("last", "epochs+lr", False), False, "literal"),
            (("centroid", "in_memory", "same", "structured", (False, True), False), ("best", "epochs", False), True, "env"),
            (("single_instance", "np_chunks", "fresh", "plain", (False, False), True), ("last", "epochs", False), True, "digits"),
            (("bottomup", "in_memory", "same", "structured", (True, True), True), ("last", "epochs+lr", True), True, "literal"),
        ]
        # run 2's checkpoint options in the three histories with checkpointing on in run 2: keep only the latest (run
        # 1's folder) / keep all (fresh folder) / default
        ropts = {0: (0, True), 2: (-1, True)}
        for i, (cfg, var, diffkeys, kf) in enumerate(picks):
            k1 = _det_key(30_000 + i)
            yield _rcase(cfg, var, k1, _det_key(40_000 + i) if diffkeys else k1, 3000 + i, [], kf, ropts.get(i, CKPT_DEFAULT))
    else:
        # all (model x fw x folder2 x form x ck2) histories; tracking, variant, key form, same/different keys cycle
        i = 0
        for m in MODELS:
            for fw in ("in_memory", "np_chunks"):
                for f2 in ("same", "fresh"):
                    for form in ("structured", "plain"):
                        for ck2 in (True, False):
                            uws = [(False, False), (True, True), (False, True), (True, False)][i % 4]
                            var = RVARIANTS[(i // 2) % len(RVARIANTS)]
                            k1 = _det_key(30_000 + i)
                            kills = [[i, "base", "fit"], [i // 3, "kbd", "any"]]
                            opts = CKPT_OPTS_RESUMED[(i // 2) % len(CKPT_OPTS_RESUMED)] if ck2 else CKPT_DEFAULT
                            yield _rcase((m, fw, f2, form, uws, ck2), var, k1, _det_key(40_000 + i) if i % 2 else k1, 3000 + i, kills, KEY_FORMS[(i // 4) % 3], opts)
                            i += 1


def resume_strategy():
    from hypothesis import strategies as st

    @st.composite
    def case(draw):
        cfg, key_form, opts = draw(  # ONE joint choice, run 2's checkpoint options included (index 5 of a RGRID entry = ck2)
            st.sampled_from([(g, kf, o) for g in RGRID for kf in KEY_FORMS for o in (CKPT_OPTS_RESUMED if g[5] else CKPT_OPTS_OFF)])
        )
        var = draw(st.sampled_from(RVARIANTS))
        k1 = "c1" + draw(st.text(alphabet="0123456789abcdef", min_size=38, max_size=38))
        same = draw(st.booleans())
        k2 = k1 if same else "c2" + draw(st.text(alphabet="0123456789abcdef", min_size=38, max_size=38))
        seed = draw(st.integers(0, 2**16))
        kinds = [("base", "fit"), ("kbd", "fit"), ("base", "any"), ("kbd", "any")]
        kills = draw(
            st.lists(st.tuples(st.integers(0, 999), st.sampled_from(kinds)).map(lambda t: [t[0], t[1][0], t[1][1]]), min_size=0, max_size=1)
        )
        return _rcase(cfg, var, k1, k2, seed, kills, key_form, opts)

    return case()


def _setup():
    _install_hook()


def parts(tier):
    return [
        Part(
            name="grid",
            evaluate=evaluate,
            enumerate=grid_cases,
            shards={"quick": 1, "thorough": 16},
            exhaustive={"quick": False, "thorough": True},
            min_nontrivial={"quick": 3, "thorough": 60},
            setup=_setup,
        ),
        Part(
            name="sampled",
            evaluate=evaluate,
            strategy=strategy,
            budget={"quick": 30, "thorough": 1600},
            shards={"quick": 1, "thorough": 16},
            min_nontrivial={"quick": 10, "thorough": 300},
            setup=_setup,
        ),
        Part(
            name="chunk-reuse",
            evaluate=evaluate_history,
            enumerate=history_cases,
            shards={"quick": 1, "thorough": 16},
            exhaustive={"quick": False, "thorough": True},
            min_nontrivial={"quick": 3, "thorough": 40},
            setup=_setup,
        ),
        Part(
            name="chunk-reuse-sampled",
            evaluate=evaluate_history,
            strategy=history_strategy,
            budget={"quick": 2, "thorough": 320},
            shards={"quick": 1, "thorough": 16},
            min_nontrivial={"quick": 1, "thorough": 60},
            setup=_setup,
        ),
        Part(
            name="resume",
            evaluate=evaluate_resume,
            enumerate=resume_cases,
            shards={"quick": 1, "thorough": 16},
            exhaustive={"quick": False, "thorough": False},
            min_nontrivial={"quick": 2, "thorough": 40},
            setup=_setup,
        ),
        Part(
            name="resume-sampled",
            evaluate=evaluate_resume,
            strategy=resume_strategy,
            # histories without kills take ~1-3 s: 4 shards of 100; with 16 shards a smoke run at --scale 0.02 would give
            # every shard ONE example - Hypothesis' identical simplest one - and trip the runner's non-trivial floor
            budget={"quick": 2, "thorough": 400},
            shards={"quick": 1, "thorough": 4},
            min_nontrivial={"quick": 1, "thorough": 100},
            setup=_setup,
        ),
    ]


def extra_coverage():
    out = {
        "exhaustive_domain": "thorough: all 192 configurations (4 model types x 6 fw/chunk variants x use_wandb x "
        "save_ckpt x structured/plain) x every write boundary x {SimulatedKill, KeyboardInterrupt}; chunk-reuse: all "
        "128 histories (4 model types x np_chunks_path {None, sep} x delete {T,F} x structured/plain x "
        "{explicit, defaults}) x every boundary inside run 2's Trainer.fit x 2 kill flavours; resume: 64 histories "
        "(4 model types x {in-memory, np_chunks} x run-2 folder {same, fresh} x structured/plain x run-2 checkpointing) "
        "with two kill points inside run 2 each (not exhaustive over tracking / key form / variant: cycled)",
    }
    if TIMING:
        secs = [t[1] for t in TIMING]
        out["run_seconds"] = {"min": min(secs), "max": max(secs), "mean": round(sum(secs) / len(secs), 2), "runs": len(secs)}
        out["boundaries_per_run"] = {"min": min(t[2] for t in TIMING), "max": max(t[2] for t in TIMING)}
        out["run_seconds_by_model"] = {
            m: round(sum(t[1] for t in TIMING if t[0] == m) / max(1, len([t for t in TIMING if t[0] == m])), 2) for m in MODELS
        }
        out["timing_note"] = "wall seconds of the undisturbed run A per case (quick tier, in-process); evidence only"
    return out


if __name__ == "__main__":
    runner.main(__name__)
