"""C14 - every valid model configuration yields outputs of the contracted shape.

A case is a JSON document

    {"backbone_type", "backbone_config" (the dict handed to OmegaConf), "model_type",
     "head_configs", "batch", "calls": [[H, W], ...], "torch_seed",
     "ranges": [value-range class of frame 0, frame 1, ...]   (optional; default all "unit")}

`evaluate` builds `sleap_nn.architectures.model.Model` from it (weights from
`torch.manual_seed(torch_seed)`), puts it in eval() mode and runs the call sequence under
`torch.no_grad()`.  Inputs are a pure function of (torch_seed, H, W, ranges), so two calls of
the same size see the same tensor.  Every frame of the batch has its own VALUE RANGE class
(`RANGES`): "unit" (values in [0, 1), what the pipeline makes of uint8 images), "raw255" (float
image that was never divided by 255 - `apply_normalization` passes float images through
unscaled), "overshoot" (unit range with a few pixels slightly above 1 / below 0, e.g. after
brightness / noise augmentation or interpolation), "const" (one grey level) and "zero" (padding
frame).  The classes are drawn per frame, so batches MIX ranges.

Oracles
  (1) shape contract: the returned dict has exactly one entry per head of the model type;
      entry shape == (batch, parts | 2*edges | 1, H/stride, W/stride) computed by plain
      integer arithmetic from the case, AND == the shape `generate_confmaps` /
      `generate_multiconfmaps` / `generate_pafs` produce for the same (H, W) and stride.
  (2) eval-mode determinism / history independence: a call with a size that was used
      before returns bit-identical output (immediately repeated, or after calls with
      other sizes: A,B,A); every frame of a batch run alone gives the batched result
      (1e-5 scaled), whatever the value ranges of its batch-mates are.

Triage (DESIGN.md C14).  The generated grid is split in
  * core grid   - every option at a value the repo's tests, presets or docs examples use;
  * extended    - the remaining values of the DESIGN grid, and the backbone `kernel_size` axis (3 in the
                  core grid; 5, 2, 4, 1 - odd, even and pointwise kernels - as a deviation class of its own,
                  alone or combined with a stem / convs_per_block deviation, and rarely in every other class).
Failures of a configuration that satisfies one of the *listed predicates* below go to the
single bucket `ext:<backbone>:<predicate>` (first matching predicate in the fixed order
of `PREDICATES`, whatever the failure looks like); every other failure - core grid or
extended grid without a listed predicate - gets an ordinary clause bucket and is a
violation.  Invalid inputs (see `invalid_reason`) are counted as rejected, never judged.
"""

import itertools
import random

from vlib import env, runner
from vlib.runner import Part, Result

PROPERTY = "C14"
LEVEL = "exploration"
RULE = (
    "cases = (backbone family, backbone config, head type, head output strides, batch, per-frame input value "
    "range (unit | raw 0..255 floats | slight over/undershoot | constant | all-zero; drawn per frame so that "
    "batches mix ranges), call sequence of input sizes, torch seed) over the finite DESIGN grid: sampled with Hypothesis (core grid and "
    "extended grid parts) and, in the thorough tier, every grid configuration enumerated once with a "
    "rotating call sequence; non-trivial = the model was built and the configuration has a stem "
    "(unet stem_stride / convnext,swint stem_patch_stride=4) or unequal head strides or "
    "up_interpolate=False, or the call sequence contains two different input sizes; the backbone kernel_size is 3 in "
    "the core grid and 3 mostly / 5, 2, 4, 1 in the extended grid (own deviation class 'kernel_size!=3': one-axis, or "
    "combined with a stem / convs_per_block deviation; thorough: kernel sub-grid); distinct by hash "
    "of the serialised case"
)
ASSUMPTIONS = [
    "valid input sizes are positive multiples of backbone_config.max_stride (what the data pipeline pads "
    "to); other sizes are rejected inputs",
    "backbone_config.output_stride is always min(head output strides), as docs/config.md prescribes and "
    "TrainingJobConfig.check_output_strides enforces; other values are rejected inputs",
    "convnext/swint with filters_rate != 2 are rejected inputs: the torchvision encoders double the width "
    "per stage by construction, the decoder derives the skip widths from filters_rate, so no such "
    "architecture exists",
    "convnext/swint: model_type 'tiny' only (the other presets differ in depth/width, not in stride "
    "bookkeeping); window_size [7,7], patch_size [4,4], stem_patch_kernel 4 fixed",
    "backbone kernel_size (a 'filter setting' of UNetConfig / ConvNextConfig / SwinTConfig, documented only as '(int) "
    "Size of the convolutional kernels. Default is 3.') is generated in {3, 5, 2, 4, 1}: odd and even values are valid "
    "inputs - on the unchanged tree every value 1..7 builds and runs for the three families with every stem and "
    "convs_per_block (probed by hand, 294 configurations; 6 and 7 are not generated for cost); a failure of a "
    "kernel_size != 3 configuration that matches no listed predicate is a violation (bucket suffix "
    ":kernel_size=even|odd>3|1), one that matches a listed predicate is attributed to the predicate as before; "
    "non-square / tuple kernel sizes and the fixed stem kernels (unet 7, stem_patch_kernel 4) are not varied",
    "eval() mode only; train-mode stochastic depth is outside the statement",
    "same-size repeat comparisons are exact (single thread, same kernel, same data); batch-vs-single "
    "comparisons use 1e-5*(1+max|ref|) (1e-4*(1+max|ref|) for a raw 0..255 frame: measured maxima 2.3e-7 / 8.7e-7) "
    "because the convolution algorithm may depend on the batch size",
    "input frames are float32 of one of five value ranges (unit [0,1) | integer-valued 0..255 floats | unit with "
    "1-4 pixels up to 0.1 above 1 and up to 0.05 below 0 | one grey level in [0,1) | all zero), all legitimate "
    "model inputs (apply_normalization passes float images through unscaled); integer-dtype tensors, NaN/inf and "
    "values far outside 0..255 are not generated",
    "failures of configurations matching a listed extended-grid predicate are all attributed to that "
    "predicate (bucket ext:<backbone>:<predicate>) and therefore hidden once the predicate is an open "
    "known finding",
]

HEAD_KEYS = {
    "single_instance": ["SingleInstanceConfmapsHead"],
    "centered_instance": ["CenteredInstanceConfmapsHead"],
    "centroid": ["CentroidConfmapsHead"],
    "bottomup": ["MultiInstanceConfmapsHead", "PartAffinityFieldsHead"],
}
MODEL_TYPES = list(HEAD_KEYS)

# ----------------------------------------------------------------------------------
# case construction helpers (shared by strategies and the enumerator)


def unet_config(max_stride, stem_stride, filters, filters_rate, convs_per_block, up_interpolate, middle_block, in_channels, output_stride, kernel_size=3):
    return {
        "in_channels": in_channels,
        "kernel_size": kernel_size,
        "filters": filters,
        "filters_rate": filters_rate,
        "max_stride": max_stride,
        "stem_stride": stem_stride,
        "middle_block": middle_block,
        "up_interpolate": up_interpolate,
        "stacks": 1,
        "convs_per_block": convs_per_block,
        "output_stride": output_stride,
    }


def tv_config(backbone, stem_patch_stride, max_stride, filters_rate, convs_per_block, up_interpolate, in_channels, output_stride, kernel_size=3):
    d = {
        "in_channels": in_channels,
        "model_type": "tiny",
        "arch": None,
        "kernel_size": kernel_size,
        "filters_rate": filters_rate,
        "convs_per_block": convs_per_block,
        "up_interpolate": up_interpolate,
        "stem_patch_stride": stem_patch_stride,
        "output_stride": output_stride,
        "max_stride": max_stride,
    }
    if backbone == "convnext":
        d["stem_patch_kernel"] = 4
    else:
        d["patch_size"] = [4, 4]
        d["window_size"] = [7, 7]
    return d


def head_configs(model_type, strides, n_parts, n_edges):
    names = [f"p{i}" for i in range(n_parts)]
    if model_type == "single_instance":
        return {"confmaps": {"part_names": names, "sigma": 1.5, "output_stride": strides[0]}}
    if model_type == "centered_instance":
        return {"confmaps": {"part_names": names, "anchor_part": 0, "sigma": 1.5, "output_stride": strides[0]}}
    if model_type == "centroid":
        return {"confmaps": {"anchor_part": 0, "sigma": 1.5, "output_stride": strides[0]}}
    edges = [[names[i], names[i + 1]] for i in range(n_edges)]
    return {
        "confmaps": {"part_names": names, "sigma": 1.5, "output_stride": strides[0], "loss_weight": 1.0},
        "pafs": {"edges": edges, "sigma": 4.0, "output_stride": strides[1], "loss_weight": 1.0},
    }


# Convolution kernel size of the backbone (`kernel_size` of UNetConfig / ConvNextConfig / SwinTConfig:
# UNet encoder + decoder convs, ConvNeXt / Swin-T decoder refine convs).  3 is the only value the repo's
# tests / presets / docs examples use (core); the deviations are drawn in the extended grid.  All of 1..7
# build and run on the unchanged tree for the three families (odd AND even: the stride-1 convs use
# padding="same"), with every stem and convs_per_block 2, 3.
KERNEL_CORE = 3
KERNEL_DEVS = [5, 2, 4, 1]


def kernel_class(k):
    """Coarse class of a kernel size; names the failure bucket of a non-default kernel."""
    if k == KERNEL_CORE:
        return "3"
    if k == 1:
        return "1"
    return "even" if k % 2 == 0 else "odd>3"


# Value-range class of one input frame (see module docstring).  "unit", "const", "zero" stay
# within [0, 1]; "raw255" and "overshoot" hold values above 1.
RANGES = ["unit", "raw255", "overshoot", "const", "zero"]
EXCEEDS_UNIT = ("raw255", "overshoot")
# One choice = the ranges of all frames of the batch (ordered), so that every combination is a
# single draw; the all-unit batch (the only class before the axis existed) keeps extra weight.
RANGE_MIXES = {
    1: [("unit",)] * 4 + [(r,) for r in RANGES],
    2: [("unit", "unit")] * 7 + [(a, b) for a in RANGES for b in RANGES],
}


def case_ranges(case):
    return list(case.get("ranges") or ["unit"] * case["batch"])


def make_case(backbone, bcfg, model_type, strides, n_parts, n_edges, batch, calls, seed, ranges=None):
    ranges = list(ranges) if ranges is not None else ["unit"] * batch
    assert len(ranges) == batch and all(r in RANGES for r in ranges), ranges
    return {
        "backbone_type": backbone,
        "backbone_config": bcfg,
        "model_type": model_type,
        "head_configs": head_configs(model_type, strides, n_parts, n_edges),
        "batch": batch,
        "calls": [list(c) for c in calls],
        "torch_seed": seed,
        "ranges": ranges,
    }


# ----------------------------------------------------------------------------------
# reading a case back (independent of sleap_nn)


def head_strides(case):
    hc = case["head_configs"]
    out = [hc["confmaps"]["output_stride"]]
    if case["model_type"] == "bottomup":
        out.append(hc["pafs"]["output_stride"])
    return out


def head_channels(case):
    hc = case["head_configs"]
    mt = case["model_type"]
    if mt == "centroid":
        return [1]
    n = len(hc["confmaps"]["part_names"])
    if mt == "bottomup":
        return [n, 2 * len(hc["pafs"]["edges"])]
    return [n]


def encoder_stride(case):
    """Factor by which the encoder really reduces the image (what the decoder undoes)."""
    b = case["backbone_config"]
    if case["backbone_type"] == "unet":
        return b["max_stride"]
    return 8 * b["stem_patch_stride"]


def invalid_reason(case):
    """Inputs outside the documented domain -> rejected, not judged."""
    b = case["backbone_config"]
    bb = case["backbone_type"]
    hs = head_strides(case)
    if b["output_stride"] != min(hs):
        return "backbone-output_stride-not-min-head-stride"
    if max(hs) > b["max_stride"]:
        return "head-stride-above-max_stride"
    for h, w in case["calls"]:
        if h <= 0 or w <= 0 or h % b["max_stride"] or w % b["max_stride"]:
            return "size-not-multiple-of-max_stride"
    if bb != "unet" and b["filters_rate"] != 2:
        return "fixed-width-encoder-needs-filters_rate=2"
    if bb == "unet" and b["stem_stride"] is not None and b["stem_stride"] >= b["max_stride"]:
        return "stem_stride-not-below-max_stride"
    return None


# Listed predicates of the extended grid, in evaluation order (first match wins).
PREDICATES = {
    "unet": [
        ("middle_block=false", lambda c: not c["backbone_config"]["middle_block"]),
        ("convs_per_block=1", lambda c: c["backbone_config"]["convs_per_block"] == 1),
        ("head_stride=max_stride", lambda c: max(head_strides(c)) == c["backbone_config"]["max_stride"]),
    ],
    "tv": [
        # for convnext / swint the encoder's real total stride is 8*stem_patch_stride
        ("head_stride=max_stride", lambda c: max(head_strides(c)) >= encoder_stride(c)),
        (
            "size-not-multiple-of-8x-stem_patch_stride",
            lambda c: any(h % encoder_stride(c) or w % encoder_stride(c) for h, w in c["calls"]),
        ),
        # repaired in /repo (562a561): kept LAST so that a failing configuration that also matches an open class is
        # attributed to that class; a failure here is a plain violation (its known_findings entry is 'fixed')
        ("output_stride>stem_patch_stride", lambda c: min(head_strides(c)) > c["backbone_config"]["stem_patch_stride"]),
    ],
}


def listed_predicate(case):
    for name, pred in PREDICATES["unet" if case["backbone_type"] == "unet" else "tv"]:
        if pred(case):
            return name
    return None


def is_core(case):
    """Every option at a value used by the repo's tests, presets or docs examples."""
    b = case["backbone_config"]
    hs = head_strides(case)
    if any(s not in (1, 2, 4) for s in hs):
        return False
    if b["kernel_size"] != KERNEL_CORE:
        return False
    if case["backbone_type"] == "unet":
        return (
            b["middle_block"]
            and b["convs_per_block"] == 2
            and b["stem_stride"] in (None, 2)
            and b["filters"] in (16, 24, 32)
            and max(hs) < b["max_stride"]
        )
    return (
        b["filters_rate"] == 2
        and b["convs_per_block"] == 2
        and b["max_stride"] == 16
        and min(hs) <= b["stem_patch_stride"]
        and all(h % encoder_stride(case) == 0 and w % encoder_stride(case) == 0 for h, w in case["calls"])
    )


def core_but_kernel(case):
    """The configuration would be in the core grid if its kernel size were 3 (one-axis deviation)."""
    c = dict(case)
    c["backbone_config"] = dict(case["backbone_config"], kernel_size=KERNEL_CORE)
    return is_core(c)


# ----------------------------------------------------------------------------------
# evaluate


def _input(case, h, w):
    import torch

    g = torch.Generator()
    g.manual_seed(int(case["torch_seed"]) * 100003 + h * 1009 + w)
    x = torch.rand(case["batch"], case["backbone_config"]["in_channels"], h, w, generator=g)
    # per-frame value range; the extra draws come from a second generator so that the "unit"
    # frames are the tensors older replay files were made with
    for f, rng in enumerate(case_ranges(case)):
        if rng == "unit":
            continue
        g2 = torch.Generator()
        g2.manual_seed(int(case["torch_seed"]) * 100003 + h * 1009 + w + 7919 * (f + 1))
        if rng == "raw255":
            # a uint8 image cast to float32 without the division by 255
            x[f] = torch.floor(x[f] * 256.0).clamp_(0.0, 255.0)
        elif rng == "overshoot":
            # 1..4 pixels up to 0.1 above 1 and as many up to 0.05 below 0
            flat = x[f].reshape(-1)
            k = int(torch.randint(1, 5, (1,), generator=g2))
            idx = torch.randperm(flat.numel(), generator=g2)[: 2 * k]
            amt = torch.rand(2 * k, generator=g2)
            flat[idx[:k]] = 1.0 + 0.005 + 0.095 * amt[:k]
            flat[idx[k:]] = -0.05 * amt[k:]
        elif rng == "const":
            x[f] = float(torch.rand(1, generator=g2))
        elif rng == "zero":
            x[f] = 0.0
        else:
            raise ValueError(f"unknown range class {rng!r}")
    return x


def _pipeline_shapes(case, h, w):
    """Trailing (C, h', w') shape of the targets the data pipeline makes for each head."""
    import torch
    from sleap_nn.data.confidence_maps import generate_confmaps, generate_multiconfmaps
    from sleap_nn.data.edge_maps import generate_pafs

    mt = case["model_type"]
    hc = case["head_configs"]
    s = hc["confmaps"]["output_stride"]
    n_inst = 2
    if mt == "centroid":
        pts = torch.tensor([[[w * 0.3, h * 0.4], [w * 0.6, h * 0.7]]], dtype=torch.float32)  # (1, n_inst, 2)
        cm = generate_multiconfmaps(pts, img_hw=(h, w), num_instances=n_inst, sigma=1.5, output_stride=s, is_centroids=True)
        return [tuple(cm.shape[-3:])]
    n = len(hc["confmaps"]["part_names"])
    inst = torch.tensor(
        [[[[w * (k + 1) / (n + 1), h * (i + 1) / (n_inst + 1)] for k in range(n)] for i in range(n_inst)]],
        dtype=torch.float32,
    )  # (1, n_inst, n, 2)
    if mt in ("single_instance", "centered_instance"):
        cm = generate_confmaps(inst[:, 0], img_hw=(h, w), sigma=1.5, output_stride=s)
        return [tuple(cm.shape[-3:])]
    cm = generate_multiconfmaps(inst, img_hw=(h, w), num_instances=n_inst, sigma=1.5, output_stride=s, is_centroids=False)
    names = hc["confmaps"]["part_names"]
    edge_inds = [[names.index(a), names.index(b)] for a, b in hc["pafs"]["edges"]]
    pafs = generate_pafs(
        inst,
        img_hw=(h, w),
        sigma=hc["pafs"]["sigma"],
        output_stride=hc["pafs"]["output_stride"],
        edge_inds=torch.Tensor(edge_inds),
        flatten_channels=True,
    )
    return [tuple(cm.shape[-3:]), tuple(pafs.shape[-3:])]


def evaluate(case):
    import torch
    from omegaconf import OmegaConf
    from sleap_nn.architectures.model import Model

    res = Result()
    bb = case["backbone_type"]
    b = case["backbone_config"]
    mt = case["model_type"]
    hs = head_strides(case)
    chans = head_channels(case)
    keys = HEAD_KEYS[mt]
    sizes = [tuple(c) for c in case["calls"]]
    ranges = case_ranges(case)
    assert len(ranges) == case["batch"], "harness: one range class per frame"

    why = invalid_reason(case)
    if why:
        res.rejected = True
        res.cls(f"rejected:{why}", f"backbone={bb}")
        return res

    pred = listed_predicate(case)
    core = is_core(case)
    stem = b.get("stem_stride") if bb == "unet" else (4 if b["stem_patch_stride"] == 4 else None)
    res.cls(
        f"backbone={bb}",
        f"head={mt}",
        "grid=core" if core else ("grid=ext:" + (pred or "unlisted")),
        f"{bb}:stem={stem}",
        f"{bb}:max_stride={b['max_stride']}",
        "head_strides=" + ("equal" if len(set(hs)) == 1 else "unequal") + f":n={len(hs)}",
        f"min_head_stride={min(hs)}",
        f"up_interpolate={b['up_interpolate']}",
        f"filters_rate={b['filters_rate']}",
        f"in_channels={b['in_channels']}",
        f"batch={case['batch']}",
        "calls=" + ("same-size" if len(set(sizes)) == 1 else "mixed-sizes") + f":n={len(sizes)}",
    )
    if stem and len(set(hs)) > 1:
        res.cls("stem+unequal-head-strides")
    # kernel-size axis: value, parity class per backbone, and the combinations with stem / convs_per_block
    ksz = b["kernel_size"]
    kcls = kernel_class(ksz)
    res.cls(f"kernel_size={ksz}", f"{bb}:kernel={kcls}")
    if ksz != KERNEL_CORE:
        res.cls(
            f"kernel!=3:{kcls}:judged" if not pred else f"kernel!=3:{kcls}:listed-predicate",
            f"kernel!=3+stem={stem}",
            f"kernel!=3+convs_per_block={b['convs_per_block']}",
            "kernel!=3:" + ("one-axis-deviation" if core_but_kernel(case) else "combined-deviation"),
        )
    # value-range axis: the (unordered) set of frame ranges, and for batches the mix class
    res.cls("ranges=" + "+".join(sorted(set(ranges))) + f":batch={case['batch']}")
    for r in sorted(set(ranges)):
        res.cls(f"frame-range={r}")
    if case["batch"] > 1:
        above = [r in EXCEEDS_UNIT for r in ranges]
        res.cls(
            "range-mix="
            + ("uniform" if len(set(ranges)) == 1 else "mixed")
            + (":within-unit+exceeds-unit" if any(above) and not all(above) else "")
        )

    def fail(bucket, msg):
        # a non-default kernel size is part of the bucket: same clause, other input class
        ktag = "" if ksz == KERNEL_CORE else f":kernel_size={kcls}"
        res.fail(f"ext:{bb}:{pred}" if pred else f"{bucket}:{bb}{ktag}", f"{msg} | {bucket} | cfg={b} heads={mt}{hs} calls={sizes}")

    def call(prefix, fn, *a):
        try:
            return fn(*a)
        except Exception as e:  # noqa: BLE001
            bk = runner.exc_bucket(prefix, e)
            if bk is None:
                raise
            # drop the line-independent part only: '<prefix>:raise:<Exc>:<file>:<func>'
            fail(bk, f"{type(e).__name__}: {str(e)[:200]}")
            return runner.FAILED

    res.n_evals = 0
    torch.manual_seed(int(case["torch_seed"]))

    def build():
        m = Model(
            backbone_type=bb,
            backbone_config=OmegaConf.create(b),
            head_configs=OmegaConf.create(case["head_configs"]),
            input_expand_channels=b["in_channels"],
            model_type=mt,
        )
        m.eval()
        return m

    model = call("build", build)
    if model is runner.FAILED:
        res.n_evals = 1
        return res

    res.nontrivial = bool(stem) or len(set(hs)) > 1 or not b["up_interpolate"] or len(set(sizes)) > 1

    def forward(x):
        with torch.no_grad():
            out = model(x)
        return out

    first = {}  # size -> (call index, outputs)
    for i, (h, w) in enumerate(sizes):
        x = _input(case, h, w)
        seen = (h, w) in first
        out = call("history" if seen else "forward", forward, x)
        res.n_evals += 1
        if out is runner.FAILED:
            break
        # ---- (1) shape contract
        if not isinstance(out, dict) or sorted(out.keys()) != sorted(keys):
            fail("shape:keys", f"call {i}: output keys {sorted(out) if isinstance(out, dict) else type(out)} != {sorted(keys)}")
            break
        try:
            pipe = _pipeline_shapes(case, h, w)
        except Exception as e:  # noqa: BLE001  (target generation is C01/C05's subject)
            pipe = None
            res.cls("pipeline-shape-unavailable")
        for k, (key, s, c) in enumerate(zip(keys, hs, chans)):
            got = tuple(out[key].shape)
            want = (case["batch"], c, h // s, w // s)
            if got[1] != want[1]:
                fail("shape:channels", f"call {i} {key}: shape {got}, contract {want}")
            elif got != want:
                fail("shape:spatial", f"call {i} {key}: shape {got}, contract {want} (input {h}x{w}, stride {s})")
            if pipe is not None and got[1:] != pipe[k]:
                fail("shape:pipeline", f"call {i} {key}: model output {got[1:]} vs data-pipeline target {pipe[k]}")
        # ---- (2) determinism / independence of earlier calls
        if seen:
            j, ref = first[(h, w)]
            # exact: identical tensor, identical module, one thread
            bad = [key for key in keys if out[key].shape != ref[key].shape or not torch.equal(out[key], ref[key])]
            if bad:
                between = set(sizes[j + 1 : i]) - {(h, w)}
                d = max(
                    (float((out[key] - ref[key]).abs().max()) if out[key].shape == ref[key].shape else float("inf"))
                    for key in bad
                )
                fail(
                    "eval:history-after-other-size" if between else "eval:same-input-twice",
                    f"call {i} ({h}x{w}) differs from call {j} with the same input: max|diff|={d:g} heads={bad}",
                )
        else:
            first[(h, w)] = (i, out)

    # ---- (2b) a frame inside a batch equals the frame alone
    #      The batch-mates of a frame may be of any value range (ranges are drawn per frame); the
    #      failing clause is named after the mix so that a dependence on a batch-wide statistic of
    #      the input (max, mean, dtype/range sniffing) gets its own bucket.
    if len(set(ranges)) > 1:
        above = [r in EXCEEDS_UNIT for r in ranges]
        bi_bucket = "eval:batch-independence:mixed-value-ranges" + (":within-unit+exceeds-unit" if any(above) and not all(above) else "")
    elif ranges[0] != "unit":
        bi_bucket = "eval:batch-independence:non-unit-value-range"
    else:
        bi_bucket = "eval:batch-independence"
    if case["batch"] > 1 and sizes and sizes[0] in first:
        h, w = sizes[0]
        x = _input(case, h, w)
        _, ref = first[(h, w)]
        for f in range(case["batch"]):
            out = call("single-frame", forward, x[f : f + 1])
            res.n_evals += 1
            if out is runner.FAILED:
                break
            for key in keys:
                a, r = out[key][0], ref[key][f]
                if a.shape != r.shape:
                    fail(bi_bucket, f"frame {f} alone has shape {tuple(a.shape)}, in batch {tuple(r.shape)}")
                    continue
                d = float((a - r).abs().max())
                # float32 convolutions may pick another algorithm for another batch size, which changes
                # the last bits.  Measured on the unchanged tree (core+ext strategies, 3 seeds, ~6000
                # frame/head comparisons): max d/(1+max|ref|) = 2.3e-7 for frames within about [0, 1]
                # and 8.7e-7 for raw 0..255 frames (rounding error follows the activations, which are
                # ~255x larger there, while the output is not) -> 1e-5 resp. 1e-4, > 40x margin each.
                eps = 1e-4 if ranges[f] == "raw255" else 1e-5
                tol = eps * (1.0 + float(r.abs().max()))
                if not d <= tol:
                    fail(
                        bi_bucket,
                        f"{key}: frame {f} (range {ranges[f]}) alone vs in batch of {case['batch']} (ranges {ranges}): "
                        f"max|diff|={d:g} > {tol:g}",
                    )
    res.n_evals = max(res.n_evals, 1)
    return res


# ----------------------------------------------------------------------------------
# call-sequence patterns (multipliers of backbone_config.max_stride)

PATTERNS = {
    "AA": lambda A, B: [A, A],
    "ABA": lambda A, B: [A, B, A],
    "ABBA": lambda A, B: [A, B, B, A],
    "AB": lambda A, B: [A, B],
    "A": lambda A, B: [A],
}


def _sizes(unit, mults):
    return [[a * unit, b * unit] for a, b in mults]


# ----------------------------------------------------------------------------------
# Hypothesis strategies (quick + thorough sampled parts)

STRIDES = [1, 2, 4, 8, 16, 32]


def _st():
    from hypothesis import strategies as st

    return st


def _draw_common(draw, st, mults_pool=None):
    pattern = draw(st.sampled_from(["ABA", "ABA", "AA", "ABBA", "AB"]))
    pool = mults_pool or [(a, b) for a in (1, 2, 3) for b in (1, 2, 3)]
    A = draw(st.sampled_from(pool))
    B = draw(st.sampled_from([m for m in pool if m != A]))
    mults = PATTERNS[pattern](A, B)
    batch = draw(st.sampled_from([1, 2, 2]))
    n_parts = draw(st.integers(2, 4))
    n_edges = draw(st.integers(1, n_parts - 1))
    seed = draw(st.integers(0, 2**20))
    ranges = draw(st.sampled_from(RANGE_MIXES[batch]))
    return mults, (batch, ranges), n_parts, n_edges, seed


def _draw_heads(draw, st, allowed, stride_class=None):
    """(model_type, strides) with head strides from `allowed`; class label drawn first."""
    mt = draw(st.sampled_from(["single_instance", "centered_instance", "centroid", "bottomup", "bottomup", "bottomup"]))
    if mt != "bottomup":
        return mt, [draw(st.sampled_from(allowed))]
    cls = stride_class or draw(st.sampled_from(["equal", "adjacent", "far", "any"]))
    s1 = draw(st.sampled_from(allowed))
    if cls == "equal" or len(allowed) == 1:
        return mt, [s1, s1]
    others = [s for s in allowed if s != s1]
    if cls == "adjacent":
        near = [s for s in others if s in (s1 * 2, s1 // 2)]
        others = near or others
    elif cls == "far":
        far = [s for s in others if s >= s1 * 4 or s * 4 <= s1]
        others = far or others
    s2 = draw(st.sampled_from(others))
    return mt, [s1, s2]


def core_strategy(weights):
    st = _st()

    @st.composite
    def case(draw):
        bb = draw(st.sampled_from(weights))
        if bb == "unet":
            ms = draw(st.sampled_from([8, 16, 16, 32]))
            stem = draw(st.sampled_from([None, 2, 2]))
            filters = draw(st.sampled_from([16, 16, 24, 32] if ms < 32 else [16, 16, 24]))
            fr = draw(st.sampled_from([1.5, 2]))
            upi = draw(st.booleans())
            inch = draw(st.sampled_from([1, 1, 3]))
            mt, hs = _draw_heads(draw, st, [s for s in (1, 2, 4) if s < ms])
            if draw(st.integers(0, 7)) == 0:
                # joint class "head-stride gap as deep as the stem-shortened encoder": a stem leaves log2(max_stride /
                # stem_stride) down blocks; two heads whose strides are that many levels apart
                ms, stem, mt = 8, 2, "bottomup"
                hs = list(draw(st.sampled_from([[1, 4], [4, 1]])))
                filters = draw(st.sampled_from([16, 16, 24, 32]))
            mults, (batch, ranges), n_parts, n_edges, seed = _draw_common(draw, st)
            bcfg = unet_config(ms, stem, filters, fr, 2, upi, True, inch, min(hs))
            return make_case(bb, bcfg, mt, hs, n_parts, n_edges, batch, _sizes(ms, mults), seed, ranges)
        stemp = draw(st.sampled_from([2, 4]))
        upi = draw(st.booleans())
        inch = draw(st.sampled_from([1, 1, 3]))
        # at least one head at or below the stem stride (see predicate output_stride>stem_patch_stride)
        mt, hs = _draw_heads(draw, st, [1, 2, 4])
        if min(hs) > stemp:
            hs[draw(st.integers(0, len(hs) - 1))] = draw(st.sampled_from([s for s in (1, 2, 4) if s <= stemp]))
        # tests use stem_patch_stride=4 with max_stride=16 and 192x192 inputs: multiples of 32
        pool = [(1, 1), (1, 2), (2, 1), (2, 2), (1, 3), (3, 1)] if stemp == 2 else [(2, 2), (2, 4), (4, 2)]
        mults, (batch, ranges), n_parts, n_edges, seed = _draw_common(draw, st, pool)
        bcfg = tv_config(bb, stemp, 16, 2, 2, upi, inch, min(hs))
        return make_case(bb, bcfg, mt, hs, n_parts, n_edges, batch, _sizes(16, mults), seed, ranges)

    return case()


UNET_DEVS = [
    "middle_block=false",
    "convs_per_block=1",
    "convs_per_block=3",
    "head_stride=max_stride",
    "head_stride>=8",
    "stem_stride=4",
    "filters=8",
    "kernel_size!=3",
]
TV_DEVS = [
    "filters_rate=1.5",
    "head_stride=max_stride",
    "output_stride>stem_patch_stride",
    "odd-multiple-of-16-with-stem4",
    "convs_per_block!=2",
    "head_stride>=8",
    "max_stride=32-with-stem4",
    "kernel_size!=3",
]
# Deviation class "kernel_size!=3": (kernel, stem, convs_per_block, mode) is ONE choice.  mode "one-axis": every
# other option at a core value; "combined": together with a stem / convs_per_block deviation (convs_per_block=1 of
# the unet is a listed predicate whose failures are not judged, so it is left to the `rare` draws).
KERNEL_UNET = [(k, stem, 2, "one-axis") for k in KERNEL_DEVS for stem in (None, 2)] + [
    (k, stem, cpb, "combined") for k in KERNEL_DEVS for stem, cpb in ((4, 2), (None, 3), (2, 3), (4, 3))
]
KERNEL_TV = [(k, stemp, 2, "one-axis") for k in KERNEL_DEVS for stemp in (2, 4)] + [
    (k, stemp, cpb, "combined") for k in KERNEL_DEVS for stemp in (2, 4) for cpb in (1, 3)
]
# kernel size of the cases of every other deviation class: mostly 3
KERNEL_RARE = [KERNEL_CORE] * 12 + KERNEL_DEVS


def ext_strategy(weights):
    """Extended grid: the deviation class is drawn first, the rest mostly at core values."""
    st = _st()

    @st.composite
    def case(draw):
        bb = draw(st.sampled_from(weights))
        rare = lambda core_vals, ext_vals: draw(st.sampled_from(list(core_vals) * 4 + list(ext_vals)))  # noqa: E731
        # Kernel-axis choices are indexed by a wide integer draw: `sampled_from` over a short list is very lumpy in
        # a 140-example run (measured: kernel 1 drawn 48x and kernel 2 never), a 16-bit integer modulo the list
        # length is not.
        pick = lambda choices: choices[draw(st.integers(0, 2**16 - 1)) % len(choices)]  # noqa: E731
        if bb == "unet":
            dev = draw(st.sampled_from(UNET_DEVS))
            ms = draw(st.sampled_from([8, 16, 32]))
            if dev == "head_stride>=8" and ms == 8:
                ms = 16
            if dev == "kernel_size!=3":
                ksz, stem, cpb, kmode = pick(KERNEL_UNET)
                one_axis = kmode == "one-axis"
                filters = draw(st.sampled_from([16, 24] if one_axis else [8, 8, 16, 24]))
                mb = True
            else:
                ksz, one_axis = pick(KERNEL_RARE), False
                stem = 4 if dev == "stem_stride=4" else rare([None, 2], [4])
                filters = 8 if dev == "filters=8" else draw(st.sampled_from([8, 8, 16, 24]))
                mb = False if dev == "middle_block=false" else rare([True], [False])
                cpb = {"convs_per_block=1": 1, "convs_per_block=3": 3}.get(dev) or rare([2], [1, 3])
            fr = draw(st.sampled_from([1.5, 2]))
            upi = draw(st.booleans())
            inch = draw(st.sampled_from([1, 3]))
            allowed = [s for s in ((1, 2, 4) if one_axis else STRIDES) if s < ms]
            mt, hs = _draw_heads(draw, st, allowed)
            k = draw(st.integers(0, len(hs) - 1))
            if dev == "head_stride=max_stride":
                hs[k] = ms
            elif dev == "head_stride>=8":
                hs[k] = draw(st.sampled_from([s for s in allowed if s >= 8]))
            mults, (batch, ranges), n_parts, n_edges, seed = _draw_common(draw, st)
            bcfg = unet_config(ms, stem, filters, fr, cpb, upi, mb, inch, min(hs), ksz)
            return make_case(bb, bcfg, mt, hs, n_parts, n_edges, batch, _sizes(ms, mults), seed, ranges)
        dev = draw(st.sampled_from(TV_DEVS))
        ms = 32 if dev == "max_stride=32-with-stem4" else 16
        fr = 1.5 if dev == "filters_rate=1.5" else 2
        if dev == "kernel_size!=3":
            ksz, stemp, cpb, _ = pick(KERNEL_TV)
        else:
            ksz = pick(KERNEL_RARE)
            stemp = 4 if "stem4" in dev else draw(st.sampled_from([2, 4]))
            cpb = draw(st.sampled_from([1, 3])) if dev == "convs_per_block!=2" else rare([2], [1, 3])
        upi = draw(st.booleans())
        inch = draw(st.sampled_from([1, 3]))
        mt, hs = _draw_heads(draw, st, [1, 2, 4, 8, 16] if dev in ("head_stride>=8",) else [1, 2, 4])
        k = draw(st.integers(0, len(hs) - 1))
        if dev == "head_stride=max_stride":
            stemp = 2
            hs[k] = 16
        elif dev == "output_stride>stem_patch_stride":
            hs = [draw(st.sampled_from([s for s in (4, 8) if s > stemp])) for _ in hs]
        elif dev == "head_stride>=8":
            hs[k] = draw(st.sampled_from([8, 16] if stemp == 4 else [8]))
            hs[k - 1] = min(hs[k - 1], stemp) if len(hs) > 1 else hs[k - 1]
        elif min(hs) > stemp:
            hs[k] = stemp
        unit = ms
        if dev == "odd-multiple-of-16-with-stem4":
            pool = [(1, 1), (1, 2), (3, 2), (2, 1), (3, 3)]
        elif stemp == 4 and ms == 16:
            pool = [(2, 2), (2, 4), (4, 2)]
        elif ms == 32:
            pool = [(1, 1), (1, 2), (2, 1)]
        else:
            pool = [(1, 1), (1, 2), (2, 1), (2, 2), (1, 3), (3, 1)]
        mults, (batch, ranges), n_parts, n_edges, seed = _draw_common(draw, st, pool)
        bcfg = tv_config(bb, stemp, ms, fr, cpb, upi, inch, min(hs), ksz)
        return make_case(bb, bcfg, mt, hs, n_parts, n_edges, batch, _sizes(unit, mults), seed, ranges)

    return case()


# ----------------------------------------------------------------------------------
# exhaustive enumeration of the configuration grid (thorough tier)

MULT_SEQS = [
    [(1, 1), (2, 1), (1, 1)],
    [(1, 2), (1, 2)],
    [(2, 2), (1, 3), (2, 2)],
    [(3, 1), (1, 1), (1, 1), (3, 1)],
    [(2, 3), (3, 2), (2, 3)],
    [(1, 3), (3, 3), (1, 3)],
    [(2, 1), (2, 2)],
    [(3, 3), (1, 2), (3, 3)],
    [(3, 2), (3, 2), (2, 1)],
]
MULT_SEQS_SMALL = [q for q in MULT_SEQS if max(max(m) for m in q) <= 2] + [[(2, 2), (1, 2), (2, 2)], [(1, 2), (2, 1), (2, 1), (1, 2)]]
TV_SEQS_EVEN = [[(2, 2), (2, 4), (2, 2)], [(2, 4), (2, 4)], [(4, 2), (2, 2), (4, 2)]]


def _head_combos(allowed):
    out = []
    for mt in ("single_instance", "centered_instance", "centroid"):
        out += [(mt, [s]) for s in allowed]
    out += [("bottomup", [a, b]) for a in allowed for b in allowed]
    return out


def _grid_ranges(n):
    """Frame value ranges of grid configuration n (batch = 1 + n % 2): rotates through RANGE_MIXES."""
    mixes = RANGE_MIXES[1 + n % 2]
    return mixes[(n // 2) % len(mixes)]


def grid_cases(tier):
    """Every configuration of the DESIGN grid once; call sequence, batch, frame value ranges,
    skeleton size and seed rotate with the index.  Order is shuffled with a fixed seed so that the modulo-16
    sharding spreads cheap (failing-fast / rejected) and expensive configurations evenly."""
    cases = []
    n = 0
    for ms, stem, filters, fr, cpb, upi, mb, inch in itertools.product(
        [8, 16, 32], [None, 2, 4], [8, 16, 24, 32], [1.5, 2], [1, 2, 3], [True, False], [True, False], [1, 3]
    ):
        for mt, hs in _head_combos([s for s in STRIDES if s <= ms]):
            n += 1
            bcfg = unet_config(ms, stem, filters, fr, cpb, upi, mb, inch, min(hs))
            n_parts = 2 + n % 3
            # max_stride 32: multiples <= 2 (64 px) to bound the cost of the widest models
            seqs = MULT_SEQS_SMALL if ms == 32 else MULT_SEQS
            case = make_case("unet", bcfg, mt, hs, n_parts, 1 + n % (n_parts - 1), 1 + n % 2, _sizes(ms, seqs[n % len(seqs)]), n, _grid_ranges(n))
            # configurations of a listed predicate fail whatever the width: keep the two narrow widths only
            if filters > 16 and listed_predicate(case):
                continue
            cases.append(case)
    for bb, stemp, fr, cpb, upi, inch in itertools.product(["convnext", "swint"], [2, 4], [1.5, 2], [1, 2, 3], [True, False], [1, 3]):
        for ms in ([16] if stemp == 2 else [16, 32]):
            for mt, hs in _head_combos([1, 2, 4, 8, 16]):
                n += 1
                bcfg = tv_config(bb, stemp, ms, fr, cpb, upi, inch, min(hs))
                n_parts = 2 + n % 3
                if stemp == 4 and ms == 16 and n % 4:
                    seq = TV_SEQS_EVEN[n % len(TV_SEQS_EVEN)]  # multiples of 32
                elif ms == 32:
                    seq = MULT_SEQS[n % 2 * 6]  # (1,1),(2,1),(1,1) / (2,1),(2,2)
                else:
                    seq = MULT_SEQS[n % len(MULT_SEQS)]
                cases.append(make_case(bb, bcfg, mt, hs, n_parts, 1 + n % (n_parts - 1), 1 + n % 2, _sizes(ms, seq), n, _grid_ranges(n)))
    # kernel-size sub-grid (the grid above is all kernel_size=3): every non-default kernel with every stem,
    # convs_per_block 2 / 3 (unet; 1 is a listed predicate) resp. 1 / 2 / 3 (convnext, swint), up_interpolate and
    # max_stride at one narrow width, heads at the strides 1, 2, 4 (single_instance: each; bottomup: every ordered pair)
    for ksz, ms, stem, cpb, upi in itertools.product(KERNEL_DEVS, [8, 16, 32], [None, 2, 4], [2, 3], [True, False]):
        allowed = [s for s in (1, 2, 4) if s < ms]
        for mt, hs in [("single_instance", [a]) for a in allowed] + [("bottomup", [a, b]) for a in allowed for b in allowed]:
            n += 1
            bcfg = unet_config(ms, stem, 8, [1.5, 2][n % 2], cpb, upi, True, 1 + 2 * (n % 2), min(hs), ksz)
            n_parts = 2 + n % 3
            seqs = MULT_SEQS_SMALL if ms == 32 else MULT_SEQS
            cases.append(make_case("unet", bcfg, mt, hs, n_parts, 1 + n % (n_parts - 1), 1 + n % 2, _sizes(ms, seqs[n % len(seqs)]), n, _grid_ranges(n)))
    for ksz, bb, stemp, cpb, upi in itertools.product(KERNEL_DEVS, ["convnext", "swint"], [2, 4], [1, 2, 3], [True, False]):
        allowed = [s for s in (1, 2, 4) if s <= stemp]
        for mt, hs in [("single_instance", [a]) for a in allowed] + [("bottomup", [a, b]) for a in (1, 2, 4) for b in (1, 2, 4) if min(a, b) <= stemp]:
            n += 1
            bcfg = tv_config(bb, stemp, 16, 2, cpb, upi, 1 + 2 * (n % 2), min(hs), ksz)
            n_parts = 2 + n % 3
            seq = TV_SEQS_EVEN[n % len(TV_SEQS_EVEN)] if stemp == 4 else MULT_SEQS[n % len(MULT_SEQS)]
            cases.append(make_case(bb, bcfg, mt, hs, n_parts, 1 + n % (n_parts - 1), 1 + n % 2, _sizes(16, seq), n, _grid_ranges(n)))
    random.Random(14).shuffle(cases)
    return cases


def enum_grid(tier):
    yield from grid_cases(tier)


# ----------------------------------------------------------------------------------

QUICK_W = ["unet"] * 6 + ["convnext"] * 1 + ["swint"] * 1
THOROUGH_W = ["unet"] * 4 + ["convnext"] * 2 + ["swint"] * 2


def parts(tier):
    w = QUICK_W if tier == "quick" else THOROUGH_W
    ps = [
        Part(
            name="core",
            evaluate=evaluate,
            strategy=lambda: core_strategy(w),
            budget={"quick": 230, "thorough": 3200},
            shards={"quick": 1, "thorough": 16},
            min_nontrivial={"quick": 60, "thorough": 800},
        ),
        Part(
            name="ext",
            evaluate=evaluate,
            strategy=lambda: ext_strategy(w),
            budget={"quick": 140, "thorough": 1600},
            shards={"quick": 1, "thorough": 16},
            min_nontrivial={"quick": 25, "thorough": 250},
        ),
    ]
    if tier == "thorough":
        ps.append(
            Part(
                name="grid",
                evaluate=evaluate,
                enumerate=enum_grid,
                shards={"thorough": 16},
                exhaustive={"thorough": True},
                min_nontrivial={"thorough": 15000},
            )
        )
    return ps


def extra_coverage():
    return {
        "exhaustive_domain": "thorough part 'grid': every configuration of unet {max_stride 8,16,32} x {stem_stride None,2,4} x "
        "{filters 8,16,24,32} x {filters_rate 1.5,2} x {convs_per_block 1,2,3} x up_interpolate x middle_block x "
        "{in_channels 1,3} (configurations matching a listed unet predicate: filters 8,16 only) and convnext/swint tiny {stem_patch_stride 2,4} x {max_stride 16 | 16,32} x {filters_rate 1.5,2} x "
        "{convs_per_block 1,2,3} x up_interpolate x {in_channels 1,3}, each x {single_instance, centered_instance, centroid: "
        "every head stride <= max_stride; bottomup: every ordered pair}; one call sequence / batch size / seed per "
        "configuration (rotating), not the product with all input sizes; all of the above at kernel_size 3, plus the "
        "kernel-size sub-grid kernel_size {5,2,4,1} x unet {max_stride 8,16,32} x {stem_stride None,2,4} x {convs_per_block "
        "2,3} x up_interpolate (filters 8, middle_block) resp. convnext/swint {stem_patch_stride 2,4} x {convs_per_block "
        "1,2,3} x up_interpolate, each x {single_instance at every head stride of 1,2,4; bottomup at every ordered pair}",
        "kernel_sizes": [KERNEL_CORE] + KERNEL_DEVS,
        "listed_predicates": {k: [n for n, _ in v] for k, v in PREDICATES.items()},
    }


if __name__ == "__main__":
    runner.main(__name__)
