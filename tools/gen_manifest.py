#!/usr/bin/env python3
"""Regenerate MANIFEST.json from tools/manifest_src.json (one entry per claimed check)."""
import json, os
HERE = os.path.dirname(os.path.dirname(os.path.abspath(__file__)))
src = json.load(open(os.path.join(HERE, "tools", "manifest_src.json")))
checks = []
for c in src["checks"]:
    pid = c["property_id"]
    checks.append({
        "property_id": pid,
        "quick_cmd": f"./run_check.sh {pid} quick",
        "thorough_cmd": f"./run_check.sh {pid} thorough",
        "evidence_file": f"evidence/{pid}.json",
        "replay_cmd_template": f"./run_check.sh {pid} quick --replay {{path}}",
        "engine": "vlib",
        "level_claimed": {"category": c.get("category", "exploration"), "text": c["text"], "design_ref": c.get("design_ref", f"DESIGN.md section 3 ({pid})")},
        "level_note": c["note"],
        "technique": c["technique"],
    })
claimed = {c["property_id"] for c in checks}
props = [json.loads(l)["id"] for l in open(os.path.join(HERE, "properties.jsonl"))]
na = [n for n in src.get("not_applicable", []) if n["property_id"] not in claimed]
for p in props:
    if p not in claimed and p not in {n["property_id"] for n in na}:
        na.append({"property_id": p, "reason": "check not built yet in this session (work in progress; planned in DESIGN.md section 3)"})
m = {
    "version": 1,
    "setup_cmd": src["setup_cmd"],
    "hooks": src["hooks"],
    "engines": src["engines"],
    "checks": checks,
    "notes": src["notes"],
    "not_applicable": na,
}
json.dump(m, open(os.path.join(HERE, "MANIFEST.json"), "w"), indent=1)
print(f"{len(checks)} checks, {len(na)} not_applicable")
