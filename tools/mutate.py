#!/usr/bin/env python3
"""Sensitivity matrix: apply each mutant of mutants/<Cxx>.json to a scratch copy of the
package and run the check's quick tier against it (VERIF_REPO).  A mutant is
{name, file, old, new}: one exact string replacement (old must occur exactly once unless
"count" is given).  Results are appended to mutants/RESULTS.md.  Scratch copies live under
/var/tmp/vp-scratch and are removed as soon as the run ends.
"""
import argparse, json, os, shutil, subprocess, sys, tempfile, time
from concurrent.futures import ThreadPoolExecutor

HERE = os.path.dirname(os.path.dirname(os.path.abspath(__file__)))
SCRATCH = "/var/tmp/vp-scratch"


def run_one(pid, m, tier, seed, extra):
    os.makedirs(SCRATCH, exist_ok=True)
    d = tempfile.mkdtemp(prefix=f"mut-{pid}-", dir=SCRATCH)
    try:
        shutil.copytree("/repo/sleap_nn", os.path.join(d, "sleap_nn"), ignore=shutil.ignore_patterns("__pycache__"))
        edits = m.get("edits") or [m]
        for e in edits:
            p = os.path.join(d, e["file"])
            s = open(p).read()
            cnt = s.count(e["old"])
            if cnt != e.get("count", 1):
                return m["name"], "BAD-MUTANT", f"'old' occurs {cnt}x in {e['file']}", 0.0
            s = s.replace(e["old"], e["new"])
            open(p, "w").write(s)
        t0 = time.time()
        env = dict(os.environ, VERIF_REPO=d, VERIF_SEED=str(seed))
        r = subprocess.run([os.path.join(HERE, "run_check.sh"), pid, tier, "--no-evidence"] + extra, env=env, capture_output=True, text=True)
        dt = time.time() - t0
        viol = [l for l in r.stdout.splitlines() if l.startswith("VIOLATION")]
        buckets = [l.strip() for l in r.stdout.splitlines() if l.strip().startswith("bucket=")]
        if r.returncode == 1 and viol:
            status = "KILLED"
        elif r.returncode == 0:
            status = "SURVIVED"
        else:
            status = f"ERROR rc={r.returncode}"
        detail = (buckets[0][:160] if buckets else (r.stderr.strip().splitlines() or [""])[-1][:200])
        return m["name"], status, detail, dt
    finally:
        shutil.rmtree(d, ignore_errors=True)


def main():
    ap = argparse.ArgumentParser()
    ap.add_argument("pid")
    ap.add_argument("--tier", default="quick")
    ap.add_argument("--seed", type=int, default=1)
    ap.add_argument("--only", default=None)
    ap.add_argument("-j", type=int, default=6)
    ap.add_argument("--file", default=None, help="alternative mutant json")
    ap.add_argument("extra", nargs="*")
    a, unknown = ap.parse_known_args()
    a.extra = list(a.extra) + [u for u in unknown if u != "--"]
    src = a.file or os.path.join(HERE, "mutants", f"{a.pid}.json")
    muts = json.load(open(src))
    if a.only:
        muts = [m for m in muts if m["name"] in a.only.split(",")]
    with ThreadPoolExecutor(a.j) as ex:
        res = list(ex.map(lambda m: run_one(a.pid, m, a.tier, a.seed, a.extra), muts))
    lines = []
    for name, status, detail, dt in res:
        line = f"| {a.pid} | {name} | {status} | {dt:.0f}s | {detail.replace('|', '/')} |"
        print(line)
        lines.append(line)
    if not a.only and not a.file and not a.extra:
        path = os.path.join(HERE, "mutants", "RESULTS.md")
        old = open(path).read().splitlines() if os.path.exists(path) else ["| property | mutant | result (quick tier) | time | first bucket |", "|---|---|---|---|---|"]
        old = [l for l in old if not l.startswith(f"| {a.pid} |")]
        open(path, "w").write("\n".join(old + lines) + "\n")
    sys.exit(0 if all(s == "KILLED" for _, s, _, _ in res) else 1)


if __name__ == "__main__":
    main()
