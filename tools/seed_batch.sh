#!/bin/bash
# usage: tools/seed_batch.sh <name> ...   name = C05 (round 1: /tmp/seed-C05-out -> s01-C05) or r2-C05 (-> s02-C05)
# confirm + run quick; log to /var/tmp/seedlog_<id>.txt
cd "$(dirname "$0")/.."
for name in "$@"; do
  c="${name##*-}"; round="01"; case "$name" in r2-*) round="02";; r3-*) round="03";; r4-*) round="04";; r5-*) round="05";; r6-*) round="06";; r7-*) round="07";; r8-*) round="08";; esac
  id="s${round}-$c"; [ -n "${SEED_ID:-}" ] && id="$SEED_ID"
  python3 tools/seeded.py confirm $id $c /tmp/seed-$name-out > /var/tmp/seedlog_$id.txt 2>&1
  if grep -q '"confirmed": true' /var/tmp/seedlog_$id.txt; then
    python3 tools/seeded.py run $id quick >> /var/tmp/seedlog_$id.txt 2>&1
  fi
  echo "$id: $(grep -E '"confirmed"|DETECTED|missed' /var/tmp/seedlog_$id.txt | tr '\n' ' ' | cut -c1-400)"
done
