#!/bin/bash
# usage: tools/seed_batch.sh C05 C06 ...   (expects /tmp/seed-<id>-out/) -> confirm + run quick, log to /var/tmp/seedlog_<id>.txt
cd "$(dirname "$0")/.."
for c in "$@"; do
  n=$(ls -d seeded/s*-$c 2>/dev/null | wc -l); id=$(printf "s%02d-%s" $((n+1)) $c)
  [ -n "${SEED_ID:-}" ] && id="$SEED_ID"
  python3 tools/seeded.py confirm $id $c /tmp/seed-$c-out > /var/tmp/seedlog_$id.txt 2>&1
  if grep -q '"confirmed": true' /var/tmp/seedlog_$id.txt; then
    python3 tools/seeded.py run $id quick >> /var/tmp/seedlog_$id.txt 2>&1
  fi
  echo "$id: $(grep -E '"confirmed"|DETECTED|missed' /var/tmp/seedlog_$id.txt | tr '\n' ' ' | cut -c1-400)"
done
