#!/bin/bash
# usage: tools/run_all.sh <quick|thorough> [ids...]  -> one summary line per check
cd "$(dirname "$0")/.."
TIER="${1:-quick}"; shift
IDS="$@"
[ -z "$IDS" ] && IDS=$(python3 -c "import json; print(' '.join(c['property_id'] for c in json.load(open('MANIFEST.json'))['checks']))")
for c in $IDS; do
  t0=$(date +%s)
  out=$(./run_check.sh $c $TIER 2>&1); rc=$?
  t1=$(date +%s)
  echo "== $c $TIER rc=$rc wall=$((t1-t0))s :: $(echo "$out" | grep -E "^$c " | tail -1)"
  echo "$out" | grep -E "VIOLATION|KNOWN-FINDING|HARNESS|bucket=" | cut -c1-300
done
