"""pytest plugin (harness side, optional): version-pairing shims so that more of the
repository's own tests can run in this image when validating a fix.  Usage:
  cd /repo && PYTHONPATH=/verif/tools TORCH_FORCE_NO_WEIGHTS_ONLY_LOAD=1 \
      /venv/bin/python -m pytest -p vp_compat -q -p no:cacheprovider tests/tracking
Never used by the registered checks or by the baseline command."""
import functools

import torch
import kornia.core

if not hasattr(kornia.core, "Tensor"):
    kornia.core.Tensor = torch.Tensor

import sleap_io as sio

_orig = sio.PredictedInstance.from_numpy.__func__


def _from_numpy(cls, *a, **k):
    if "points" in k:
        k["points_data"] = k.pop("points")
    if "instance_score" in k:
        k["score"] = k.pop("instance_score")
    return _orig(cls, *a, **k)


sio.PredictedInstance.from_numpy = classmethod(_from_numpy)
_orig_i = sio.Instance.from_numpy.__func__


def _from_numpy_i(cls, *a, **k):
    if "points" in k:
        k["points_data"] = k.pop("points")
    return _orig_i(cls, *a, **k)


sio.Instance.from_numpy = classmethod(_from_numpy_i)
try:
    sio.set_default_image_plugin("imageio")
except Exception:
    pass
