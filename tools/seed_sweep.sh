#!/bin/bash
# usage: tools/seed_sweep.sh "0 2 3" [ids...] : quick tier of every check for each VERIF_SEED; prints only non-zero exits + summary
cd "$(dirname "$0")/.."
SEEDS="$1"; shift
IDS="$@"
[ -z "$IDS" ] && IDS=$(python3 -c "import json; print(' '.join(c['property_id'] for c in json.load(open('MANIFEST.json'))['checks']))")
bad=0
for s in $SEEDS; do for c in $IDS; do
  out=$(VERIF_SEED=$s ./run_check.sh $c quick --no-evidence 2>&1); rc=$?
  if [ $rc -ne 0 ]; then bad=$((bad+1)); echo "!! seed=$s $c rc=$rc"; echo "$out" | grep -E "VIOLATION|HARNESS|bucket=" | cut -c1-400; fi
  echo "seed=$s $c rc=$rc $(echo "$out" | grep -E "^$c " | tail -1 | sed 's/.*wall=/wall=/')"
done; done
echo "SWEEP DONE bad=$bad"
