#!/usr/bin/env python3
"""Confirm and evaluate a seeded breaking change produced by an independent sub-agent.

usage: seeded.py confirm <seed-id> <property> <out-dir-with patch.diff,demo.py,notes.md>
           -> scratch worktree of /repo HEAD under /tmp, demo passes without / fails with the patch,
              the 112 stable baseline tests still pass with the patch; copies the artefacts to
              /verif/seeded/<seed-id>/ and writes meta.json
       seeded.py run <seed-id> [quick|thorough] [--all]
           -> apply the patch to a scratch copy of /repo's tracked files (VERIF_REPO), run the property's check (or all); records
              the verdict in /verif/seeded/<seed-id>/meta.json
Nothing is ever committed to /repo; scratch copies are removed in a finally.
"""
import json
import os
import shutil
import subprocess
import sys
import time
import xml.etree.ElementTree as ET

VERIF = os.path.dirname(os.path.dirname(os.path.abspath(__file__)))
BASE = json.load(open("/root/.vp/BASELINE.json"))


def sh(cmd, **kw):
    return subprocess.run(cmd, shell=isinstance(cmd, str), capture_output=True, text=True, **kw)


def run_tests(tree):
    junit = os.path.join(tree, "junit.xml")
    env = dict(os.environ, PYTHONPATH=tree)
    r = sh(f"cd {tree} && /venv/bin/python -m pytest -ra -q -p no:cacheprovider --timeout=900 --continue-on-collection-errors --junitxml={junit}", env=env)
    passed = set()
    try:
        for tc in ET.parse(junit).getroot().iter("testcase"):
            if not list(tc):
                passed.add(f"{tc.get('classname')}::{tc.get('name')}")
    except Exception as e:  # noqa: BLE001
        print("junit parse failed", e, r.stdout[-500:])
    return passed


def confirm(seed_id, prop, outdir):
    dst = os.path.join(VERIF, "seeded", seed_id)
    os.makedirs(dst, exist_ok=True)
    for f in ("patch.diff", "demo.py", "notes.md"):
        if os.path.exists(os.path.join(outdir, f)):
            shutil.copy(os.path.join(outdir, f), os.path.join(dst, f))
    tree = f"/tmp/confirm-{seed_id}"
    sh(f"git -C /repo worktree remove --force {tree}")
    r = sh(f"git -C /repo worktree add -q --detach {tree} HEAD")
    assert r.returncode == 0, r.stderr
    meta = {"seed": seed_id, "property": prop, "repo_head": sh("git -C /repo rev-parse --short HEAD").stdout.strip()}
    try:
        env = dict(os.environ, PYTHONPATH=tree, WANDB_MODE="offline")
        demo = os.path.join(dst, "demo.py")
        a = sh(f"cd {tree} && timeout 900 /venv/bin/python {demo}", env=env)
        meta["demo_without_change_rc"] = a.returncode
        ap = sh(f"git -C {tree} apply {os.path.join(dst, 'patch.diff')}")
        meta["patch_applies"] = ap.returncode == 0
        if ap.returncode != 0:
            meta["patch_error"] = ap.stderr[-500:]
        b = sh(f"cd {tree} && timeout 900 /venv/bin/python {demo}", env=env)
        meta["demo_with_change_rc"] = b.returncode
        meta["demo_with_change_tail"] = (b.stdout + b.stderr)[-600:]
        imp = sh(f"cd {tree} && /venv/bin/python -c 'import sleap_nn, sleap_nn.evaluation, sleap_nn.inference.paf_grouping; print(sleap_nn.__file__)'", env=env)
        meta["imports_from_tree"] = tree in imp.stdout
        passed = run_tests(tree)
        stable = set(BASE["stable_pass"])
        missing = sorted(stable - passed)
        meta["baseline_tests_passing_with_change"] = len(stable & passed)
        meta["baseline_tests_broken_by_change"] = missing
        meta["files_changed"] = sh(f"git -C {tree} diff --stat").stdout.strip().splitlines()
        meta["confirmed"] = bool(
            meta["patch_applies"] and meta["demo_without_change_rc"] == 0 and meta["demo_with_change_rc"] != 0 and not missing and meta["imports_from_tree"]
        )
    finally:
        sh(f"git -C /repo worktree remove --force {tree}")
        shutil.rmtree(tree, ignore_errors=True)
    meta["what_i_ran"] = "tools/seeded.py confirm: demo.py without/with patch in a scratch worktree of /repo HEAD; full baseline pytest command with the patch (junit compared with BASELINE.json stable_pass)"
    json.dump(meta, open(os.path.join(dst, "meta.json"), "w"), indent=1)
    print(json.dumps(meta, indent=1))


def run(seed_id, tier="quick", all_checks=False):
    dst = os.path.join(VERIF, "seeded", seed_id)
    meta = json.load(open(os.path.join(dst, "meta.json")))
    manifest = json.load(open(os.path.join(VERIF, "MANIFEST.json")))
    props = [c["property_id"] for c in manifest["checks"]] if all_checks else [meta["property"]]
    results = meta.setdefault("check_results", {})
    # a scratch copy of the working tree with the patch applied (VERIF_REPO), so that /repo itself is
    # never modified while other checks are running; equivalent to `git -C /repo apply` + undo
    tree = f"/var/tmp/vp-scratch/seedrun-{seed_id}-{os.getpid()}"
    shutil.rmtree(tree, ignore_errors=True)
    os.makedirs(tree)
    sh(f"cd /repo && git ls-files -z | xargs -0 cp --parents -t {tree}")
    ap = sh(f"patch -p1 -d {tree} < {os.path.join(dst, 'patch.diff')}")
    assert ap.returncode == 0, ap.stdout + ap.stderr
    try:
        for p in props:
            t0 = time.time()
            r = sh([os.path.join(VERIF, "run_check.sh"), p, tier, "--no-evidence"], env=dict(os.environ, VERIF_REPO=tree, VERIF_SEED=os.environ.get("VERIF_SEED", "1")))
            viol = [l for l in r.stdout.splitlines() if l.startswith("VIOLATION")]
            buckets = [l.strip()[:300] for l in r.stdout.splitlines() if l.strip().startswith("bucket=")]
            results[f"{p}:{tier}"] = {
                "rc": r.returncode, "detected": r.returncode == 1 and bool(viol), "n_violation_lines": len(viol), "buckets": buckets[:4],
                "wall_s": round(time.time() - t0, 1), "stderr_tail": r.stderr[-300:] if r.returncode not in (0, 1) else "",
            }
            print(p, tier, "rc", r.returncode, "DETECTED" if results[f"{p}:{tier}"]["detected"] else "missed", buckets[:2])
    finally:
        shutil.rmtree(tree, ignore_errors=True)
    json.dump(meta, open(os.path.join(dst, "meta.json"), "w"), indent=1)


if __name__ == "__main__":
    if sys.argv[1] == "confirm":
        confirm(sys.argv[2], sys.argv[3], sys.argv[4])
    elif sys.argv[1] == "run":
        tier = sys.argv[3] if len(sys.argv) > 3 and not sys.argv[3].startswith("--") else "quick"
        run(sys.argv[2], tier, "--all" in sys.argv)
