#!/bin/bash
# cross matrix: every seeded change against every registered check (quick tier), N at a time
cd "$(dirname "$0")/.."
N="${1:-5}"
ls seeded | xargs -P "$N" -I{} sh -c 'python3 tools/seeded.py run {} quick --all > /var/tmp/seedmatrix_{}.log 2>&1; echo done {}'
