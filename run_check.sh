#!/bin/bash
# usage: run_check.sh <Cxx> <quick|thorough> [--replay file] [extra args]
# Imports sleap_nn from ${VERIF_REPO:-/repo} (current working tree, nothing cached).
set -u
HERE="$(cd "$(dirname "${BASH_SOURCE[0]}")" && pwd)"
ID="$1"; shift
TIER="${1:-quick}"; [ $# -gt 0 ] && shift
REPO_DIR="${VERIF_REPO:-/repo}"
export PYTHONPATH="$REPO_DIR:$HERE${PYTHONPATH:+:$PYTHONPATH}"
export PYTHONHASHSEED=0 OMP_NUM_THREADS=1 MKL_NUM_THREADS=1
export WANDB_MODE=offline WANDB_SILENT=true PIP_NO_INDEX=1 PYTHONDONTWRITEBYTECODE=1
export SLEAP_NN_VERIF=1 VERIF_TIER="$TIER"
PY="${VERIF_PYTHON:-/venv/bin/python}"
mod="checks.$(echo "$ID" | tr 'A-Z' 'a-z')"
cd "$HERE"
exec "$PY" -W ignore -m "$mod" "$TIER" "$@"
