"""Label / video synthesis shared by the dataset and predictor checks.

Everything is a pure function of a JSON *spec* (so it can live inside a case):

spec = {
  "skeleton": {"n_nodes": 3, "edges": [[0,1],[1,2]]},
  "videos":   [{"h": 64, "w": 96, "kind": "rgb"|"gray_x"|"gray_y"|"texture"|"blobs", "n_frames": 3, "seed": 5}],
  "frames":   [{"video": 0, "frame_idx": 1,
                "instances": [{"pts": [[x,y] | None, ...], "predicted": false, "score": 0.9,
                               "hidden": [[x,y] | None, ...]   # optional, see build_labels
                               }, ...]}],
}

Frames are written as PNG files (lossless, any size) into a scratch directory and wrapped
with `sio.Video.from_filename([png...])`.

Coordinate-encoding images ("rgb": R = x, G = y, B = 255 validity mask; "gray_x"/"gray_y":
one ramp): bilinear resizing, affine warps and crops keep a linear ramp linear, so sampling
the *output* image at a transformed keypoint returns the original coordinate of the content
that is now at that location.  uint8 limits such images to 256 px per side.
"""

import math
import os

import numpy as np


def ramp_image(h, w, kind):
    xs = np.tile(np.arange(w, dtype=np.uint8), (h, 1))
    ys = np.tile(np.arange(h, dtype=np.uint8)[:, None], (1, w))
    if kind == "rgb":
        return np.stack([xs, ys, np.full((h, w), 255, np.uint8)], -1)
    if kind == "gray_x":
        return xs
    if kind == "gray_y":
        return ys
    raise ValueError(kind)


def texture_image(h, w, channels, seed):
    rs = np.random.RandomState(seed % (2**31))
    base = rs.randint(0, 256, size=(max(2, h // 4 + 1), max(2, w // 4 + 1), channels)).astype(np.float64)
    # smooth upsample (so that resampling is well conditioned) + fine noise
    yy = np.linspace(0, base.shape[0] - 1, h)
    xx = np.linspace(0, base.shape[1] - 1, w)
    y0 = np.floor(yy).astype(int).clip(0, base.shape[0] - 2)
    x0 = np.floor(xx).astype(int).clip(0, base.shape[1] - 2)
    fy = (yy - y0)[:, None, None]
    fx = (xx - x0)[None, :, None]
    img = (
        base[y0][:, x0] * (1 - fy) * (1 - fx)
        + base[y0 + 1][:, x0] * fy * (1 - fx)
        + base[y0][:, x0 + 1] * (1 - fy) * fx
        + base[y0 + 1][:, x0 + 1] * fy * fx
    )
    img = img + rs.randint(-6, 7, size=img.shape)
    img = np.clip(np.rint(img), 0, 255).astype(np.uint8)
    return img if channels == 3 else img[..., 0]


def blob_image(h, w, centers, sigma, amp=255.0):
    yy, xx = np.mgrid[0:h, 0:w].astype(np.float64)
    img = np.zeros((h, w))
    for cx, cy in centers:
        img = np.maximum(img, np.exp(-((xx - cx) ** 2 + (yy - cy) ** 2) / (2 * sigma**2)))
    return np.clip(np.rint(img * amp), 0, 255).astype(np.uint8)


def video_frame(vspec, frame_idx, frame_spec=None):
    kind = vspec["kind"]
    h, w = vspec["h"], vspec["w"]
    if kind in ("rgb", "gray_x", "gray_y"):
        return ramp_image(h, w, kind)
    if kind == "texture":
        return texture_image(h, w, vspec.get("channels", 1), vspec.get("seed", 0) * 1000 + frame_idx)
    if kind == "texture_rgb":
        return texture_image(h, w, 3, vspec.get("seed", 0) * 1000 + frame_idx)
    if kind == "blobs":
        centers = []
        if frame_spec is not None:
            for inst in frame_spec["instances"]:
                for p in inst["pts"]:
                    if p is not None:
                        centers.append(p)
        return blob_image(h, w, centers, vspec.get("sigma", 2.0))
    raise ValueError(kind)


def channels_of(vspec):
    return 3 if vspec["kind"] in ("rgb", "texture_rgb") or (vspec["kind"] == "texture" and vspec.get("channels", 1) == 3) else 1


def build_labels(spec, outdir, save_slp=None, embed=False):
    """Write PNGs, build `sio.Labels`. Returns (labels, info dict)."""
    import imageio.v3 as iio
    import sleap_io as sio

    try:
        sio.set_default_image_plugin("imageio")  # opencv plugin returns negatively strided RGB views
    except Exception:  # noqa: BLE001
        pass
    os.makedirs(outdir, exist_ok=True)
    sk = spec["skeleton"]
    names = [f"n{i}" for i in range(sk["n_nodes"])]
    skel = sio.Skeleton(nodes=names, edges=[(names[a], names[b]) for a, b in sk.get("edges", [])])
    frames_by_video = {}
    for f in spec["frames"]:
        frames_by_video.setdefault(f["video"], {})[f["frame_idx"]] = f
    videos = []
    for vi, v in enumerate(spec["videos"]):
        paths = []
        for fi in range(v["n_frames"]):
            img = video_frame(v, fi, frames_by_video.get(vi, {}).get(fi))
            p = os.path.join(outdir, f"v{vi}_f{fi:03d}.png")
            iio.imwrite(p, img)
            paths.append(p)
        videos.append(sio.Video.from_filename(paths))
    lfs = []
    for f in spec["frames"]:
        insts = []
        for inst in f["instances"]:
            pts = np.array(
                [[math.nan, math.nan] if p is None else [float(p[0]), float(p[1])] for p in inst["pts"]],
                dtype=np.float64,
            ).reshape(sk["n_nodes"], 2)
            # optional "hidden": per node [x, y] | None.  A node that is missing (pts[k] is None) and
            # has hidden[k] is stored the way the SLEAP GUI stores a node toggled to "not visible":
            # finite coordinates in points["xy"], points["visible"] False (inst.numpy() -> NaN).
            hidden = inst.get("hidden") or []
            hid = [k for k, hp in enumerate(hidden) if hp is not None and inst["pts"][k] is None]
            for k in hid:
                pts[k] = [float(hidden[k][0]), float(hidden[k][1])]
            if inst.get("predicted"):
                obj = sio.PredictedInstance.from_numpy(points_data=pts, skeleton=skel, score=float(inst.get("score", 0.9)))
            else:
                obj = sio.Instance.from_numpy(points_data=pts, skeleton=skel)
            for k in hid:
                obj.points["visible"][k] = False
            insts.append(obj)
        lfs.append(sio.LabeledFrame(video=videos[f["video"]], frame_idx=f["frame_idx"], instances=insts))
    labels = sio.Labels(labeled_frames=lfs, videos=videos, skeletons=[skel])
    info = {"skeleton": skel, "videos": videos}
    if save_slp:
        labels.save(save_slp, embed="all" if embed else False)
        info["slp"] = save_slp
    return labels, info


def labels_snapshot(labels):
    """Per-instance coordinate arrays (object-identity keyed) for immutability checks."""
    snap = []
    for lf in labels:
        for inst in lf.instances:
            snap.append((inst, inst.numpy().copy()))
    return snap


def snapshot_changed(snap):
    for inst, arr in snap:
        now = inst.numpy()
        if now.shape != arr.shape or not np.array_equal(now, arr, equal_nan=True):
            return f"instance coordinates changed from {arr.tolist()} to {now.tolist()}"
    return None


def bilinear(img, x, y):
    """Sample img (C,H,W float numpy) at (x,y) with bilinear interpolation; None if outside."""
    c, h, w = img.shape
    if not (0 <= x <= w - 1 and 0 <= y <= h - 1):
        return None
    x0 = min(int(math.floor(x)), w - 2) if w > 1 else 0
    y0 = min(int(math.floor(y)), h - 2) if h > 1 else 0
    fx, fy = x - x0, y - y0
    x1 = min(x0 + 1, w - 1)
    y1 = min(y0 + 1, h - 1)
    return (
        img[:, y0, x0] * (1 - fx) * (1 - fy)
        + img[:, y0, x1] * fx * (1 - fy)
        + img[:, y1, x0] * (1 - fx) * fy
        + img[:, y1, x1] * fx * fy
    )


def data_config(is_rgb, user_instances_only=True, augmentation=None, max_height=None, max_width=None, scale=1.0):
    from omegaconf import OmegaConf

    cfg = {
        "user_instances_only": user_instances_only,
        "preprocessing": {"is_rgb": is_rgb, "max_height": max_height, "max_width": max_width, "scale": scale},
        "use_augmentations_train": augmentation is not None,
    }
    if augmentation is not None:
        cfg["augmentation_config"] = augmentation
    return OmegaConf.create(cfg)
