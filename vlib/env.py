"""Process environment for every check: determinism knobs and version-pairing shims.

Imported before any ``sleap_nn`` module.  Nothing here changes /repo; the shims only
repair incompatibilities between the pinned snapshot and the newer third-party
releases installed in the image (DESIGN.md 1.6).
"""

import os
import sys
import warnings

os.environ.setdefault("PYTHONHASHSEED", "0")
os.environ.setdefault("OMP_NUM_THREADS", "1")
os.environ.setdefault("MKL_NUM_THREADS", "1")
os.environ.setdefault("WANDB_MODE", "offline")
os.environ.setdefault("WANDB_SILENT", "true")
os.environ.setdefault("PIP_NO_INDEX", "1")
os.environ.setdefault("SLEAP_NN_VERIF", "1")

warnings.filterwarnings("ignore")

REPO = os.environ.get("VERIF_REPO", "/repo")
VERIF = os.path.dirname(os.path.dirname(os.path.abspath(__file__)))
if REPO not in sys.path[:1]:
    sys.path.insert(0, REPO)

SHIMS = []


def setup(torch_threads=1, need_kornia=True):
    """Apply shims (idempotent) and return the list of shims applied."""
    import torch

    torch.set_num_threads(torch_threads)
    try:
        torch.set_num_interop_threads(1)
    except RuntimeError:
        pass
    if need_kornia:
        import kornia.core

        if not hasattr(kornia.core, "Tensor"):
            kornia.core.Tensor = torch.Tensor
            if "kornia.core.Tensor" not in SHIMS:
                SHIMS.append("kornia.core.Tensor")
    import logging

    logging.disable(logging.CRITICAL)
    try:
        from loguru import logger

        logger.remove()
    except Exception:
        pass
    return SHIMS


def assert_repo():
    """Make sure sleap_nn really is imported from the tree under test."""
    import sleap_nn

    here = os.path.realpath(os.path.dirname(os.path.dirname(sleap_nn.__file__)))
    if here != os.path.realpath(REPO):
        raise RuntimeError(f"sleap_nn imported from {here}, expected {REPO}")
