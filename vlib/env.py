"""Process environment for every check: determinism knobs and version-pairing shims.

Imported before any ``sleap_nn`` module.  Nothing here changes /repo; the shims only
repair incompatibilities between the pinned snapshot and the newer third-party
releases installed in the image (DESIGN.md 1.6).
"""

import os
import sys
import warnings

os.environ.setdefault("PYTHONHASHSEED", "0")
os.environ.setdefault("OMP_NUM_THREADS", "1")
os.environ.setdefault("MKL_NUM_THREADS", "1")
os.environ.setdefault("WANDB_MODE", "offline")
os.environ.setdefault("WANDB_SILENT", "true")
os.environ.setdefault("PIP_NO_INDEX", "1")
os.environ.setdefault("SLEAP_NN_VERIF", "1")

warnings.filterwarnings("ignore")

REPO = os.environ.get("VERIF_REPO", "/repo")
VERIF = os.path.dirname(os.path.dirname(os.path.abspath(__file__)))
if REPO not in sys.path[:1]:
    sys.path.insert(0, REPO)

SHIMS = []


def setup(torch_threads=1, need_kornia=True):
    """Apply shims (idempotent) and return the list of shims applied."""
    import torch

    torch.set_num_threads(torch_threads)
    try:
        torch.set_num_interop_threads(1)
    except RuntimeError:
        pass
    if need_kornia:
        import kornia.core

        if not hasattr(kornia.core, "Tensor"):
            kornia.core.Tensor = torch.Tensor
            if "kornia.core.Tensor" not in SHIMS:
                SHIMS.append("kornia.core.Tensor")
    import logging

    logging.disable(logging.CRITICAL)
    try:
        from loguru import logger

        logger.remove()
    except Exception:
        pass
    return SHIMS


def assert_repo():
    """Make sure sleap_nn really is imported from the tree under test."""
    import sleap_nn

    here = os.path.realpath(os.path.dirname(os.path.dirname(sleap_nn.__file__)))
    if here != os.path.realpath(REPO):
        raise RuntimeError(f"sleap_nn imported from {here}, expected {REPO}")


# ------------------------------------------------------------------------------
# scratch space (never /tmp, never /verif): one root per top-level check process,
# inherited by worker processes through the environment, removed by the runner.

_OWN_SCRATCH = None


def scratch_root():
    global _OWN_SCRATCH
    root = os.environ.get("VERIF_SCRATCH")
    if not root:
        import tempfile

        base = "/var/tmp/vp-scratch"
        os.makedirs(base, exist_ok=True)
        root = tempfile.mkdtemp(prefix=f"run-{os.getpid()}-", dir=base)
        os.environ["VERIF_SCRATCH"] = root
        _OWN_SCRATCH = root
    os.makedirs(root, exist_ok=True)
    # third-party temp files (wandb media/artifact dirs, torch, litdata) go to the scratch root too,
    # so nothing is left under /tmp and everything is removed with the root
    import tempfile

    tmp = os.path.join(root, "tmp")
    os.makedirs(tmp, exist_ok=True)
    os.environ["TMPDIR"] = tmp
    tempfile.tempdir = tmp
    return root


def scratch_dir(name):
    import tempfile

    return tempfile.mkdtemp(prefix=f"{name}-{os.getpid()}-", dir=scratch_root())


def cleanup():
    import shutil

    if _OWN_SCRATCH:
        shutil.rmtree(_OWN_SCRATCH, ignore_errors=True)
