"""Scene generation for the ideal-network checks (C03, C02): tree skeletons and
well-separated animals in *general position* on a stride grid."""

import math


def tree_strategy(st, n_min=2, n_max=6):
    """Random rooted tree with random node relabelling and random edge-list order."""

    @st.composite
    def tree(draw):
        n = draw(st.integers(n_min, n_max))
        perm = draw(st.permutations(list(range(n))))
        edges = []
        for k in range(1, n):
            parent = draw(st.integers(0, k - 1))
            edges.append([perm[parent], perm[k]])
        edges = list(draw(st.permutations(edges)))
        return n, [list(e) for e in edges]

    return tree()


def tree_depths(n, edges):
    children = {i: [] for i in range(n)}
    dsts = set()
    for s, d in edges:
        children[s].append(d)
        dsts.add(d)
    root = [i for i in range(n) if i not in dsts][0]
    depth = {root: 0}
    stack = [root]
    while stack:
        x = stack.pop()
        for c in children[x]:
            depth[c] = depth[x] + 1
            stack.append(c)
    return root, depth, children


def embed_animal(draw, st, n, edges, root_xy, lmin, lmax):
    """Place nodes: child = parent + L*(cos t, sin t) with drawn L and angle."""
    root, depth, children = tree_depths(n, edges)
    pos = {root: list(root_xy)}
    stack = [root]
    while stack:
        x = stack.pop()
        for c in children[x]:
            L = lmin + (lmax - lmin) * draw(st.sampled_from([0.0, 0.3, 0.7, 1.0]))
            t = draw(st.integers(0, 23)) * (2 * math.pi / 24)
            pos[c] = [pos[x][0] + L * math.cos(t), pos[x][1] + L * math.sin(t)]
            stack.append(c)
    return [pos[i] for i in range(n)]


def snap_general(q, stride, frac):
    """Nearest grid cell + frac*stride (|frac| <= 0.45 -> unique nearest cell)."""
    return round(q / stride) * stride + frac * stride


VIS_PATTERNS = ["all", "all", "random", "leaf_missing", "internal_missing", "single", "none"]


def apply_visibility(draw, st, pts, n, edges, pattern):
    root, depth, children = tree_depths(n, edges)
    leaves = [i for i in range(n) if not children[i]]
    internal = [i for i in range(n) if children[i]]
    vis = [True] * n
    if pattern == "random":
        vis = [draw(st.booleans()) for _ in range(n)]
    elif pattern == "leaf_missing":
        vis[draw(st.sampled_from(leaves))] = False
    elif pattern == "internal_missing":
        vis[draw(st.sampled_from(internal))] = False
    elif pattern == "single":
        keep = draw(st.integers(0, n - 1))
        vis = [i == keep for i in range(n)]
    elif pattern == "none":
        vis = [False] * n
    return [p if v else None for p, v in zip(pts, vis)]


def expected_groups(animal, edges):
    """Connected components (size >= 2) of visible nodes under visible-endpoint edges."""
    n = len(animal)
    parent = list(range(n))

    def find(x):
        while parent[x] != x:
            parent[x] = parent[parent[x]]
            x = parent[x]
        return x

    for s, d in edges:
        if animal[s] is not None and animal[d] is not None:
            parent[find(s)] = find(d)
    comps = {}
    for i in range(n):
        if animal[i] is not None:
            comps.setdefault(find(i), []).append(i)
    return [sorted(c) for c in comps.values() if len(c) >= 2]
