"""Coverage-guided campaign for one Part: atheris (libFuzzer) mutates a byte string, Hypothesis'
`fuzz_one_input` decodes it through the part's own strategy into a JSON case, the part's
`evaluate` judges the case with the same oracle as the random tier.  The modules named in
`part.fuzz["instrument"]` are imported under atheris' byte-code instrumentation so that libFuzzer
keeps the inputs reaching new branches of the code under test (Python-level branches only: tensor
kernels give no gradient, which is why only the Python-heavy properties use this driver).

Runs as a subprocess (atheris.Fuzz() never returns and skips atexit):
    python -m vlib.fuzzdrv <check module> <part> <tier> <seed> <runs> <out.pkl> <corpus dir>
Failures never stop the campaign: they are collected into the Stats buckets like everywhere else
and the Stats object is dumped every 100 executions and at the last one.
"""

import importlib
import os
import pickle
import random
import sys
import time


def main():
    modname, partname, tier, seed, runs, out, corpus = sys.argv[1:8]
    seed, runs = int(seed), int(runs)
    deps = os.path.join(os.path.dirname(os.path.dirname(os.path.abspath(__file__))), ".deps")
    if os.path.isdir(deps):
        sys.path.append(deps)
    import atheris

    from vlib import env, runner

    env.setup()
    mod = importlib.import_module(modname)
    part = [p for p in mod.parts(tier) if p.name == partname][0]
    cfg = part.fuzz or {}
    already = [m for m in cfg.get("modules", []) if m in sys.modules]
    with atheris.instrument_imports(include=list(cfg.get("instrument", [])), enable_loader_override=False):
        for m in cfg.get("modules", []):
            importlib.import_module(m)
    env.assert_repo()
    if part.setup:
        part.setup()

    from hypothesis import HealthCheck, given, settings

    st = runner.Stats()
    st.fuzz_info = {"instrumented": [m for m in cfg.get("modules", []) if m not in already], "executions": 0, "decoded": 0}
    t0 = time.time()

    @settings(database=None, deadline=None, suppress_health_check=list(HealthCheck))
    @given(part.strategy())
    def body(case):
        st.fuzz_info["decoded"] += 1
        res = runner._safe_eval(part, case)
        st.add(part, case, res)

    fuzz_one = body.hypothesis.fuzz_one_input

    def dump():
        st.fuzz_info["wall_s"] = round(time.time() - t0, 1)
        tmp = out + ".tmp"
        with open(tmp, "wb") as f:
            pickle.dump(st, f)
        os.replace(tmp, out)

    def one(data):
        st.fuzz_info["executions"] += 1
        try:
            fuzz_one(data)
        except runner.HarnessError as e:
            st.harness_error = str(e)
            dump()
            os._exit(3)
        n = st.fuzz_info["executions"]
        if n % 100 == 0 or n >= runs:
            dump()

    # starting corpus: byte strings from a PRNG of the seed (an empty corpus only produces inputs too
    # short to decode, and the decoder itself is not instrumented, so there would be no gradient)
    os.makedirs(corpus, exist_ok=True)
    rnd = random.Random(seed)
    for i in range(16):
        with open(os.path.join(corpus, f"seed{i:02d}"), "wb") as f:
            f.write(bytes(rnd.randrange(256) for _ in range(rnd.choice([1024, 4096, 8192]))))
    argv = [sys.argv[0], corpus, f"-runs={runs}", f"-seed={seed % (2**31 - 1) + 1}", "-max_len=12288", "-len_control=0", "-rss_limit_mb=8192", "-timeout=600"]
    dump()
    atheris.Setup(argv, one)
    atheris.Fuzz()


if __name__ == "__main__":
    main()
