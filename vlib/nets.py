"""Fake `torch_model`s: pure per-sample functions of the tensor they are given, like a
trained CNN in eval mode.  All accept the rank-5 `(B,1,C,H,W)` batches the predictors build
(squeezing axis 1 like the real lightning modules) as well as rank-4 tensors.
"""

import math

import lightning as L
import torch


def _squeeze(x):
    if x.dim() == 5:
        x = torch.squeeze(x, dim=1)
    return x


class IdentityNet(L.LightningModule):
    """The image *is* the stack of maps: channel c of the input, sub-sampled at the stride
    grid, is confidence map c.  `channels` selects input channels; `heads` (bottom-up)
    returns a dict {head name: (channel slice, stride)}."""

    def __init__(self, stride=1, channels=None, heads=None):
        super().__init__()
        self.stride = stride
        self.channels = channels
        self.heads = heads

    def forward(self, x):
        x = _squeeze(x)
        if self.heads is not None:
            return {name: x[:, sl, ::st, ::st] for name, (sl, st) in self.heads.items()}
        if self.channels is not None:
            x = x[:, self.channels]
        return x[:, :, :: self.stride, :: self.stride]


class TableNet(L.LightningModule):
    """Returns pre-rendered maps selected by a sample id stored in pixel (0,0) of channel 0
    (id = round(value * 255)).  `table[id]` is a tensor (single head) or a dict of tensors."""

    def __init__(self, table):
        super().__init__()
        self.table = table

    def forward(self, x):
        x = _squeeze(x)
        ids = [int(round(float(v) * 255.0)) for v in x[:, 0, 0, 0]]
        outs = [self.table[i] for i in ids]
        if isinstance(outs[0], dict):
            return {k: torch.stack([o[k] for o in outs], 0) for k in outs[0]}
        return torch.stack(outs, 0)


class RampNet(L.LightningModule):
    """Ideal network for coordinate-encoding RGB frames (R = x/255, G = y/255, B = validity
    level encoding the frame id): at every output cell it decodes the ORIGINAL-image
    coordinate of the content it sees and emits the ideal Gaussian confidence map of the
    ground truth for that content.  Any disagreement between how the code transforms images
    and how it back-transforms coordinates therefore becomes a coordinate error.

    gt[fid] = list of animals, each a list of [x,y]|None per node (original coordinates).
    mode: "single" (node channels of animal 0), "centroid" (1 channel, bump at each animal's
    anchor point), "centered" (node channels of the animal whose anchor is nearest to the
    content at the centre of the crop).
    sigma is in ORIGINAL pixels.
    """

    LEVEL_STEP = 12  # B level of frame f is 255 - LEVEL_STEP * f

    def __init__(self, gt, stride, sigma, mode, n_nodes, anchors=None):
        super().__init__()
        self.gt = gt
        self.stride = stride
        self.sigma = sigma
        self.mode = mode
        self.n_nodes = n_nodes
        self.anchors = anchors  # anchors[fid][animal] = [x,y]

    @classmethod
    def level(cls, fid):
        return 255 - cls.LEVEL_STEP * fid

    def decode(self, img):
        """img (3,H,W) in [0,1] -> fid, x0 (H,W), y0 (H,W), valid (H,W)."""
        b = img[2]
        m = float(b.max())
        fid = int(round((255.0 - 255.0 * m) / self.LEVEL_STEP))
        fid = max(0, fid)
        lvl = self.level(fid) / 255.0
        mask = b / lvl
        safe = torch.clamp(mask, min=1e-6)
        x0 = 255.0 * img[0] / safe
        y0 = 255.0 * img[1] / safe
        return fid, x0, y0, mask

    def bump(self, x0, y0, mask, p):
        if p is None:
            return torch.zeros_like(x0)
        d2 = (x0 - p[0]) ** 2 + (y0 - p[1]) ** 2
        out = torch.exp(-d2 / (2.0 * self.sigma**2))
        return torch.where(mask > 0.5, out, torch.zeros_like(out))

    def forward(self, x):
        x = _squeeze(x).to(torch.float32)
        outs = []
        for img in x:
            fid, x0, y0, mask = self.decode(img)
            s = self.stride
            x0s, y0s, ms = x0[::s, ::s], y0[::s, ::s], mask[::s, ::s]
            animals = self.gt.get(fid, []) if isinstance(self.gt, dict) else self.gt[fid]
            if self.mode == "single":
                pts = animals[0] if animals else [None] * self.n_nodes
                outs.append(torch.stack([self.bump(x0s, y0s, ms, p) for p in pts], 0))
            elif self.mode == "centroid":
                ch = torch.zeros_like(x0s)
                for a in self.anchors[fid]:
                    ch = torch.maximum(ch, self.bump(x0s, y0s, ms, a))
                outs.append(ch.unsqueeze(0))
            elif self.mode == "centered":
                h, w = x0.shape
                cy, cx = (h - 1) / 2.0, (w - 1) / 2.0
                # content at the crop centre (bilinear between the 4 central pixels)
                ys = [int(math.floor(cy)), int(math.ceil(cy))]
                xs = [int(math.floor(cx)), int(math.ceil(cx))]
                px = float(torch.stack([x0[yy, xx] for yy in ys for xx in xs]).mean())
                py = float(torch.stack([y0[yy, xx] for yy in ys for xx in xs]).mean())
                best, bd = None, None
                for k, a in enumerate(self.anchors[fid]):
                    d = (a[0] - px) ** 2 + (a[1] - py) ** 2
                    if bd is None or d < bd:
                        best, bd = k, d
                pts = animals[best] if best is not None else [None] * self.n_nodes
                outs.append(torch.stack([self.bump(x0s, y0s, ms, p) for p in pts], 0))
            else:
                raise ValueError(self.mode)
        return torch.stack(outs, 0)


class RampBottomUpNet(RampNet):
    """Ideal bottom-up network on coordinate-encoding frames: multi-animal confidence maps
    (per node, max over animals) at `cms_stride` and part-affinity fields (unit vector src->dst
    times a ridge weight that is 1 on the segment and decays with the ORIGINAL-pixel distance
    from it, summed over animals) at `paf_stride`; channel order edge0.x, edge0.y, ... as the
    property states."""

    def __init__(self, gt, n_nodes, edges, cms_stride, paf_stride, sigma_cm, sigma_paf):
        super().__init__(gt, cms_stride, sigma_cm, "bottomup", n_nodes)
        self.edges = edges
        self.paf_stride = paf_stride
        self.sigma_paf = sigma_paf

    def forward(self, x):
        x = _squeeze(x).to(torch.float32)
        cms_out, paf_out = [], []
        for img in x:
            fid, x0, y0, mask = self.decode(img)
            animals = self.gt.get(fid, [])
            s = self.stride
            xs, ys, ms = x0[::s, ::s], y0[::s, ::s], mask[::s, ::s]
            chans = []
            for n in range(self.n_nodes):
                ch = torch.zeros_like(xs)
                for an in animals:
                    ch = torch.maximum(ch, self.bump(xs, ys, ms, an[n]))
                chans.append(ch)
            cms_out.append(torch.stack(chans, 0))
            p = self.paf_stride
            xp, yp, mp = x0[::p, ::p], y0[::p, ::p], mask[::p, ::p]
            pch = []
            for (a, b) in self.edges:
                fx, fy = torch.zeros_like(xp), torch.zeros_like(xp)
                for an in animals:
                    if an[a] is None or an[b] is None:
                        continue
                    sx, sy, dx, dy = an[a][0], an[a][1], an[b][0], an[b][1]
                    vx, vy = dx - sx, dy - sy
                    L2 = vx * vx + vy * vy
                    if L2 == 0:
                        continue
                    t = torch.clamp(((xp - sx) * vx + (yp - sy) * vy) / L2, 0.0, 1.0)
                    d2 = (xp - (sx + t * vx)) ** 2 + (yp - (sy + t * vy)) ** 2
                    wgt = torch.exp(-d2 / (2.0 * self.sigma_paf**2))
                    wgt = torch.where(mp > 0.5, wgt, torch.zeros_like(wgt))
                    L = L2**0.5
                    fx = fx + wgt * (vx / L)
                    fy = fy + wgt * (vy / L)
                pch += [fx, fy]
            paf_out.append(torch.stack(pch, 0))
        return {"MultiInstanceConfmapsHead": torch.stack(cms_out, 0), "PartAffinityFieldsHead": torch.stack(paf_out, 0)}
