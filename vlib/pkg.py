"""A two-video `.pkg.slp` (both videos embedded in ONE file): the `sio.Video` objects of such a file
share their filename and differ only by HDF5 dataset - what every multi-video package file looks like.
Created once per process under the scratch root."""

import os

from vlib import env

_CACHE = {}


def two_video_package(n_frames=6, sizes=((8, 12), (10, 6))):
    key = (n_frames, tuple(sizes))
    if key in _CACHE:
        return _CACHE[key]
    import imageio.v3 as iio
    import numpy as np
    import sleap_io as sio

    try:
        sio.set_default_image_plugin("imageio")
    except Exception:  # noqa: BLE001
        pass
    d = env.scratch_dir("pkg2")
    vids = []
    for v, (h, w) in enumerate(sizes):
        ps = []
        for i in range(n_frames):
            p = os.path.join(d, f"v{v}_{i:02d}.png")
            iio.imwrite(p, np.full((h, w), 40 * v + i + 1, dtype=np.uint8))
            ps.append(p)
        vids.append(sio.Video.from_filename(ps))
    skel = sio.Skeleton(["a"])
    lfs = [
        sio.LabeledFrame(video=vids[v], frame_idx=i, instances=[sio.Instance.from_numpy(points_data=np.array([[1.0, 2.0]]), skeleton=skel)])
        for v in range(len(vids))
        for i in range(n_frames)
    ]
    pkg = os.path.join(d, "two_videos.pkg.slp")
    sio.Labels(labeled_frames=lfs, videos=vids, skeletons=[skel]).save(pkg, embed="all")
    _CACHE[key] = pkg
    return pkg


def load_videos(n_frames=6, sizes=((8, 12), (10, 6))):
    """Fresh, opened Video objects of the package file."""
    import sleap_io as sio

    vids = sio.load_slp(two_video_package(n_frames, sizes)).videos
    for vid in vids:
        if vid.backend is None:
            vid.open()
    return vids
