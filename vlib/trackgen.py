"""Shared pieces of the tracking checks (C09, C10): configuration strategy, building
`sio.PredictedInstance` detections from JSON, driving a real `Tracker` over a history."""

import math

FEATURE_SCORE = [
    ("keypoints", "oks"),
    ("centroids", "euclidean_dist"),
    ("bboxes", "iou"),
]


def config_strategy(thresholds=(0.0, 0.5), max_window=6):
    from hypothesis import strategies as st

    # tuples + map rather than fixed_dictionaries: the latter draws its keys in a shuffled order for > 3 keys,
    # which Hypothesis' fuzz_one_input byte provider (tools/fuzz_history.py) cannot satisfy
    keys = ["candidates_method", "track_matching_method", "feat", "scoring_reduction", "window_size", "instance_score_threshold"]
    return st.tuples(
        st.sampled_from(["fixed_window", "local_queues"]),
        st.sampled_from(["hungarian", "greedy"]),
        st.integers(0, len(FEATURE_SCORE) - 1),
        st.sampled_from(["mean", "max"]),
        st.integers(1, max_window),
        st.sampled_from(list(thresholds)),
    ).map(lambda t: dict(zip(keys, t)))


def all_configs(windows=(1, 3, 5), thresholds=(0.0,)):
    out = []
    for cm in ["fixed_window", "local_queues"]:
        for mm in ["hungarian", "greedy"]:
            for f in range(len(FEATURE_SCORE)):
                for red in ["mean", "max"]:
                    for w in windows:
                        for t in thresholds:
                            out.append(
                                {
                                    "candidates_method": cm,
                                    "track_matching_method": mm,
                                    "feat": f,
                                    "scoring_reduction": red,
                                    "window_size": w,
                                    "instance_score_threshold": t,
                                }
                            )
    return out


def cfg_label(cfg):
    f, s = FEATURE_SCORE[cfg["feat"]]
    return f"{cfg['candidates_method']}/{cfg['track_matching_method']}/{f}+{s}/{cfg['scoring_reduction']}"


def make_tracker(cfg):
    from sleap_nn.tracking.tracker import Tracker

    f, s = FEATURE_SCORE[cfg["feat"]]
    tr = Tracker.from_config(
        window_size=cfg["window_size"],
        instance_score_threshold=cfg["instance_score_threshold"],
        candidates_method=cfg["candidates_method"],
        features=f,
        scoring_method=s,
        scoring_reduction=cfg["scoring_reduction"],
        track_matching_method=cfg["track_matching_method"],
    )
    # `_track_objects` is a class-level shared dict (mutable attrs default): it would leak
    # Track objects between cases.  Cleared by the harness (recorded as an assumption).
    tr._track_objects.clear()
    return tr


_SKELS = {}


def skeleton(n_nodes):
    import sleap_io as sio

    if n_nodes not in _SKELS:
        _SKELS[n_nodes] = sio.Skeleton(nodes=[f"n{i}" for i in range(n_nodes)])
    return _SKELS[n_nodes]


def make_detection(det, n_nodes):
    """det = {"pts": [[x,y]|None ...], "score": s} -> fresh sio.PredictedInstance."""
    import numpy as np
    import sleap_io as sio

    pts = np.array(
        [[math.nan, math.nan] if p is None else [float(p[0]), float(p[1])] for p in det["pts"]],
        dtype=np.float64,
    ).reshape(n_nodes, 2)
    return sio.PredictedInstance.from_numpy(points_data=pts, skeleton=skeleton(n_nodes), score=float(det["score"]))
