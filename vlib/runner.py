"""Shared runner: CLI contract, seeding, collect/bucket/shrink/replay, evidence writer.

A check module defines ``PROPERTY`` and ``parts(tier) -> list[Part]`` and ends with
``runner.main(__name__)``.  A *case* is always a JSON-serialisable value; a part's
``evaluate(case)`` re-runs the oracle on it and returns a ``Result``.  That makes a
replay file a plain JSON document re-executed without Hypothesis.

Exit codes: 0 held / 1 violation(s) printed / 2 harness error.
"""

from __future__ import annotations

import argparse
import shutil
import hashlib
import json
import math
import multiprocessing as mp
import os
import sys
import time
import traceback
from collections import Counter
from dataclasses import dataclass, field
from typing import Any, Callable, Dict, Iterable, List, Optional

from vlib import env

VERIF = env.VERIF
REPO = env.REPO


# ----------------------------------------------------------------------------------
# data types


@dataclass
class Result:
    """Outcome of evaluating one case."""

    failures: List[tuple] = field(default_factory=list)  # (bucket, message)
    nontrivial: bool = False
    classes: List[str] = field(default_factory=list)
    rejected: bool = False  # input outside the documented domain (counted, not judged)
    excluded: int = 0  # sub-assertions routed around an open known finding
    n_evals: int = 1  # oracle evaluations performed for this case

    def fail(self, bucket: str, message: str = ""):
        self.failures.append((bucket, message))

    def cls(self, *labels):
        self.classes.extend(labels)


@dataclass
class Part:
    name: str
    evaluate: Callable[[Any], Result]
    strategy: Optional[Callable[[], Any]] = None  # -> hypothesis strategy of cases
    enumerate: Optional[Callable[[str], Iterable[Any]]] = None  # exhaustive generator
    budget: Dict[str, int] = field(default_factory=dict)  # {"quick": n, "thorough": n}
    shards: Dict[str, int] = field(default_factory=lambda: {"quick": 1, "thorough": 16})
    exhaustive: Dict[str, bool] = field(default_factory=dict)
    min_nontrivial: Dict[str, int] = field(default_factory=lambda: {"quick": 2, "thorough": 2})
    summarize: Optional[Callable[[Any], Any]] = None
    setup: Optional[Callable[[], None]] = None  # per-process initialisation
    shrink: bool = True
    # coverage-guided part (vlib/fuzzdrv.py): {"instrument": [package prefixes], "modules": [modules to import instrumented]}
    fuzz: Optional[Dict[str, Any]] = None


class HarnessError(Exception):
    pass


# ----------------------------------------------------------------------------------
# helpers usable by checks


def case_hash(case) -> str:
    return hashlib.sha1(
        json.dumps(case, sort_keys=True, default=str).encode()
    ).hexdigest()[:16]


def shorten(obj, maxlist=10, depth=0):
    """Readable truncated copy of a case for evidence samples."""
    if isinstance(obj, dict):
        return {k: shorten(v, maxlist, depth + 1) for k, v in obj.items()}
    if isinstance(obj, (list, tuple)):
        lim = maxlist if depth < 3 else max(4, maxlist // 2)
        out = [shorten(v, maxlist, depth + 1) for v in obj[:lim]]
        if len(obj) > lim:
            out.append(f"...(+{len(obj) - lim} more)")
        return out
    if isinstance(obj, float):
        if math.isnan(obj):
            return "nan"
        if math.isinf(obj):
            return "inf" if obj > 0 else "-inf"
        return round(obj, 4)
    return obj


def innermost_repo_frame(exc: BaseException) -> Optional[str]:
    """'<file>:<func>' of the innermost traceback frame inside the tree under test."""
    tb = traceback.extract_tb(exc.__traceback__)
    root = os.path.realpath(REPO) + os.sep
    hit = None
    for fr in tb:
        fn = os.path.realpath(fr.filename)
        if fn.startswith(root) and "/sleap_nn/" in fn:
            hit = f"{os.path.relpath(fn, root)}:{fr.name}"
    return hit


def exc_bucket(prefix: str, exc: BaseException) -> Optional[str]:
    """Bucket for an exception raised by the code under test, None if the harness raised."""
    fr = innermost_repo_frame(exc)
    if fr is None:
        return None
    return f"{prefix}:raise:{type(exc).__name__}:{fr}"


def guarded(res: Result, prefix: str, fn, *a, **k):
    """Call code under test; an exception from it becomes a failure (returns _FAILED)."""
    try:
        return fn(*a, **k)
    except Exception as e:  # noqa: BLE001
        b = exc_bucket(prefix, e)
        if b is None:
            raise
        res.fail(b, f"{type(e).__name__}: {str(e)[:300]}")
        return FAILED


class _Failed:
    def __repr__(self):
        return "<FAILED>"


FAILED = _Failed()


# ----------------------------------------------------------------------------------
# known findings


def load_known(prop: str):
    p = os.path.join(VERIF, "known_findings.json")
    if not os.path.exists(p):
        return []
    with open(p) as f:
        data = json.load(f)
    return [e for e in data.get("findings", []) if e.get("property") == prop]


def known_open_match(known, bucket: str):
    for e in known:
        if e.get("status") == "open" and bucket.startswith(e["key"]):
            return e
    return None


# ----------------------------------------------------------------------------------
# per-part execution (runs in worker processes too)


class Stats:
    def __init__(self):
        self.evaluations = 0
        self.cases = 0
        self.nontrivial = set()
        self.class_counts = Counter()
        self.samples = {}  # label -> case summary
        self.failures = {}  # bucket -> {"case":..., "message":..., "count": n}
        self.rejected = 0
        self.excluded = 0
        self.budget_exhausted = False
        self.harness_error = None
        self.fuzz = []  # one record per coverage-guided campaign (shard)

    def add(self, part: Part, case, res: Result):
        self.cases += 1
        self.evaluations += max(1, res.n_evals)
        if res.rejected:
            self.rejected += 1
        self.excluded += res.excluded
        for c in res.classes:
            self.class_counts[c] += 1
        h = None
        if res.nontrivial:
            h = case_hash(case)
            self.nontrivial.add(h)
        skey = ("N" if res.nontrivial else "T") + "|" + "|".join(res.classes[:3])
        if skey not in self.samples and len(self.samples) < 48:
            summ = part.summarize(case) if part.summarize else shorten(case)
            self.samples[skey] = {
                "part": part.name,
                "nontrivial": bool(res.nontrivial),
                "classes": res.classes[:6],
                "case": summ,
            }
        for bucket, msg in res.failures:
            ent = self.failures.get(bucket)
            if ent is None:
                self.failures[bucket] = {"case": case, "message": msg, "count": 1, "part": part.name}
            else:
                ent["count"] += 1

    def merge(self, other: "Stats"):
        self.evaluations += other.evaluations
        self.cases += other.cases
        self.nontrivial |= other.nontrivial
        self.class_counts.update(other.class_counts)
        for k, v in other.samples.items():
            if k not in self.samples and len(self.samples) < 48:
                self.samples[k] = v
        for b, ent in other.failures.items():
            if b in self.failures:
                self.failures[b]["count"] += ent["count"]
            else:
                self.failures[b] = ent
        self.rejected += other.rejected
        self.excluded += other.excluded
        self.budget_exhausted |= other.budget_exhausted
        self.harness_error = self.harness_error or other.harness_error
        self.fuzz = list(getattr(self, "fuzz", [])) + list(getattr(other, "fuzz", []))


def pick_samples(samples, k=8):
    """<= k samples: non-trivial first, one per part before repeating a part."""
    items = sorted(samples.items(), key=lambda kv: (not kv[1]["nontrivial"], kv[0]))
    out, seen_parts = [], Counter()
    for rnd in range(k):
        for key, v in items:
            if v in out:
                continue
            if seen_parts[v["part"]] <= rnd:
                out.append(v)
                seen_parts[v["part"]] += 1
                if len(out) >= k:
                    return out
    return out


def _safe_eval(part: Part, case) -> Result:
    """evaluate() with the generic classification of stray exceptions."""
    try:
        res = part.evaluate(case)
        if not isinstance(res, Result):
            raise HarnessError(f"{part.name}.evaluate returned {type(res)}")
        return res
    except HarnessError:
        raise
    except Exception as e:  # noqa: BLE001
        b = exc_bucket(part.name, e)
        if b is None:
            raise HarnessError(
                f"harness exception in part {part.name}: "
                + "".join(traceback.format_exception(type(e), e, e.__traceback__))[-3000:]
            )
        r = Result()
        r.fail(b, f"{type(e).__name__}: {str(e)[:300]}")
        return r


def _hyp_settings(n, shrink=False):
    from hypothesis import HealthCheck, Phase, settings

    phases = [Phase.generate] + ([Phase.shrink] if shrink else [])
    return settings(
        max_examples=n,
        deadline=None,
        database=None,
        derandomize=False,
        report_multiple_bugs=False,
        phases=phases,
        suppress_health_check=list(HealthCheck),
        print_blob=False,
    )


def run_fuzz_part(part: Part, modname: str, tier: str, seed: int, n: int, wall_budget: float) -> Optional[Stats]:
    """Coverage-guided campaign in a subprocess (vlib/fuzzdrv.py); None if atheris cannot be imported."""
    import pickle
    import re
    import subprocess

    root = env.scratch_dir(f"fuzz-{part.name}-{seed}")
    out = os.path.join(root, "stats.pkl")
    cmd = [sys.executable, "-W", "ignore", "-m", "vlib.fuzzdrv", modname, part.name, tier, str(seed), str(n), out, os.path.join(root, "corpus")]
    try:
        r = subprocess.run(cmd, capture_output=True, text=True, timeout=wall_budget + 120, cwd=VERIF, errors="replace")
        rc, err, timed_out = r.returncode, r.stderr, False
    except subprocess.TimeoutExpired as e:
        rc, err, timed_out = 0, (e.stderr or b"").decode(errors="replace") if isinstance(e.stderr, bytes) else (e.stderr or ""), True
    if "No module named 'atheris'" in err and not os.path.exists(out):
        return None
    if not os.path.exists(out):
        raise HarnessError(f"coverage-guided driver for part {part.name} produced no statistics (rc={rc}): {err[-1500:]}")
    with open(out, "rb") as f:
        st = pickle.load(f)
    if st.harness_error:
        return st
    if rc != 0:
        raise HarnessError(f"coverage-guided driver for part {part.name} ended with rc={rc}: {err[-1500:]}")
    info = dict(getattr(st, "fuzz_info", {}))
    m = re.findall(r"cov: (\d+) ft: (\d+) corp: (\d+)", err)
    if m:
        info.update(edges_covered=int(m[-1][0]), features=int(m[-1][1]), corpus_size=int(m[-1][2]))
    m0 = re.search(r"INITED cov: (\d+) ft: (\d+)", err)
    if m0:
        info.update(edges_covered_by_initial_corpus=int(m0.group(1)))
    info["seed"] = seed
    st.budget_exhausted |= timed_out
    st.fuzz = [info]
    shutil.rmtree(root, ignore_errors=True)
    return st


def run_part(part: Part, tier: str, seed: int, n: int, wall_budget: float, modname: Optional[str] = None) -> Stats:
    if part.fuzz is not None and modname is not None:
        fst = run_fuzz_part(part, modname, tier, seed, n, wall_budget)
        if fst is not None:
            return fst
    st = Stats()
    if part.fuzz is not None:
        st.fuzz = [{"fallback": "atheris not importable: the part ran as a plain Hypothesis part", "seed": seed}]
    t0 = time.time()
    if part.setup:
        part.setup()
    if part.enumerate is not None:
        for i, case in enumerate(part.enumerate(tier)):
            res = _safe_eval(part, case)
            st.add(part, case, res)
            if time.time() - t0 > wall_budget:
                st.budget_exhausted = True
                break
        return st

    import hypothesis
    from hypothesis import given

    strat = part.strategy()

    def body(case):
        if time.time() - t0 > wall_budget:
            st.budget_exhausted = True
            return
        res = _safe_eval(part, case)
        st.add(part, case, res)

    test = hypothesis.seed(seed)(_hyp_settings(n)(given(strat)(body)))
    test()
    return st


def _worker(args):
    modname, partname, tier, seed, n, wall_budget, shard = args
    try:
        import importlib

        env.setup()
        mod = importlib.import_module(modname)
        part = [p for p in mod.parts(tier) if p.name == partname][0]
        if part.enumerate is not None:
            # sharded enumeration: part.enumerate yields everything; take a slice
            nsh = part.shards.get(tier, 1)
            base = part.enumerate

            def sl(t, base=base, shard=shard, nsh=nsh):
                for i, c in enumerate(base(t)):
                    if i % nsh == shard:
                        yield c

            part = Part(**{**part.__dict__, "enumerate": sl})
        st = run_part(part, tier, seed, n, wall_budget, modname)
        return st
    except HarnessError as e:
        st = Stats()
        st.harness_error = str(e)
        return st
    except BaseException as e:  # noqa: BLE001
        st = Stats()
        st.harness_error = "".join(traceback.format_exception(type(e), e, e.__traceback__))[-3000:]
        return st


def shrink_case(part: Part, bucket: str, seed: int, first_case, time_cap=90.0, max_examples=300):
    """Second pass: find a minimal case failing in `bucket` (Hypothesis shrinker)."""
    if part.strategy is None:
        return first_case
    import hypothesis
    from hypothesis import given

    t0 = time.time()
    last = {"case": None}

    class _Hit(Exception):
        pass

    def body(case):
        if time.time() - t0 > time_cap:
            return
        res = _safe_eval(part, case)
        if any(b == bucket for b, _ in res.failures):
            last["case"] = case
            raise _Hit()

    test = hypothesis.seed(seed)(_hyp_settings(max_examples, shrink=True)(given(part.strategy())(body)))
    try:
        test()
    except BaseException:  # noqa: BLE001
        pass
    return last["case"] if last["case"] is not None else first_case


# ----------------------------------------------------------------------------------
# main


def write_replay(prop, part, bucket, message, case):
    d = os.path.join(VERIF, "replays", prop)
    os.makedirs(d, exist_ok=True)
    h = hashlib.sha1((bucket + json.dumps(case, sort_keys=True, default=str)).encode()).hexdigest()[:10]
    safe = "".join(ch if ch.isalnum() or ch in "-_." else "_" for ch in bucket)[:80]
    path = os.path.join(d, f"{safe}-{h}.json")
    with open(path, "w") as f:
        json.dump({"property": prop, "part": part, "bucket": bucket, "message": message, "case": case}, f)
    return path


def main(modname: str):
    mod = sys.modules[modname]
    prop = mod.PROPERTY
    ap = argparse.ArgumentParser()
    ap.add_argument("tier", nargs="?", default=os.environ.get("VERIF_TIER", "quick"), choices=["quick", "thorough"])
    ap.add_argument("--replay", default=None)
    ap.add_argument("--seed", type=int, default=int(os.environ.get("VERIF_SEED", "1") or 1))
    ap.add_argument("--parts", default=None, help="comma separated subset (debugging)")
    ap.add_argument("--scale", type=float, default=float(os.environ.get("VERIF_BUDGET_SCALE", "1")))
    ap.add_argument("--no-evidence", action="store_true")
    ap.add_argument("--shrink", action="store_true", help="shrink failing cases also in the quick tier")
    args = ap.parse_args()
    t_start = time.time()
    try:
        env.scratch_root()  # created by the top-level process, inherited by workers
        env.setup()
        env.assert_repo()
        rc = _main(mod, prop, args, t_start)
    except HarnessError as e:
        print(f"HARNESS-ERROR property={prop}: {e}", file=sys.stderr)
        rc = 2
    except SystemExit:
        raise
    except BaseException as e:  # noqa: BLE001
        traceback.print_exc()
        print(f"HARNESS-ERROR property={prop}: {type(e).__name__}: {e}", file=sys.stderr)
        rc = 2
    sys.stdout.flush()
    sys.stderr.flush()
    env.cleanup()
    os._exit(rc)  # no lingering threads / atexit of third-party libs may change the code


def _main(mod, prop, args, t_start):
    tier = args.tier
    known = load_known(prop)
    parts: List[Part] = mod.parts(tier)
    if args.parts:
        want = set(args.parts.split(","))
        parts = [p for p in parts if p.name in want]
    by_name = {p.name: p for p in parts}

    # ---- replay mode: bypass Hypothesis entirely
    if args.replay:
        with open(args.replay) as f:
            doc = json.load(f)
        part = by_name.get(doc["part"])
        if part is None:  # a part that exists only in the other tier (e.g. an exhaustive thorough-only grid)
            other = "thorough" if tier == "quick" else "quick"
            part = {p.name: p for p in mod.parts(other)}.get(doc["part"])
        if part is None:
            raise HarnessError(f"unknown part {doc['part']}")
        if part.setup:
            part.setup()
        res = _safe_eval(part, doc["case"])
        bad = [(b, m) for b, m in res.failures if not known_open_match(known, b)]
        for b, m in res.failures:
            print(f"replay: bucket={b} {m}")
        if bad:
            print(f"VIOLATION property={prop} replay={args.replay}")
            return 1
        print(f"replay: property={prop} holds on {args.replay}")
        return 0

    total = Stats()
    per_part = {}
    wall_budget = float(os.environ.get("VERIF_WALL_BUDGET", "900" if tier == "quick" else "10800"))

    # ---- regression tier: committed failing inputs, bypass Hypothesis
    regress_dir = os.path.join(VERIF, "regress", prop)
    n_regress = 0
    if os.path.isdir(regress_dir):
        for fn in sorted(os.listdir(regress_dir)):
            if not fn.endswith(".json"):
                continue
            with open(os.path.join(regress_dir, fn)) as f:
                doc = json.load(f)
            part = by_name.get(doc["part"])
            if part is None:
                continue
            if part.setup:
                part.setup()
            res = _safe_eval(part, doc["case"])
            res.classes = ["regress"]
            total.add(part, doc["case"], res)
            n_regress += 1

    floor_problems = []
    for part in parts:
        n = int(max(1, round(part.budget.get(tier, part.budget.get("quick", 100)) * args.scale)))
        nsh = part.shards.get(tier, 1)
        if nsh <= 1:
            st = run_part(part, tier, args.seed, n, wall_budget, mod.__name__ if mod.__name__ != "__main__" else mod.__spec__.name)
        else:
            ctx = mp.get_context("spawn")
            per = max(1, n // nsh)
            jobs = [
                (mod.__name__ if mod.__name__ != "__main__" else mod.__spec__.name, part.name, tier, args.seed * 1000 + i, per, wall_budget, i)
                for i in range(nsh)
            ]
            with ctx.Pool(min(nsh, int(os.environ.get("VERIF_PROCS", "16")))) as pool:
                sts = pool.map(_worker, jobs, chunksize=1)
            st = Stats()
            for s in sts:
                st.merge(s)
        if st.harness_error:
            raise HarnessError(st.harness_error)
        per_part[part.name] = {
            "cases": st.cases,
            "evaluations": st.evaluations,
            "distinct_nontrivial": len(st.nontrivial),
            "rejected_inputs": st.rejected,
            "excluded_by_known_finding": st.excluded,
            "exhaustive": bool(part.exhaustive.get(tier, False)) and not st.budget_exhausted,
            "budget_exhausted": st.budget_exhausted,
        }
        if getattr(st, "fuzz", None):
            fz = st.fuzz
            per_part[part.name]["coverage_guided"] = {
                "engine": "atheris/libFuzzer -> hypothesis fuzz_one_input -> part strategy -> evaluate",
                "campaigns": len(fz),
                "executions": sum(i.get("executions", 0) for i in fz),
                "inputs_decoded_to_a_case": sum(i.get("decoded", 0) for i in fz),
                "edges_covered_max": max([i.get("edges_covered", 0) for i in fz] or [0]),
                "edges_covered_by_initial_corpus_max": max([i.get("edges_covered_by_initial_corpus", 0) for i in fz] or [0]),
                "corpus_size_total": sum(i.get("corpus_size", 0) for i in fz),
                "instrumented_modules": sorted({m for i in fz for m in i.get("instrumented", [])}),
                "fallbacks": [i["fallback"] for i in fz if "fallback" in i][:1],
            }
        # smoke runs (--scale < 0.1) give each shard only Hypothesis' simplest examples: the vacuity floor is then 1
        floor = max(2, int(part.min_nontrivial.get(tier, 2) * min(1.0, args.scale))) if args.scale >= 0.1 else 1
        if len(st.nontrivial) < floor and not st.budget_exhausted:
            floor_problems.append(
                f"part {part.name}: only {len(st.nontrivial)} non-trivial cases (< {floor}); generator is broken"
            )
        total.merge(st)

    # ---- triage failures
    violations = []
    known_hits = Counter()
    for bucket, ent in sorted(total.failures.items()):
        e = known_open_match(known, bucket)
        if e is not None:
            known_hits[e["key"]] += ent["count"]
            continue
        part = by_name[ent["part"]]
        case = ent["case"]
        if (tier == "thorough" or args.shrink) and part.shrink and part.strategy is not None:
            case = shrink_case(part, bucket, args.seed, case)
        path = write_replay(prop, ent["part"], bucket, ent["message"], case)
        violations.append((bucket, ent, path))

    for e in known:
        if e.get("status") == "open":
            print(
                f"KNOWN-FINDING: property={prop} {e['key']}: {e['description']} "
                f"(seen {known_hits.get(e['key'], 0)}x in this run)"
            )
    for bucket, ent, path in violations:
        print(f"  bucket={bucket} count={ent['count']} {ent['message'][:400]}")
        print(f"VIOLATION property={prop} replay={path}")
    if floor_problems and not violations:
        # a vacuous run is a harness error - but never hides violations that were found
        raise HarnessError("; ".join(floor_problems))

    # ---- evidence
    wall = time.time() - t_start
    level = getattr(mod, "LEVEL", "exploration")
    coverage = {
        "evaluations": int(total.evaluations),
        "distinct_nontrivial": int(len(total.nontrivial)),
        "rule": getattr(mod, "RULE", ""),
        "samples": pick_samples(total.samples),
        "cases": int(total.cases),
        "class_counts": dict(sorted(total.class_counts.items())),
        "rejected_inputs": int(total.rejected),
        "excluded_by_known_finding": int(total.excluded + sum(known_hits.values())),
        "regression_inputs_replayed": n_regress,
        "parts": per_part,
        "buckets": {b: ent["count"] for b, ent in total.failures.items()},
        "known_findings_seen": dict(known_hits),
        "budget_exhausted": bool(total.budget_exhausted),
        "exhaustive": any(v["exhaustive"] for v in per_part.values()),
        "exhaustive_parts": [k for k, v in per_part.items() if v["exhaustive"]],
    }
    extra = getattr(mod, "extra_coverage", None)
    if extra:
        coverage.update(extra())
    ev = {
        "property_id": prop,
        "tier": tier,
        "seed": int(args.seed),
        "level": level,
        "coverage": coverage,
        "assumptions": list(getattr(mod, "ASSUMPTIONS", [])) + [f"shim:{s}" for s in env.SHIMS],
        "wall_s": round(wall, 2),
        "violations": len(violations),
    }
    if not args.no_evidence and not args.parts:
        os.makedirs(os.path.join(VERIF, "evidence"), exist_ok=True)
        with open(os.path.join(VERIF, "evidence", f"{prop}.json"), "w") as f:
            json.dump(ev, f, indent=1, default=str)
    print(
        f"{prop} {tier} seed={args.seed}: cases={total.cases} evaluations={total.evaluations} "
        f"nontrivial={len(total.nontrivial)} rejected={total.rejected} violations={len(violations)} "
        f"wall={wall:.1f}s"
    )
    return 1 if violations else 0
