"""Harness-owned cooperative scheduler for C13.

Real `threading.Thread`s run the repo's unmodified `run()` bodies, but only one logical
thread holds the *baton* at any time.  At every yield point (before a queue put / get,
before a frame read, after thread start, at thread end, before join, at queue / thread state
queries) the running thread
hands the baton to a thread chosen from a *choice sequence*; a thread is runnable unless it
waits on a full queue (put), an empty queue (get) or an unfinished thread (join); a wait
*with a timeout* may additionally expire at any moment while its condition is false (a
choice like any other, at most `max_timeouts` times per execution).  No
runnable thread while some are unfinished = deadlock.  The schedule is therefore a pure
function of the choice sequence, which makes interleavings enumerable (DFS over choice
points) and replayable.
"""

import queue
import threading


class Deadlock(BaseException):
    pass


class StepLimit(BaseException):
    pass


class Scheduler:
    def __init__(self, choices=(), max_steps=5000, max_timeouts=3):
        self.cv = threading.Condition()
        self.choices = list(choices)
        self.taken = []  # (chosen index, n alternatives) at every real choice point
        self.threads = {}  # name -> {"pred": callable|None, "done": bool}
        self.by_ident = {}
        self.current = None
        self.deadlock = False
        self.steps = 0
        self.max_steps = max_steps
        self.step_limit_hit = False
        self.events = []  # readable schedule trace
        self.blocked_put = 0
        self.blocked_get = 0
        self.max_timeouts = max_timeouts  # bound on "a timed wait expires" events per execution
        self.timeouts = 0

    # -- registration
    def register_current(self, name):
        with self.cv:
            self.threads[name] = {"pred": None, "done": False}
            self.by_ident[threading.get_ident()] = name
            if self.current is None:
                self.current = name

    def me(self):
        return self.by_ident[threading.get_ident()]

    # -- core
    def _runnable(self):
        out = []
        for n in sorted(self.threads):
            t = self.threads[n]
            if t["done"]:
                continue
            if t["pred"] is None or t["pred"]():
                out.append(n)
            elif t.get("timed") and self.timeouts < self.max_timeouts:
                # a wait with a timeout may expire at any moment while its condition is false
                out.append(n)
        return out

    def _pick(self):
        run = self._runnable()
        if not run:
            if any(not t["done"] for t in self.threads.values()):
                self.deadlock = True
            self.current = None
            self.cv.notify_all()
            return
        if len(run) == 1:
            nxt = run[0]
        else:
            k = len(self.taken)
            c = self.choices[k] % len(run) if k < len(self.choices) else 0
            self.taken.append((c, len(run)))
            nxt = run[c]
        self.current = nxt
        self.cv.notify_all()

    def switch(self, kind, pred=None, timed=False):
        """Yield point of the calling thread; returns when it is scheduled again.
        Returns "timeout" when a timed wait was scheduled while its condition was still false."""
        me = self.me()
        with self.cv:
            if self.deadlock:
                raise Deadlock()
            self.steps += 1
            if self.steps > self.max_steps:
                self.step_limit_hit = True
                self.deadlock = True
                self.cv.notify_all()
                raise StepLimit()
            if pred is not None and not pred():
                if kind == "put":
                    self.blocked_put += 1
                elif kind == "get":
                    self.blocked_get += 1
            self.threads[me]["pred"] = pred
            self.threads[me]["timed"] = bool(timed)
            self.events.append(f"{me}:{kind}")
            self._pick()
            while self.current != me:
                if self.deadlock:
                    raise Deadlock()
                self.cv.wait(timeout=30)
            self.threads[me]["pred"] = None
            self.threads[me]["timed"] = False
            if pred is not None and timed and not pred():
                self.timeouts += 1
                self.events.append(f"{me}:{kind}-timeout")
                return "timeout"
            return None

    def thread_begin(self, name):
        """First thing a new logical thread does: register and wait to be scheduled."""
        with self.cv:
            self.threads[name] = {"pred": None, "done": False}
            self.by_ident[threading.get_ident()] = name
            self.cv.notify_all()
            while self.current != name:
                if self.deadlock:
                    raise Deadlock()
                self.cv.wait(timeout=30)

    def wait_registered(self, name):
        """Called by the starter after Thread.start(): make the start a yield point."""
        with self.cv:
            while name not in self.threads:
                self.cv.wait(timeout=30)
        self.switch("started")

    def thread_end(self):
        me = self.me()
        with self.cv:
            self.threads[me]["done"] = True
            self.events.append(f"{me}:end")
            if self.deadlock:
                self.cv.notify_all()
                return
            self._pick()

    def is_done(self, name):
        return self.threads.get(name, {}).get("done", False)


class SchedQueue(queue.Queue):
    """A real `queue.Queue` whose blocking behaviour is modelled by the scheduler."""

    def __init__(self, sched, maxsize=0):
        super().__init__(maxsize=maxsize)
        self.sched = sched
        self.put_log = []
        self.get_log = []

    def _full(self):
        return 0 < self.maxsize <= len(self.queue)

    def _empty(self):
        return len(self.queue) == 0

    def put(self, item, block=True, timeout=None):
        if not block:
            self.sched.switch("put-nowait")
            if self._full():
                raise queue.Full
        else:
            r = self.sched.switch("put", (lambda: not self._full()), timed=timeout is not None)
            if r == "timeout":
                raise queue.Full
        # NB: Queue.put_nowait calls self.put -> delegate to the base class explicitly.
        queue.Queue.put(self, item, False)
        self.put_log.append(dict(item) if isinstance(item, dict) else item)  # consumer mutates the dict

    def get(self, block=True, timeout=None):
        if not block:
            self.sched.switch("get-nowait")
            if self._empty():
                raise queue.Empty
        else:
            r = self.sched.switch("get", (lambda: not self._empty()), timed=timeout is not None)
            if r == "timeout":
                raise queue.Empty
        item = queue.Queue.get(self, False)
        self.get_log.append(item)
        return item

    def put_nowait(self, item):
        return self.put(item, block=False)

    def get_nowait(self):
        return self.get(block=False)

    # state queries by the code under test are yield points too (their answer may be stale afterwards)
    def empty(self):
        self.sched.switch("empty?")
        return self._empty()

    def full(self):
        self.sched.switch("full?")
        return self._full()

    def qsize(self):
        self.sched.switch("qsize?")
        return len(self.queue)


def explore_all(run_one, max_runs=None):
    """Stateless DFS over choice points. `run_one(prefix) -> taken [(choice, n_alt), ...]`.
    Yields nothing; returns number of executions. run_one is responsible for judging."""
    stack = [[]]
    n = 0
    while stack:
        prefix = stack.pop()
        taken = run_one(prefix)
        n += 1
        if max_runs is not None and n >= max_runs:
            return n, False
        base = [c for c, _ in taken]
        for i in range(len(prefix), len(taken)):
            for alt in range(1, taken[i][1]):
                stack.append(base[:i] + [alt])
    return n, True
